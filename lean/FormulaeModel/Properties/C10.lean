import FormulaeModel.Proofs.Blocks
import FormulaeModel.Spec.C10
import FormulaeModel.Generated.Tables
import FormulaeModel.Properties.C05
/-
C10 — theorems about the model of `eval_new_data_categoric`, `GroupSpecificTerm.eval_new_data`
and `Config`.
-/
namespace FormulaeModel.C10
open FormulaeModel FormulaeModel.Design

/-- **error mode**: evaluation raises if and only if some value is unseen. -/
theorem C10_error_iff (st : CompState) (cm : ContrastMatrix) (hc : st.contrast = some cm)
    (xs : List (Option Level)) :
    (xs.any (isUnseen st.levels) = true →
      newCategoric st .error xs = .error (.valueError "levels not present in the original data set")) ∧
    (xs.any (isUnseen st.levels) = false →
      newCategoric st .error xs = (codeRows cm st.levels xs).map (fun m => (m, false))) := by
  constructor
  · intro h
    simp only [newCategoric, hc, h, bind, Except.bind]
    rfl
  · intro h
    simp only [newCategoric, hc, h, bind, Except.bind, pure, Except.pure]
    cases codeRows cm st.levels xs <;> rfl

/-- **warning / silent mode**: the result has one row per input value; the row of an unseen
value is all zeros (as wide as the coding), the row of a seen value is its row of the remembered
contrast matrix; a warning is issued exactly in `warning` mode. -/
theorem C10_zero_rows (st : CompState) (cm : ContrastMatrix) (hc : st.contrast = some cm)
    (mode : UnseenMode) (hm : mode ≠ .error) (xs : List (Option Level))
    (h : xs.any (isUnseen st.levels) = true) :
    newCategoric st mode xs = .ok
      (xs.map (fun x =>
        match x.bind (fun l => indexOf? l st.levels) with
        | some i => rowOfInts (cm.rows.getD i [])
        | none => List.replicate cm.labels.length (some (0 : Rat))),
       mode == .warning) := by
  have hme : (mode == UnseenMode.error) = false := by
    cases mode <;> simp_all
  simp only [newCategoric, hc, h, hme, bind, Except.bind, pure, Except.pure]
  rfl

/-- an unseen value has no index among the levels, so its row is the zero row -/
theorem C10_unseen_row_zero (levels : List Level) (x : Option Level) (h : isUnseen levels x = true) :
    x.bind (fun l => indexOf? l levels) = none := by
  cases x with
  | none => rfl
  | some l =>
    simp only [isUnseen, Bool.not_eq_true', List.contains_eq_mem, decide_eq_false_iff_not] at h
    simp only [Option.bind_some, indexOf?]
    have : ¬ (List.findIdx (fun y => y == l) levels < levels.length) := by
      intro hlt
      have := List.findIdx_getElem (w := hlt)
      simp only [beq_iff_eq] at this
      exact h (this ▸ List.getElem_mem _)
    simp [this]

/-- a zero row makes every interaction column involving it zero (no missing values) -/
theorem C10_interaction_zero_left (w : Nat) (y : List Rat) :
    rowProd (List.replicate w (some (0 : Rat))) (y.map some) =
      List.replicate (w * y.length) (some (0 : Rat)) := by
  induction w with
  | zero => simp [rowProd]
  | succ w ih =>
    simp only [rowProd, List.replicate_succ, List.flatMap_cons] at *
    rw [ih, Nat.succ_mul, Nat.add_comm, ← List.replicate_append_replicate]
    congr 1
    simp [Entry.mul, List.map_map, Function.comp_def, List.map_const']

theorem C10_interaction_zero_right (x : List Rat) (w : Nat) :
    rowProd (x.map some) (List.replicate w (some (0 : Rat))) =
      List.replicate (x.length * w) (some (0 : Rat)) := by
  induction x with
  | nil => simp [rowProd]
  | cons a x ih =>
    simp only [rowProd, List.map_cons, List.flatMap_cons, List.length_cons] at *
    rw [ih, Nat.succ_mul, Nat.add_comm, ← List.replicate_append_replicate]
    congr 1
    simp [Entry.mul, List.map_const']

/-- **new group**: an observation of an unseen group has the indicator row of the appended
(G+1)-th group, so (C05_block_row with G+1 groups) every existing slot is zero and the trailing
slot carries the effect values. -/
theorem C10_new_group_block (G : Nat) (x : List Rat) (g' k : Nat) (hg' : g' < G + 1)
    (hk : k < x.length) :
    (rowProd (C05.indicatorRow (G + 1) G) (x.map some))[g' * x.length + k]? =
      some (some (if g' = G then x[k] else 0)) :=
  C05.C05_block_row_values (G + 1) G x g' k hg' hk

/-- the appended indicator: all-zero rows get 1, the others 0, in one extra trailing column -/
theorem C10_appended_column (ji : Matrix) (isZeroRow : List Entry → Bool) (r : Nat) (hr : r < ji.length) :
    (ji.map (fun row => row ++ [some (if isZeroRow row then (1 : Rat) else 0)]))[r]'(by simpa using hr)
      = ji[r] ++ [some (if isZeroRow ji[r] then 1 else 0)] := by
  simp

/-- **configuration**: a key/value pair is accepted iff it is a documented field with a
documented value; the default is the first choice (`error`). -/
theorem C10_config_accepts (st : Config.State) (key value : String) :
    (∃ st', Config.set Spec.C10.documentedFields st key value = .ok st') ↔
      key = "EVAL_UNSEEN_CATEGORIES" ∧ (value = "error" ∨ value = "warning" ∨ value = "silent") := by
  simp only [Config.set, Spec.C10.documentedFields, List.find?_cons, List.find?_nil]
  by_cases hk : key = "EVAL_UNSEEN_CATEGORIES"
  · subst hk
    simp only [beq_self_eq_true, true_and]
    by_cases hv : ["error", "warning", "silent"].contains value = true
    · simp only [hv, if_true]
      constructor
      · intro _; simpa using hv
      · intro _; exact ⟨_, rfl⟩
    · have hv' : ["error", "warning", "silent"].contains value = false := by simpa using hv
      simp only [hv', Bool.false_eq_true, if_false]
      constructor
      · rintro ⟨_, h⟩; cases h
      · intro h; simp at hv; exact absurd h (by simpa [not_or] using hv)
  · have : ("EVAL_UNSEEN_CATEGORIES" == key) = false := by
      simp only [beq_eq_false_iff_ne, ne_eq]; exact fun h => hk h.symm
    simp [this, hk]

theorem C10_config_default :
    Config.get (Config.init Spec.C10.documentedFields) "EVAL_UNSEEN_CATEGORIES" = .ok "error" := by
  rfl

/-- tie: the field table read from config.py is the documented one -/
theorem config_tie : Generated.configFields = Spec.C10.documentedFields := by decide
theorem config_shape : Generated.configShapeOk = true := by decide

/-- after any sequence of accepted settings the value read is the last one set (the mode in force
at evaluation time is the current one) -/
theorem C10_config_last_wins (st st' : Config.State) (v : String)
    (h : Config.set Spec.C10.documentedFields st "EVAL_UNSEEN_CATEGORIES" v = .ok st') :
    Config.get st' "EVAL_UNSEEN_CATEGORIES" = .ok v := by
  simp only [Config.set, Spec.C10.documentedFields, List.find?_cons, beq_self_eq_true] at h
  split at h
  · simp only [Except.ok.injEq] at h
    subst h
    split
    · rename_i hany
      simp only [Config.get]
      induction st with
      | nil => simp at hany
      | cons p st ih =>
        simp only [List.map_cons, List.find?_cons]
        by_cases hp : p.1 = "EVAL_UNSEEN_CATEGORIES"
        · simp [hp]
        · have hp' : (p.1 == "EVAL_UNSEEN_CATEGORIES") = false := by simpa using hp
          simp only [hp', Bool.false_eq_true, if_false]
          simp only [List.any_cons, hp', Bool.false_or] at hany
          exact ih hany
    · rename_i hany
      simp only [Config.get]
      have : ∀ p ∈ st, (p.1 == "EVAL_UNSEEN_CATEGORIES") = false := by
        intro p hp
        simp only [List.any_eq_true, not_exists, not_and, Bool.not_eq_true] at hany
        exact hany p hp
      rw [List.find?_append]
      have hnone : st.find? (fun p => p.1 == "EVAL_UNSEEN_CATEGORIES") = none := by
        rw [List.find?_eq_none]; intro p hp; simp [this p hp]
      simp [hnone]
  · simp at h

/-! ## Term level: `newGroup` on the state `trainGroup` leaves

`C10_new_group_block` / `C10_zero_rows` above are about the building blocks.  The theorems below
are about the model's own `newGroup` (`GroupSpecificTerm.eval_new_data`) applied to the state
remembered by `trainGroup`, for every training frame, every new frame, every number of grouping
components and every effect.  `cols` are the grouping values read from the new frame
(`newFactorColumns`), `rowCell … r` the cell of new row `r` among the *training* levels (`none`:
some grouping value of the row was not seen in training), `C05.cells` the number of training
cells `G`.  The coding hypothesis `C05.IndicatorCoded` is the one of C05 (it holds for plain
variables and Treatment-coded factors; see `C05_plain_factor_indicatorCoded`). -/

open C05 in
/-- the state `trainGroup` leaves is a trained grouping factor -/
theorem factorState_of_trainGroup (env : Env) (table : List (String × Expr)) (spec : GroupSpec)
    (out : GroupOut) (h : trainGroup env table spec = .ok out) (ht : C05.IndicatorCoded out.st) :
    FactorState out.st.factor.comps :=
  ⟨(trainGroup_factor_state env table spec out h).1, ht⟩

/-- **new-group rule, `error` mode**: if the effect part evaluates and some grouping value of the
new data was not seen in training, the evaluation raises the unseen-levels ValueError. -/
theorem C10_newGroup_error (env : Env) (table : List (String × Expr)) (spec : GroupSpec) (out : GroupOut)
    (h : trainGroup env table spec = .ok out) (ht : C05.IndicatorCoded out.st)
    (env' : Env) (cols : List (List (Option Level)))
    (hcols : newFactorColumns out.st.factor.comps env' = .ok cols)
    (p : Matrix × Bool) (hp : newEffect out.st env' .error = .ok p)
    (hu : anyUnseen out.st.factor.comps cols = true) :
    newGroup out.st env' .error = .error (.valueError "levels not present in the original data set") :=
  newGroup_error out.st (factorState_of_trainGroup env table spec out h ht) env' cols hcols p hp hu

/-- **new-group rule, the block** (all modes).  If `newGroup` returns `(M, w)` then: in `error`
mode no grouping value is unseen; a warning is issued iff the effect part warned or (mode
`warning` and some value is unseen); and every row `r` of `M` is the Kronecker row of an indicator
row with the effect row `x = X[r]`:
* if no row of the new indicator matrix is unseen — the training structure, `G` slots, the row's
  own cell carries `x`;
* if some row is unseen — `G + 1` slots: a row of a known cell keeps its training slot, a row
  with an unseen grouping value is zero in all `G` training slots and carries `x` in the appended
  slot `G`. -/
theorem C10_newGroup_block (env : Env) (table : List (String × Expr)) (spec : GroupSpec) (out : GroupOut)
    (h : trainGroup env table spec = .ok out) (ht : C05.IndicatorCoded out.st)
    (env' : Env) (mode : UnseenMode) (cols : List (List (Option Level)))
    (hcols : newFactorColumns out.st.factor.comps env' = .ok cols)
    (M : Matrix) (w : Bool) (hnew : newGroup out.st env' mode = .ok (M, w)) :
    ∃ X w1, newEffect out.st env' mode = .ok (X, w1) ∧
      (mode = .error → anyUnseen out.st.factor.comps cols = false) ∧
      w = (w1 || (anyUnseen out.st.factor.comps cols && mode == .warning)) ∧
      ∀ r (hr : r < M.length), ∃ x, X[r]? = some x ∧
        ((∀ r', r' < (newFactorMatrix out.st.factor.comps cols).length →
            (rowCell (out.st.factor.comps.map (·.levels)) cols r').isSome = true) →
          ∃ ps, rowCell (out.st.factor.comps.map (·.levels)) cols r = some ps ∧
            cellIndex 0 ps < C05.cells out.st ∧
            M[r] = rowProd (C05.indicatorRow (C05.cells out.st) (cellIndex 0 ps)) x) ∧
        ((∃ r', r' < (newFactorMatrix out.st.factor.comps cols).length ∧
            rowCell (out.st.factor.comps.map (·.levels)) cols r' = none) →
          (∀ ps, rowCell (out.st.factor.comps.map (·.levels)) cols r = some ps →
            M[r] = rowProd (C05.indicatorRow (C05.cells out.st + 1) (cellIndex 0 ps)) x) ∧
          (rowCell (out.st.factor.comps.map (·.levels)) cols r = none →
            M[r] = rowProd (C05.indicatorRow (C05.cells out.st + 1) (C05.cells out.st)) x)) := by
  obtain ⟨X, w1, hX, hne, hw, hany, hrows⟩ :=
    newGroup_block out.st (factorState_of_trainGroup env table spec out h ht) env' mode cols hcols M w hnew
  refine ⟨X, w1, hX, ?_, hw, ?_⟩
  · intro hm
    subst hm
    simpa using hne
  · intro r hr
    obtain ⟨x, hx, hrJ, hA, hB⟩ := hrows r hr
    refine ⟨x, hx, ?_, ?_⟩
    · intro hall
      apply hA
      cases hz : (newFactorMatrix out.st.factor.comps cols).any isZeroRow with
      | false => rfl
      | true =>
        obtain ⟨r', hr', hnone⟩ := hany.1 hz
        have := hall r' hr'
        rw [hnone] at this
        exact absurd this (by decide)
    · intro hex
      have hB' := hB (hany.2 hex)
      constructor
      · intro ps hps
        rw [hps] at hB'
        exact hB'
      · intro hnone
        rw [hnone] at hB'
        exact hB'

/-- … entry by entry for a row with an unseen grouping value: all `G` training slots hold
`0 · x[k]` (`0` where the effect value is a number, NaN where it is NaN), the appended slot holds
the effect row. -/
theorem C10_newGroup_unseen_entries (G : Nat) (x : List Entry) (row : List Entry)
    (hrow : row = rowProd (C05.indicatorRow (G + 1) G) x) :
    row.length = (G + 1) * x.length ∧
    ∀ g' k (_ : g' < G + 1) (hk : k < x.length),
      row[g' * x.length + k]? = some (if g' = G then x[k] else x[k].map (fun _ => 0)) := by
  subst hrow
  refine ⟨C05.C05_block_width _ _ _, ?_⟩
  intro g' k hg' hk
  rw [C05.C05_block_row _ _ x g' k hg' hk]
  by_cases hg : g' = G
  · simp [hg, C05.entry_one_mul]
  · simp [hg, C05.entry_zero_mul]

/-- **new-group rule for a single plain grouping variable** `(e | g)`: no coding hypothesis.
`levels` are the training levels (the specification's `componentLevels` on the training frame),
`xs'` the values of `g` in the new frame (the specification's `componentValues` on the new frame),
`G = |levels|`.  `error` mode: no unseen value (else `C10_newGroup_error`).  Otherwise, row by row:
no unseen value anywhere — the training structure; some unseen value — `G + 1` slots, a known
group `g` keeps slot `g`, an unseen (or missing) group is zero in the `G` training slots and
carries the effect row in slot `G`. -/
theorem C10_newGroup_single (env : Env) (table : List (String × Expr)) (spec : GroupSpec) (out : GroupOut)
    (name : String) (flag : Bool) (x : Token)
    (hf : spec.factor.comps = [(name, flag)]) (hx : compExpr table name = .ok (.variable x))
    (h : trainGroup env table spec = .ok out)
    (env' : Env) (mode : UnseenMode) (cols : List (List (Option Level)))
    (hcols : newFactorColumns out.st.factor.comps env' = .ok cols)
    (M : Matrix) (w : Bool) (hnew : newGroup out.st env' mode = .ok (M, w)) :
    ∃ c xs' X w1, out.st.factor.comps = [c] ∧
      Spec.C05.componentLevels env table name = .ok c.levels ∧ cols = [xs'] ∧
      Spec.C05.componentValues env' table name = .ok xs' ∧
      newEffect out.st env' mode = .ok (X, w1) ∧
      (mode = .error → xs'.any (isUnseen c.levels) = false) ∧
      w = (w1 || (xs'.any (isUnseen c.levels) && mode == .warning)) ∧
      ∀ r (hr : r < M.length), ∃ xr, X[r]? = some xr ∧ r < xs'.length ∧
        (xs'.any (isUnseen c.levels) = false → ∃ l g, xs'[r]? = some (some l) ∧
          indexOf? l c.levels = some g ∧ g < c.levels.length ∧
          M[r] = rowProd (C05.indicatorRow c.levels.length g) xr) ∧
        (xs'.any (isUnseen c.levels) = true →
          (∀ g, levelIndex c.levels (xs'.getD r none) = some g →
            M[r] = rowProd (C05.indicatorRow (c.levels.length + 1) g) xr) ∧
          (isUnseen c.levels (xs'.getD r none) = true →
            M[r] = rowProd (C05.indicatorRow (c.levels.length + 1) c.levels.length) xr)) := by
  obtain ⟨c, hc, hname, hexpr, hlevels, ht, hcells⟩ := C05.C05_single_component env table spec out name flag x hf hx h
  have hS := factorState_of_trainGroup env table spec out h ht
  obtain ⟨X, w1, hX, hne, hw, hany, hrows⟩ := newGroup_block out.st hS env' mode cols hcols M w hnew
  -- the one new column
  rw [hc] at hcols
  simp only [newFactorColumns, List.mapM_cons, List.mapM_nil, bind_ok, pure_ok] at hcols
  obtain ⟨xs', ⟨v', hv', hxs'⟩, _, rfl, rfl⟩ := hcols
  have hcall : isCallLike c.expr = false := by rw [hexpr]; rfl
  rw [newFactorVal_plain c env' hcall, hname, hexpr] at hv'
  have hvals := componentValues_eq env' table name _ hx rfl v' xs' hv' hxs'
  -- the indicator matrix of one component
  have hJ : newFactorMatrix out.st.factor.comps [xs'] = xs'.map (indRow c.levels) := by
    simp [newFactorMatrix, hc, reduceMatrices]
  have hcell : ∀ r, rowCell (out.st.factor.comps.map (·.levels)) [xs'] r =
      (levelIndex c.levels (xs'.getD r none)).map (fun g => [(c.levels.length, g)]) := by
    intro r
    simp only [hc, List.map_cons, List.map_nil, rowCell, List.zip_cons_cons, List.zip_nil_right,
      List.mapM_cons, List.mapM_nil]
    cases levelIndex c.levels (xs'.getD r none) <;> rfl
  have hunseen : anyUnseen out.st.factor.comps [xs'] = xs'.any (isUnseen c.levels) := by
    simp [anyUnseen, hc]
  have hG : cellCount 1 (out.st.factor.comps.map (·.levels.length)) = c.levels.length := hcells
  have hzero : (newFactorMatrix out.st.factor.comps [xs']).any isZeroRow = xs'.any (isUnseen c.levels) := by
    rw [Bool.eq_iff_iff, hany, hJ, List.any_eq_true]
    simp only [List.length_map]
    constructor
    · rintro ⟨r, hr, hnone⟩
      rw [hcell r] at hnone
      have : levelIndex c.levels (xs'.getD r none) = none := by
        cases hli : levelIndex c.levels (xs'.getD r none) with
        | none => rfl
        | some g => rw [hli] at hnone; simp at hnone
      refine ⟨xs'[r], List.getElem_mem hr, ?_⟩
      rw [← levelIndex_none_iff]
      simpa [List.getD_eq_getElem?_getD, List.getElem?_eq_getElem hr] using this
    · rintro ⟨xv, hmem, hu⟩
      obtain ⟨r, hr, rfl⟩ := List.mem_iff_getElem.1 hmem
      refine ⟨r, hr, ?_⟩
      rw [hcell r]
      have : levelIndex c.levels (xs'.getD r none) = none := by
        rw [levelIndex_none_iff]
        simpa [List.getD_eq_getElem?_getD, List.getElem?_eq_getElem hr] using hu
      rw [this]; rfl
  refine ⟨c, xs', X, w1, hc, hlevels, rfl, hvals, hX, ?_, ?_, ?_⟩
  · intro hm
    subst hm
    rw [hunseen] at hne
    simpa using hne
  · rw [hw, hunseen]
  · intro r hr
    obtain ⟨xr, hxr, hrJ, hA, hB⟩ := hrows r hr
    rw [hJ, List.length_map] at hrJ
    rw [hzero, hG] at hA hB
    refine ⟨xr, hxr, hrJ, ?_, ?_⟩
    · intro hfalse
      obtain ⟨ps, hps, _, hrow⟩ := hA hfalse
      rw [hcell r] at hps
      cases hli : levelIndex c.levels (xs'.getD r none) with
      | none => rw [hli] at hps; simp at hps
      | some g =>
        rw [hli] at hps
        simp only [Option.map_some, Option.some.injEq] at hps
        subst hps
        have hg := levelIndex_lt _ _ _ hli
        have hget : xs'.getD r none = xs'[r] := by
          simp [List.getD_eq_getElem?_getD, List.getElem?_eq_getElem hrJ]
        rw [hget] at hli
        cases hxv : xs'[r] with
        | none => rw [hxv] at hli; simp [levelIndex] at hli
        | some l =>
          rw [hxv] at hli
          refine ⟨l, g, by rw [List.getElem?_eq_getElem hrJ, hxv], by simpa [levelIndex] using hli, hg, ?_⟩
          rw [hrow]
          simp [cellIndex, C05.unitE_eq_indicatorRow]
    · intro htrue
      have hrow := hB htrue
      rw [hcell r] at hrow
      constructor
      · intro g hg
        rw [hg] at hrow
        rw [hrow]
        simp [cellIndex, C05.unitE_eq_indicatorRow]
      · intro hu
        have : levelIndex c.levels (xs'.getD r none) = none := (levelIndex_none_iff _ _).2 hu
        rw [this] at hrow
        rw [hrow]
        simp [C05.unitE_eq_indicatorRow]

/-! ### non-vacuity: `(x | g)` trained on groups b, a, b; new data with the groups a, z -/

def exNew : Env :=
  { frame := [⟨"g", .string, [.str "a", .str "z"]⟩, ⟨"x", .numeric false, [.num 3, .num 5]⟩] }
def exKnown : Env :=
  { frame := [⟨"g", .string, [.str "a", .str "b"]⟩, ⟨"x", .numeric false, [.num 3, .num 5]⟩] }

def newOf (r : M GroupOut) (env' : Env) (mode : UnseenMode) : Option (Option (Matrix × Bool)) :=
  match r with
  | .ok o => some (match newGroup o.st env' mode with
    | .ok p => some p
    | .error _ => none)
  | .error _ => none

-- z is unseen: silent / warning append the slot, error raises; without unseen groups nothing is appended
example : newOf (trainGroup C05.exEnv C05.exTable C05.exSlope) exNew .silent =
    some (some ([[some 3, some 0, some 0], [some 0, some 0, some 5]], false)) := by decide +kernel
example : newOf (trainGroup C05.exEnv C05.exTable C05.exSlope) exNew .warning =
    some (some ([[some 3, some 0, some 0], [some 0, some 0, some 5]], true)) := by decide +kernel
example : newOf (trainGroup C05.exEnv C05.exTable C05.exSlope) exNew .error = some none := by
  decide +kernel
example : newOf (trainGroup C05.exEnv C05.exTable C05.exSlope) exKnown .error =
    some (some ([[some 3, some 0], [some 0, some 5]], false)) := by decide +kernel
-- the hypotheses of the theorems hold for this input
example : C05.holdsOf (trainGroup C05.exEnv C05.exTable C05.exSlope) (fun o =>
    decide (C05.IndicatorCoded o.st) &&
    C05.okEq (newFactorColumns o.st.factor.comps exNew) [[some (.s "a"), some (.s "z")]] &&
    anyUnseen o.st.factor.comps [[some (.s "a"), some (.s "z")]] &&
    C05.okEq (newEffect o.st exNew .error) ([[some 3], [some 5]], false) &&
    (rowCell (o.st.factor.comps.map (·.levels)) [[some (.s "a"), some (.s "z")]] 0 == some [(2, 0)]) &&
    (rowCell (o.st.factor.comps.map (·.levels)) [[some (.s "a"), some (.s "z")]] 1 == none) &&
    (newFactorMatrix o.st.factor.comps [[some (.s "a"), some (.s "z")]]).length == 2) = true := by
  decide +kernel

-- the instance of the single-variable theorem
example : ∀ out M w, trainGroup C05.exEnv C05.exTable C05.exSlope = .ok out →
    newFactorColumns out.st.factor.comps exNew = .ok [[some (.s "a"), some (.s "z")]] →
    newGroup out.st exNew .silent = .ok (M, w) →
    ∃ c xs' X w1, out.st.factor.comps = [c] ∧
      Spec.C05.componentLevels C05.exEnv C05.exTable "g" = .ok c.levels ∧
      [[some (Level.s "a"), some (Level.s "z")]] = [xs'] ∧
      Spec.C05.componentValues exNew C05.exTable "g" = .ok xs' ∧
      newEffect out.st exNew .silent = .ok (X, w1) ∧
      (UnseenMode.silent = .error → xs'.any (isUnseen c.levels) = false) ∧
      w = (w1 || (xs'.any (isUnseen c.levels) && UnseenMode.silent == .warning)) ∧
      ∀ r (hr : r < M.length), ∃ xr, X[r]? = some xr ∧ r < xs'.length ∧
        (xs'.any (isUnseen c.levels) = false → ∃ l g, xs'[r]? = some (some l) ∧
          indexOf? l c.levels = some g ∧ g < c.levels.length ∧
          M[r] = rowProd (C05.indicatorRow c.levels.length g) xr) ∧
        (xs'.any (isUnseen c.levels) = true →
          (∀ g, levelIndex c.levels (xs'.getD r none) = some g →
            M[r] = rowProd (C05.indicatorRow (c.levels.length + 1) g) xr) ∧
          (isUnseen c.levels (xs'.getD r none) = true →
            M[r] = rowProd (C05.indicatorRow (c.levels.length + 1) c.levels.length) xr)) :=
  fun out M w h hcols hnew => C10_newGroup_single C05.exEnv C05.exTable C05.exSlope out "g" false
    (C05.tk .IDENTIFIER "g") rfl rfl h exNew .silent _ hcols M w hnew

end FormulaeModel.C10
