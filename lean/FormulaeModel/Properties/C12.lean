import FormulaeModel.Proofs.LazyTree
import FormulaeModel.Proofs.LazyEval
import FormulaeModel.Proofs.LazyName
import FormulaeModel.Properties.C01
import FormulaeModel.Model.Scanner
/-
C12 — property theorems (statements only use Model/, Spec/C01, Spec/C12 and Generated/).

How the pieces give the statement "the value of a call term equals the result of evaluating the
same text as a Python expression":

  text --scan/parse (C01)--> e,  e.flat = tokens             (C01_yield)
                                  Stratified e                (C01_stratified)
  PyAlphabet e ∧ PowCompatible e  ⟹  PyStratified e          (C12_same_tree_partial)
      i.e. e is a derivation of *Python's* grammar for the same tokens; Python's grammar is
      unambiguous, so e is the tree Python reads (this last step is an argument, not a Lean
      theorem: there is no Python parser in the model)
  PyAlphabet e ∧ Chainless e      ⟹  the lazy tree evaluates to pyEval e   (C12_eval_partial)

Outside `PyCompatible = PowCompatible ∧ Chainless` the statement is false of the code (D15);
`C12_counterexample_D15_*` exhibit Python's tree for the same tokens and the two different values.
-/
namespace FormulaeModel.C12
open FormulaeModel FormulaeModel.Parser FormulaeModel.Lazy FormulaeModel.Spec.C01
  FormulaeModel.Spec.C12

/-! ### the tie to the tables of the live module -/

/-- the operator tables as regenerated from `formulae.terms.call_resolver` on this run -/
def generatedOps : OpTable :=
  ⟨Generated.callBinaryOps, Generated.callUnaryOps, Generated.callSymbols⟩

theorem tables_shape : Generated.callTablesShapeOk = true := by decide

/-- `BINARY_OPERATORS`, `UNARY_OPERATORS`, `SYMBOLS` are the documented tables -/
theorem tables_tie : generatedOps = documentedOps := by decide

/-- every infix token kind is mapped to the `operator` function that *is* Python's meaning of that
token, and printed with Python's spelling; all other kinds are refused -/
theorem table_binary_is_python (k : Kind) :
    (lookup generatedOps.binary k.name).bind BinOp.ofName? = pyBinOp k ∧
    (lookup generatedOps.binary k.name).bind (lookup generatedOps.symbols)
      = (pyBinOp k).map (fun _ => pySymbol k) := by
  rw [tables_tie]
  exact ⟨doc_binary_op k, doc_binary_sym k⟩

theorem table_unary_is_python (k : Kind) :
    (lookup generatedOps.unary k.name).bind UnOp.ofName? = pyUnOp k ∧
    (lookup generatedOps.unary k.name).bind (lookup generatedOps.symbols)
      = (pyUnOp k).map (fun _ => pySymbol k) := by
  rw [tables_tie]
  exact ⟨doc_unary_op k, doc_unary_sym k⟩

/-! ### helpers for concrete examples -/

deriving instance DecidableEq for Except

def tk (k : Kind) (s : String) : Token := ⟨k, s⟩
def tId (s : String) : Token := ⟨.IDENTIFIER, s⟩
def tNum (s : String) : Token := ⟨.NUMBER, s⟩
def tL : Token := ⟨.LEFT_PAREN, "("⟩
def tR : Token := ⟨.RIGHT_PAREN, ")"⟩

/-- the tree the formula parser builds for a token list (regenerated table) -/
def treeOf (ts : List Token) : Option Expr := exprOfParse (Parser.parse Generated.parserTable ts)

/-- an environment for the examples: `x = 3`, `z = 7`, `w = [1, 2, 4]`; `f` returns its first
positional argument -/
def exEnv : Env where
  var := fun n =>
    if n == "x" then some (.num 3) else if n == "z" then some (.num 7)
    else if n == "w" then some (.vec [1, 2, 4]) else none
  fn := fun n => if n == "f" then some (fun xs _ => .ok (xs.headD .none)) else none

/-- value of the call term the code builds for a tree -/
def lazyValue (env : Env) (e : Expr) : Option (Except EvalErr Val) :=
  match resolveCall generatedOps e with
  | .ok t => some (t.eval env)
  | .error _ => none

/-! ### same tree -/

/-- **Full statement** (false on the pinned tree, D15): every tree the formula grammar derives on
the Python alphabet is Python's reading of its tokens. -/
def C12_same_tree_statement : Prop :=
  ∀ e : Expr, Stratified documentedTable e = true → PyAlphabet e = true → PyStratified e = true

/-- On the Python alphabet, a derivation of the formula grammar in which no `**` has a bare prefix
sign or a bare `**` as its left operand is a derivation of Python's grammar: same operands for
every operator, for trees of any size. -/
theorem C12_same_tree_partial (e : Expr) (hS : Stratified documentedTable e = true)
    (hA : PyAlphabet e = true) (hC : PowCompatible e = true) : PyStratified e = true := by
  unfold PyStratified
  rw [hA, Bool.true_and]
  exact pyLevels_of_strat e (stratBin_of_stratTop e hA hS) hA hC

/-- … in particular for every tree the parser returns (current source tables). -/
theorem C12_parsed_tree_partial (ts : List Token) (e : Expr)
    (h : Parser.parse Generated.parserTable ts = .ok e) (hA : PyAlphabet e = true)
    (hC : PowCompatible e = true) : e.flat = ts ∧ PyStratified e = true :=
  ⟨C01.C01_yield_generated ts e h,
   C12_same_tree_partial e (C01.C01_stratified_documented ts e h) hA hC⟩

-- non-vacuity: `f(x + z * 2 ** -x, k = (x - z) / 2 < z)`-like input satisfies the hypotheses
def exToks : List Token :=
  [tId "f", tL, tId "x", tk .PLUS "+", tId "z", tk .STAR "*", tNum "2", tk .STAR_STAR "**",
   tk .MINUS "-", tId "x", tk .LESS "<", tId "z", tk .COMMA ",", tId "k", tk .EQUAL "=", tL,
   tId "x", tk .MINUS "-", tId "z", tR, tk .SLASH "/", tNum "2", tR]

example : ∃ e, Parser.parse Generated.parserTable exToks = .ok e ∧
    Stratified documentedTable e = true ∧ PyAlphabet e = true ∧ PyCompatible e = true := by
  have h : (match treeOf exToks with
      | some e => PyAlphabet e && PyCompatible e
      | none => false) = true := by decide +kernel
  unfold treeOf at h
  cases hp : Parser.parse Generated.parserTable exToks with
  | error _ => simp [hp, exprOfParse] at h
  | ok e =>
    simp only [hp, exprOfParse, Bool.and_eq_true] at h
    exact ⟨e, rfl, C01.C01_stratified_documented _ e hp, h.1, h.2⟩

/-! ### same value -/

/-- **Full statement** (false on the pinned tree, D15): on the Python alphabet the call term
evaluates to Python's value of the tree. -/
def C12_eval_statement : Prop :=
  ∀ (env : Env) (e : Expr), PyAlphabet e = true →
    ∃ t, resolveCall generatedOps e = .ok t ∧ t.eval env = pyEval env e

/-- On the Python alphabet `CallResolver` accepts the tree, and evaluating the lazy tree applies
Python's operator to Python's values of the operands, passes Python's values of the positional
arguments in order and of the keyword arguments by name — provided the tree contains no comparison
chain.  For every environment (including callees that fail) and trees of any size; errors are
part of the equation. -/
theorem C12_eval_partial (env : Env) (e : Expr) (hA : PyAlphabet e = true)
    (hC : Chainless e = true) :
    ∃ t, resolveCall generatedOps e = .ok t ∧ t.eval env = pyEval env e := by
  rw [tables_tie]
  exact eval_resolve env e hA hC

/-- The two parts together, for parser output: inside `PyCompatible` the tree is Python's tree and
the call term's value is Python's value. -/
theorem C12_value_partial (env : Env) (ts : List Token) (e : Expr)
    (h : Parser.parse Generated.parserTable ts = .ok e) (hA : PyAlphabet e = true)
    (hC : PyCompatible e = true) :
    e.flat = ts ∧ PyStratified e = true ∧
      ∃ t, resolveCall generatedOps e = .ok t ∧ t.eval env = pyEval env e := by
  unfold PyCompatible at hC
  simp only [Bool.and_eq_true] at hC
  obtain ⟨h1, h2⟩ := C12_parsed_tree_partial ts e h hA hC.1
  exact ⟨h1, h2, C12_eval_partial env e hA hC.2⟩

-- non-vacuity: the example above evaluates (to the same value on both sides)
example : (match treeOf exToks with
    | some e => lazyValue exEnv e == some (pyEval exEnv e) && (pyEval exEnv e).toOption.isSome
    | none => false) = true := by decide +kernel

/-! ### D15: where the formula grammar is not Python's grammar -/

/-- what D15 means for one token list: the parser's tree `e` (a derivation of the formula grammar
by `C01_stratified`) is accepted and evaluated by the code to `v`, while `py` — a derivation of
Python's grammar for the *same tokens* — has the Python value `v' ≠ v` -/
def d15Witness (env : Env) (ts : List Token) (py : Expr) : Bool :=
  match treeOf ts with
  | some e =>
    PyAlphabet e && !PyCompatible e
      && py.flat == ts && PyStratified py
      && (match lazyValue env e with
          | some v => v != pyEval env py && v.toOption.isSome && (pyEval env py).toOption.isSome
          | none => false)
  | none => false

/-- `f(-x**2)`: the code evaluates `(-x)**2 = 9`, Python `-(x**2) = -9` -/
theorem C12_counterexample_D15_sign :
    d15Witness exEnv
      [tId "f", tL, tk .MINUS "-", tId "x", tk .STAR_STAR "**", tNum "2", tR]
      (.call (.variable (tId "f")) tL
        (.last (.unary (tk .MINUS "-")
          (.binary (.variable (tId "x")) (tk .STAR_STAR "**") (.literal (tNum "2"))))) tR)
      = true := by decide +kernel

/-- `f(2**x**2)`: the code evaluates `(2**x)**2 = 64`, Python `2**(x**2) = 512` -/
theorem C12_counterexample_D15_pow :
    d15Witness exEnv
      [tId "f", tL, tNum "2", tk .STAR_STAR "**", tId "x", tk .STAR_STAR "**", tNum "2", tR]
      (.call (.variable (tId "f")) tL
        (.last (.binary (.literal (tNum "2")) (tk .STAR_STAR "**")
          (.binary (.variable (tId "x")) (tk .STAR_STAR "**") (.literal (tNum "2"))))) tR)
      = true := by decide +kernel

/-- `f(x < z < 3)` with `x = 3, z = 7`: the code evaluates `(x < z) < 3 = True`, Python the chain
`x < z and z < 3 = False` (the same spine, read as a chain by `pyEval`) -/
theorem C12_counterexample_D15_chain :
    d15Witness exEnv
      [tId "f", tL, tId "x", tk .LESS "<", tId "z", tk .LESS "<", tNum "3", tR]
      (.call (.variable (tId "f")) tL
        (.last (.binary (.binary (.variable (tId "x")) (tk .LESS "<") (.variable (tId "z")))
          (tk .LESS "<") (.literal (tNum "3")))) tR)
      = true := by decide +kernel

/-- hence the full statements are false -/
theorem C12_same_tree_statement_false : ¬ C12_same_tree_statement := by
  intro h
  have hp : Parser.parse Generated.parserTable
      [tk .MINUS "-", tId "x", tk .STAR_STAR "**", tNum "2"]
      = .ok (.binary (.unary (tk .MINUS "-") (.variable (tId "x"))) (tk .STAR_STAR "**")
          (.literal (tNum "2"))) := by decide +kernel
  have := h _ (C01.C01_stratified_documented _ _ hp) (by decide +kernel)
  revert this
  decide +kernel

theorem C12_eval_statement_false : ¬ C12_eval_statement := by
  intro h
  obtain ⟨t, h1, h2⟩ := h exEnv
    (.binary (.binary (.variable (tId "x")) (tk .LESS "<") (.variable (tId "z")))
      (tk .LESS "<") (.literal (tNum "3"))) (by decide)
  have h3 : resolveCall generatedOps
      (.binary (.binary (.variable (tId "x")) (tk .LESS "<") (.variable (tId "z")))
        (tk .LESS "<") (.literal (tNum "3")))
      = .ok (.op2 "lt" "<" (.op2 "lt" "<" (.var "x") (.var "z")) (.value (.int 3) none)) := by
    decide +kernel
  rw [h3] at h1
  cases h1
  revert h2
  decide +kernel

/-! ### `{e}` is `I(e)` -/

/-- `{e}` resolves to exactly the lazy call that `I(e)` resolves to (whatever `e` is: a keyword
`{k = e}` becomes `I(k=e)`, an unresolvable `e` fails in the same way), for any tables. -/
theorem C12_brace (T : OpTable) (lb rb lp rp : Token) (e : Expr) :
    resolveCall T (.brace lb e rb)
      = resolveCall T (.call (.variable ⟨.IDENTIFIER, "I"⟩) lp (.last e) rp) := by
  unfold resolveCall
  cases hA : isAssign e with
  | true =>
    cases e <;> simp [isAssign] at hA
    rename_i n eq v
    have hI : assignName (.variable ⟨.IDENTIFIER, "I"⟩) = some "I" := rfl
    simp only [resolve, resolveArgs, hI, packArg, bind, Except.bind, pure, Except.pure]
    cases resolve T v with
    | error _ => rfl
    | ok a => cases assignName n <;> rfl
  | false =>
    rw [resolve_brace_other T lb rb e hA]
    simp only [resolve, resolveArgs_last_other T e hA, assignName, packArg, bind, Except.bind,
      pure, Except.pure]
    cases resolve T e <;> rfl

-- non-vacuity: `{x + 1}` and `I(x + 1)` both resolve, to a call of `I`
example : resolveCall generatedOps
    (.brace ⟨.LEFT_BRACE, "{"⟩ (.binary (.variable (tId "x")) (tk .PLUS "+") (.literal (tNum "1")))
      ⟨.RIGHT_BRACE, "}"⟩)
    = .ok (.call "I" (.cons (.op2 "add" "+" (.var "x") (.value (.int 1) none)) .nil) .nil) := by
  decide +kernel

/-! ### names -/

/-- Redundant (and non-redundant!) grouping parentheses never reach the lazy tree, hence never the
name: removing all of them gives the same `LazyCall`.  For any tables and any tree that resolves. -/
theorem C12_name_parentheses (T : OpTable) (e : Expr) (t : Lazy)
    (h : resolveCall T e = .ok t) : resolveCall T (ungroup e) = .ok t :=
  resolve_ungroup T e t h

/-- On the Python alphabet the name of the call term is the token sequence of the call, grouping
parentheses removed, written with single spaces (`canonText`: infix operators spaced, prefix signs
and `=` glued, `, ` after commas, numbers as Python prints their value, strings with their own
quotes).  The name is therefore a function of the tokens alone — whitespace never reaches it (the
scanner drops it: C01) — and of the tokens without their grouping parentheses. -/
theorem C12_name (e : Expr) (hA : PyAlphabet e = true) :
    ∃ t, resolveCall generatedOps e = .ok t ∧ t.str = canonText (ungroup e).flat := by
  rw [tables_tie]
  obtain ⟨t, h1, h2⟩ := canon_resolve e hA
  refine ⟨t, h1, ?_⟩
  have := h2 []
  simp only [List.append_nil] at this
  simp [canonText, this, canonGo]

/-- the whole pipeline from characters to the term name (scanner without the implicit intercept,
parser and operator tables as regenerated from the source) -/
def nameOfText (s : List Char) : Option String :=
  match Scanner.scan s false with
  | .ok ts =>
    match Parser.parse Generated.parserTable ts with
    | .ok e => (callName generatedOps e).toOption
    | .error _ => none
  | .error _ => none

/-- Whitespace: the name is computed from the token list alone, so two spellings that the scanner
maps to the same tokens (C01: whitespace is dropped between tokens) have the same name. -/
theorem C12_name_whitespace (s₁ s₂ : List Char)
    (h : Scanner.scan s₁ false = Scanner.scan s₂ false) : nameOfText s₁ = nameOfText s₂ := by
  simp [nameOfText, h]

/-- Textual variants: two calls on the Python alphabet whose token sequences agree once grouping
parentheses are deleted have the same name. -/
theorem C12_name_variants (e₁ e₂ : Expr) (h₁ : PyAlphabet e₁ = true) (h₂ : PyAlphabet e₂ = true)
    (h : (ungroup e₁).flat = (ungroup e₂).flat) :
    callName generatedOps e₁ = callName generatedOps e₂ := by
  obtain ⟨t₁, r₁, s₁⟩ := C12_name e₁ h₁
  obtain ⟨t₂, r₂, s₂⟩ := C12_name e₂ h₂
  simp [callName, r₁, r₂, Except.map, s₁, s₂, h]

-- non-vacuity and a concrete name: `f( (x+z)*2, k = 1.50 )`
example : (match treeOf [tId "f", tL, tL, tId "x", tk .PLUS "+", tId "z", tR, tk .STAR "*",
      tNum "2", tk .COMMA ",", tId "k", tk .EQUAL "=", tNum "1.50", tR] with
    | some e => PyAlphabet e && callName generatedOps e == .ok "f(x + z * 2, k=1.5)"
    | none => false) = true := by decide +kernel

/-- **Full statement** (false on the pinned tree, D16): different calls have different names. -/
def C12_name_injective_statement : Prop :=
  ∀ (e₁ e₂ : Expr) (t₁ t₂ : Lazy), resolveCall generatedOps e₁ = .ok t₁ →
    resolveCall generatedOps e₂ = .ok t₂ → t₁.str = t₂.str → t₁ = t₂

/-- Two calls whose normalised token sequences (grouping parentheses deleted — by `C12_name` the
name is `canonText` of exactly that sequence) coincide are the *same* lazy tree, provided that in
both the grouping is inert: deleting the parentheses from the text and parsing again gives the
same tree.  For any parser table and any operator tables.  (The remaining step from equal name
*strings* to equal token sequences — `canonText` is injective on the lexemes the scanner can
produce — is lexical and is carried by the correspondence check against Python's `ast`.) -/
theorem C12_name_injective_partial (P : Parser.Table) (T : OpTable) (e₁ e₂ : Expr) (t₁ t₂ : Lazy)
    (g₁ : GroupingInert P e₁ = true) (g₂ : GroupingInert P e₂ = true)
    (r₁ : resolveCall T e₁ = .ok t₁) (r₂ : resolveCall T e₂ = .ok t₂)
    (h : (ungroup e₁).flat = (ungroup e₂).flat) : t₁ = t₂ := by
  unfold GroupingInert at g₁ g₂
  rw [h] at g₁
  have hu : ungroup e₁ = ungroup e₂ := by
    have h1 := of_decide_eq_true (by simpa using g₁ : decide (_ = _) = true)
    have h2 := of_decide_eq_true (by simpa using g₂ : decide (_ = _) = true)
    rw [h1] at h2
    exact Option.some.inj h2
  have a := C12_name_parentheses T e₁ t₁ r₁
  have b := C12_name_parentheses T e₂ t₂ r₂
  rw [hu, b] at a
  exact (Except.ok.inj a).symm

-- non-vacuity: `f((x)+z*2)` and `f(x+(z*2))` satisfy the hypotheses (and are one term)
example : (match treeOf [tId "f", tL, tL, tId "x", tR, tk .PLUS "+", tId "z", tk .STAR "*",
      tNum "2", tR],
    treeOf [tId "f", tL, tId "x", tk .PLUS "+", tL, tId "z", tk .STAR "*", tNum "2", tR, tR] with
    | some e₁, some e₂ =>
      GroupingInert Generated.parserTable e₁ && GroupingInert Generated.parserTable e₂
        && (ungroup e₁).flat == (ungroup e₂).flat
        && (resolveCall generatedOps e₁).toOption.isSome
    | _, _ => false) = true := by decide +kernel

/-- D16: `f((x+z)*2)` and `f(x+z*2)` are different lazy trees with the same name
`f(x + z * 2)`; the grouping of the first is not inert. -/
def d16Left : List Token :=
  [tId "f", tL, tL, tId "x", tk .PLUS "+", tId "z", tR, tk .STAR "*", tNum "2", tR]
def d16Right : List Token :=
  [tId "f", tL, tId "x", tk .PLUS "+", tId "z", tk .STAR "*", tNum "2", tR]

theorem C12_counterexample_D16 :
    (match treeOf d16Left, treeOf d16Right with
     | some e₁, some e₂ =>
       nameCollision generatedOps e₁ e₂ && !GroupingInert Generated.parserTable e₁
         && GroupingInert Generated.parserTable e₂
         && callName generatedOps e₁ == .ok "f(x + z * 2)"
     | _, _ => false) = true := by decide +kernel

theorem C12_name_injective_statement_false : ¬ C12_name_injective_statement := by
  intro h
  have := h
    (.binary (.grouping tL (.binary (.variable (tId "x")) (tk .PLUS "+") (.variable (tId "z"))) tR)
      (tk .STAR "*") (.literal (tNum "2")))
    (.binary (.variable (tId "x")) (tk .PLUS "+")
      (.binary (.variable (tId "z")) (tk .STAR "*") (.literal (tNum "2"))))
    (.op2 "mul" "*" (.op2 "add" "+" (.var "x") (.var "z")) (.value (.int 2) none))
    (.op2 "add" "+" (.var "x") (.op2 "mul" "*" (.var "z") (.value (.int 2) none)))
    (by decide +kernel) (by decide +kernel) (by decide +kernel)
  revert this
  decide

/-! ### D21: `__eq__` of literals -/

/-- **Full statement** (false on the pinned tree, D21): call terms that the formula treats as one
term (`__eq__`) are the same lazy tree. -/
def C12_term_identity_statement : Prop :=
  ∀ (e₁ e₂ : Expr) (t₁ t₂ : Lazy), resolveCall generatedOps e₁ = .ok t₁ →
    resolveCall generatedOps e₂ = .ok t₂ → t₁.pyEq t₂ = true → t₁ = t₂

/-- D21: `f(2)` and `f(2.0)` (likewise `f(1)` and `f(True)`) have different names and pass
different values, but `LazyValue.__eq__` compares `2 == 2.0`, so they are one term. -/
theorem C12_counterexample_D21 :
    (match treeOf [tId "f", tL, tNum "2", tR], treeOf [tId "f", tL, tNum "2.0", tR],
           treeOf [tId "f", tL, tNum "1", tR], treeOf [tId "f", tL, tk .PYTHON_LITERAL "True", tR] with
     | some a, some b, some c, some d =>
       literalMerge generatedOps a b && literalMerge generatedOps c d
         && callName generatedOps a == .ok "f(2)" && callName generatedOps b == .ok "f(2.0)"
     | _, _, _, _ => false) = true := by decide +kernel

theorem C12_term_identity_statement_false : ¬ C12_term_identity_statement := by
  intro h
  have := h (.literal (tNum "2")) (.literal (tNum "2.0")) (.value (.int 2) none)
    (.value (.float 2 "2.0") none) (by decide +kernel) (by decide +kernel) (by decide +kernel)
  revert this
  decide +kernel

end FormulaeModel.C12
