import FormulaeModel.Proofs.ParserYield
import FormulaeModel.Proofs.ParserStrat
import FormulaeModel.Proofs.ParserRoundtrip
import FormulaeModel.Proofs.ScannerLemmas
import FormulaeModel.Properties.Tie
/-
C01 — property theorems (statements only use Model/, Spec/C01 and Generated/).
-/
namespace FormulaeModel.C01
open FormulaeModel FormulaeModel.Parser FormulaeModel.Spec.C01

/-- Nothing is ignored: for every token list (any length), every amount of fuel and every operator
table with the end-of-input check, an accepted input is exactly the yield of the returned tree. -/
theorem C01_yield (T : Table) (hE : T.eofCheck = true) (n : Nat) (ts : List Token) (e : Expr)
    (h : parseFuel T n ts = .ok e) : e.flat = ts := by
  unfold parseFuel at h
  simp only [bind, Except.bind, pure, Except.pure, hE] at h
  split at h
  · simp at h
  · rename_i v hv
    obtain ⟨e', r⟩ := v
    have := (yieldAt T n).expression _ _ _ hv
    cases r with
    | nil => simp at h; subst h; simpa using this
    | cons t r => simp at h

/-- The same for the table regenerated from the current source, through `Parser.parse`. -/
theorem C01_yield_generated (ts : List Token) (e : Expr)
    (h : Parser.parse Generated.parserTable ts = .ok e) : e.flat = ts :=
  C01_yield _ (by decide) _ ts e h

/-- Without the end-of-input check the theorem is false (the defect of the pinned tree, D1):
`x z` is accepted and `z` is dropped. -/
def acceptsButDrops (T : Table) (ts : List Token) : Bool :=
  match Parser.parse T ts with
  | .ok e => e.flat != ts
  | .error _ => false

theorem C01_yield_needs_eof_check :
    acceptsButDrops { documentedTable with eofCheck := false }
      [⟨.IDENTIFIER, "x"⟩, ⟨.IDENTIFIER, "z"⟩] = true := by decide +kernel

/-- Every accepted input is parsed into a derivation of the grammar of the table: precedence
(a right operand is of a strictly higher level), left associativity (a left operand is of the
same or a higher level), `~`/`=` only at expression positions. -/
theorem C01_stratified (T : Table) (hW : TableWF T = true) (n : Nat) (ts : List Token) (e : Expr)
    (h : parseFuel T n ts = .ok e) : Stratified T e = true := by
  unfold parseFuel at h
  simp only [bind, Except.bind, pure, Except.pure] at h
  split at h
  · simp at h
  · rename_i v hv
    have := (stratAt T hW n).expression _ _ _ hv
    repeat' split at h
    all_goals (try (simp at h; done))
    all_goals (simp at h; subst h; exact this)

/-- … and for the current source the table is the documented one, so accepted inputs are
derivations of the *documented* grammar. -/
theorem C01_stratified_documented (ts : List Token) (e : Expr)
    (h : Parser.parse Generated.parserTable ts = .ok e) : Stratified documentedTable e = true := by
  rw [Tie.parser_table] at h
  exact C01_stratified _ (by decide) _ ts e h

/-- The model under the regenerated table is the reference interpretation. -/
theorem C01_model_is_reference (ts : List Token) :
    Parser.parse Generated.parserTable ts = refParse ts := by
  unfold refParse; rw [Tie.parser_table]

-- non-vacuity: a non-trivial accepted sentence; its tree is what precedence prescribes
def parsesTo (ts : List Token) (s : String) : Bool :=
  match Parser.parse Generated.parserTable ts with
  | .ok e => e.sexp == s
  | .error _ => false

example : parsesTo
    [⟨.IDENTIFIER, "y"⟩, ⟨.TILDE, "~"⟩, ⟨.IDENTIFIER, "a"⟩, ⟨.PLUS, "+"⟩, ⟨.IDENTIFIER, "b"⟩,
     ⟨.STAR, "*"⟩, ⟨.IDENTIFIER, "c"⟩, ⟨.COLON, ":"⟩, ⟨.IDENTIFIER, "d"⟩]
    "(bin TILDE (var y) (bin PLUS (var a) (bin STAR (var b) (bin COLON (var c) (var d)))))" = true := by
  decide +kernel

/-! ### Fuel is not an artefact of the model -/

/-- More fuel never changes an answer of the model other than "out of fuel". -/
theorem C01_fuel_monotone (T : Table) (n n' : Nat) (h : n ≤ n') (ts : List Token)
    (hne : parseFuel T n ts ≠ .error .fuel) : parseFuel T n' ts = parseFuel T n ts :=
  parseFuel_mono T h ts hne

/-- in particular `parseFuel T n ts = .ok e → parseFuel T (n+1) ts = .ok e` -/
theorem C01_fuel_monotone_ok (T : Table) (n : Nat) (ts : List Token) (e : Expr)
    (h : parseFuel T n ts = .ok e) : parseFuel T (n + 1) ts = .ok e := by
  rw [parseFuel_mono T (Nat.le_succ n) ts (by simp [h]), h]

/-- `Parser.parse` (fuel `fuelFor`) never rejects an input for lack of fuel: for every table and
every token list the model's answer is a genuine answer of the recursive-descent algorithm. -/
theorem C01_fuel_adequate (T : Table) (ts : List Token) : Parser.parse T ts ≠ .error .fuel :=
  parse_ne_fuel T ts

/-! ### Completeness / unique reading -/

/-- **Round trip.** For every well-formed table and every derivation `e` of its grammar (no bound
on size or depth), parsing the yield of `e` returns `e` — with the fuel `Parser.parse` really
uses.  With `C01_yield` and `C01_stratified` this says that the parser accepts exactly the yields
of derivations and reads each of them in exactly one way, the one precedence and left
associativity prescribe. -/
theorem C01_roundtrip (T : Table) (hW : TableWF T = true) (e : Expr)
    (h : Stratified T e = true) : Parser.parse T e.flat = .ok e :=
  roundtrip T hW e h

/-- … for the table regenerated from the current source, against the documented grammar. -/
theorem C01_roundtrip_documented (e : Expr) (h : Stratified documentedTable e = true) :
    Parser.parse Generated.parserTable e.flat = .ok e := by
  rw [Tie.parser_table]
  exact C01_roundtrip _ (by decide) e h

/-- The parser characterised: `parse ts = ok e` iff `e` is a derivation with yield `ts`. -/
theorem C01_parse_iff (T : Table) (hW : TableWF T = true) (hE : T.eofCheck = true)
    (ts : List Token) (e : Expr) :
    Parser.parse T ts = .ok e ↔ (Stratified T e = true ∧ e.flat = ts) := by
  constructor
  · intro h
    exact ⟨C01_stratified T hW _ ts e h, C01_yield T hE _ ts e h⟩
  · rintro ⟨h1, rfl⟩
    exact C01_roundtrip T hW e h1

/-- The grammar is unambiguous: two derivations with the same yield are the same tree. -/
theorem C01_unique_reading (T : Table) (hW : TableWF T = true) (e₁ e₂ : Expr)
    (h₁ : Stratified T e₁ = true) (h₂ : Stratified T e₂ = true) (hf : e₁.flat = e₂.flat) :
    e₁ = e₂ := by
  have a := C01_roundtrip T hW e₁ h₁
  have b := C01_roundtrip T hW e₂ h₂
  rw [hf, b] at a
  cases a; rfl

/-- A token list that is not the yield of a derivation is rejected. -/
theorem C01_rejects_non_sentences (T : Table) (hW : TableWF T = true) (hE : T.eofCheck = true)
    (ts : List Token) (h : ∀ e, Stratified T e = true → e.flat ≠ ts) :
    ∃ err, Parser.parse T ts = .error err ∧ err ≠ .fuel := by
  cases hp : Parser.parse T ts with
  | error err => exact ⟨err, rfl, fun hc => C01_fuel_adequate T ts (by rw [hp, hc])⟩
  | ok e =>
    have := (C01_parse_iff T hW hE ts e).1 hp
    exact absurd this.2 (h e this.1)

/-! ### The fully parenthesised form -/

/-- Wrapping both operands of every operator in parentheses keeps a derivation a derivation. -/
theorem C01_groupAll_stratified (T : Table) (hW : TableWF T = true) (e : Expr)
    (h : Stratified T e = true) : Stratified T (groupAll e) = true :=
  (groupAll_strat T hW e).2 h

/-- **Fully parenthesised form.** An accepted token list is read exactly as its fully
parenthesised form: the yield of `groupAll e` (every operand of every operator parenthesised) is
accepted and parses to `groupAll e`, and the two trees differ only by grouping nodes, which carry
no meaning (`ungroup` erases them; both resolvers of the library visit through `Grouping`). -/
theorem C01_fullparen (T : Table) (hW : TableWF T = true) (ts : List Token) (e : Expr)
    (h : Parser.parse T ts = .ok e) :
    Parser.parse T (groupAll e).flat = .ok (groupAll e) ∧ ungroup (groupAll e) = ungroup e :=
  ⟨C01_roundtrip T hW _ (C01_groupAll_stratified T hW e (C01_stratified T hW _ ts e h)),
   ungroup_groupAll e⟩

theorem C01_fullparen_generated (ts : List Token) (e : Expr)
    (h : Parser.parse Generated.parserTable ts = .ok e) :
    Parser.parse Generated.parserTable (groupAll e).flat = .ok (groupAll e)
      ∧ ungroup (groupAll e) = ungroup e :=
  C01_fullparen _ Tie.parser_table_wf ts e h

/-- Redundant parentheses around a whole derivation: still a derivation, same meaning. -/
theorem C01_redundant_parens (T : Table) (hW : TableWF T = true) (e : Expr)
    (h : Stratified T e = true) :
    Parser.parse T (Expr.grouping Spec.C01.lp e Spec.C01.rp).flat = .ok (.grouping Spec.C01.lp e Spec.C01.rp)
      ∧ ungroup (.grouping Spec.C01.lp e Spec.C01.rp) = ungroup e := by
  refine ⟨C01_roundtrip T hW _ ?_, by simp [ungroup]⟩
  simp only [Stratified, stratTop, stratBin, Spec.C01.lp, Spec.C01.rp] at h ⊢
  simpa using h

/-- The strengthened well-formedness is needed: with `[` as a binary operator the derivation
`a [ b` is not what the parser reads (it starts the subset notation `a[…]`). -/
def badTable : Table := { documentedTable with levels := [[.LEFT_BRACKET]] }
def badTree : Expr := .binary (.variable ⟨.IDENTIFIER, "a"⟩) ⟨.LEFT_BRACKET, "["⟩ (.variable ⟨.IDENTIFIER, "b"⟩)
def parsesToOther (T : Table) (e : Expr) : Bool :=
  match Parser.parse T e.flat with | .ok e' => e'.sexp != e.sexp | .error _ => true
theorem C01_roundtrip_needs_table_wf :
    Stratified badTable badTree = true ∧ parsesToOther badTable badTree = true := by
  constructor
  · simp [Stratified, stratTop, stratBin, badTree, badTable, opLevel, lvl, documentedTable]
  · decide +kernel

-- non-vacuity: a derivation of the documented grammar with every kind of node
def sampleTree : Expr :=
  let v (s : String) : Expr := .variable ⟨.IDENTIFIER, s⟩
  .binary (v "y") ⟨.TILDE, "~"⟩
    (.binary
      (.binary (v "a") ⟨.PLUS, "+"⟩
        (.binary (.unary ⟨.MINUS, "-"⟩ (v "b")) ⟨.STAR, "*"⟩
          (.call (v "f") ⟨.LEFT_PAREN, "("⟩
            (.more (.assign (v "k") ⟨.EQUAL, "="⟩ (.literal ⟨.NUMBER, "2"⟩)) ⟨.COMMA, ","⟩
              (.last (.subset ⟨.IDENTIFIER, "x"⟩ ⟨.LEFT_BRACKET, "["⟩ (.literal ⟨.STRING, "'u'"⟩)
                ⟨.RIGHT_BRACKET, "]"⟩)))
            ⟨.RIGHT_PAREN, ")"⟩)))
      ⟨.PLUS, "+"⟩
      (.grouping ⟨.LEFT_PAREN, "("⟩
        (.binary (v "c") ⟨.PIPE, "|"⟩ (.brace ⟨.LEFT_BRACE, "{"⟩ (.quoted ⟨.BQNAME, "`g h`"⟩) ⟨.RIGHT_BRACE, "}"⟩))
        ⟨.RIGHT_PAREN, ")"⟩))

theorem sampleTree_stratified : Stratified documentedTable sampleTree = true := by
  simp [sampleTree, Stratified, stratTop, stratBin, stratArgs, opLevel, lvl, documentedTable,
    isPrimary, isCall, isVariable, subsetLevelOk, List.findIdx?_cons]
example : Parser.parse documentedTable sampleTree.flat = .ok sampleTree :=
  C01_roundtrip _ (by decide) _ sampleTree_stratified
example : Stratified documentedTable (groupAll sampleTree) = true :=
  C01_groupAll_stratified _ (by decide) _ sampleTree_stratified
example : TableWF documentedTable = true := by decide

/-! ### Scanner -/
section scanner
open FormulaeModel.Scanner FormulaeModel.Spec.C01.Layout

/-- **A second `~` is rejected; the implicit intercept.** An accepted scan (any input, any length)
contains at most one `TILDE` token; without `add_intercept` the tokens are those of the text; with
it they are those of the text with `1`, `+` inserted right after the tilde, or in front when there
is none. -/
theorem C01_second_tilde (code : List Char) (addInt : Bool) (ts : List Token)
    (h : Scanner.scan code addInt = .ok ts) :
    (ts.filter isTilde).length ≤ 1 ∧
    (addInt = false → Scanner.scan code false = .ok ts) ∧
    (addInt = true →
      (∃ ts0, Scanner.scan code false = .ok ts0 ∧ ts0.any isTilde = false ∧ ts = one :: plus :: ts0) ∨
      (∃ pre tl post, Scanner.scan code false = .ok (pre ++ tl :: post) ∧ isTilde tl = true ∧
        (∀ a ∈ pre, isTilde a = false) ∧ (∀ a ∈ post, isTilde a = false) ∧
        ts = pre ++ tl :: one :: plus :: post)) :=
  scan_tilde_structure h

/-- … and a text with two tildes is rejected with the tilde error (`y~x~z`). -/
def twoTildesRejected : Bool :=
  match Scanner.scan ['y', '~', 'x', '~', 'z'] with
  | .error .tildes => true
  | _ => false
theorem C01_second_tilde_example : twoTildesRejected = true := by decide +kernel

/-- **Unterminated quotes.** `scan_token` at a quote character with no later quote character (of
either kind: the scanner closes a string at the next `'` or `"`) fails, likewise a backquote. -/
theorem C01_unterminated_token (q : Char) (cs : List Char) :
    (isQuote q = true → (∀ c ∈ cs, isQuote c = false) →
      scanToken (q :: cs) = .error .unterminatedString) ∧
    ((∀ c ∈ cs, c ≠ '`') → scanToken ('`' :: cs) = .error .unterminatedBackquote) :=
  ⟨scanToken_unterminated_string q cs, scanToken_unterminated_backquote cs⟩

/-- **Unterminated quotes, whole text.** If a quote (or backquote) stands at a token boundary of
the text (`Boundary`: reached by complete `scan_token` steps) and no closing character follows, the
text is rejected, whatever comes before it. -/
theorem C01_unterminated (code : List Char) (q : Char) (cs : List Char)
    (hb : Boundary code (q :: cs))
    (hq : (isQuote q = true ∧ ∀ c ∈ cs, isQuote c = false) ∨ (q = '`' ∧ ∀ c ∈ cs, c ≠ '`'))
    (addInt : Bool) (ts : List Token) : Scanner.scan code addInt ≠ .ok ts :=
  scan_unterminated hb hq addInt ts

/-- executable form of one `scan_token` step, for concrete examples -/
def stepsTo (cs : List Char) (t : Option Token) (cs' : List Char) : Bool :=
  match scanToken cs with
  | .ok (t', r) => t' == t && r == cs'
  | .error _ => false
theorem stepsTo_spec {cs t cs'} (h : stepsTo cs t cs' = true) : scanToken cs = .ok (t, cs') := by
  unfold stepsTo at h
  split at h
  · rename_i t' r heq
    simp only [Bool.and_eq_true, beq_iff_eq] at h
    rw [heq, h.1, h.2]
  · cases h

-- `y ~ 'ab`: the quote is at a token boundary, so the text is rejected
example : Boundary ['y', ' ', '~', ' ', '\'', 'a', 'b'] ['\'', 'a', 'b'] :=
  .step (t := some ⟨.IDENTIFIER, "y"⟩) (cs' := [' ', '~', ' ', '\'', 'a', 'b']) (stepsTo_spec (by decide +kernel)) <|
  .step (t := none) (cs' := ['~', ' ', '\'', 'a', 'b']) (stepsTo_spec (by decide +kernel)) <|
  .step (t := some ⟨.TILDE, "~"⟩) (cs' := [' ', '\'', 'a', 'b']) (stepsTo_spec (by decide +kernel)) <|
  .step (t := none) (cs' := ['\'', 'a', 'b']) (stepsTo_spec (by decide +kernel)) <| .here _

/-- The scanner model never rejects for lack of fuel. -/
theorem C01_scan_fuel_adequate (code : List Char) (addInt : Bool) :
    Scanner.scan code addInt ≠ .error .fuel := scan_ne_fuel code addInt

/-- **The scanner inverts admissible layouts.** For every list of token spellings laid out with
whitespace gaps (non-empty gaps wherever adjacency would merge two spellings) the scan returns
exactly these tokens (then the tilde check and the implicit intercept). -/
theorem C01_scan_render (ps : List Piece) (trail : List Char) (addInt : Bool)
    (h : Admissible ps trail) (hne : ps ≠ []) :
    Scanner.scan (render ps trail) addInt =
      if ps.any (fun p => p.chars.any nonAscii) then .error .nonAscii
      else if ((ps.map Piece.tok).filter isTilde).length > 1 then .error .tildes
      else .ok (if addInt then addIntercept (ps.map Piece.tok) else ps.map Piece.tok) :=
  scan_render ps trail addInt h hne

/-- **Whitespace between tokens never changes the tokens.** Two admissible layouts of the same
spellings — any gaps of blanks, tabs, newlines, carriage returns, before, between and after the
tokens — are scanned to the same answer. -/
theorem C01_ws (ps₁ ps₂ : List Piece) (trail₁ trail₂ : List Char)
    (h₁ : Admissible ps₁ trail₁) (h₂ : Admissible ps₂ trail₂)
    (hsame : ps₁.map (fun p => (p.kind, p.chars)) = ps₂.map (fun p => (p.kind, p.chars)))
    (hne : ps₁ ≠ []) (addInt : Bool) :
    Scanner.scan (render ps₁ trail₁) addInt = Scanner.scan (render ps₂ trail₂) addInt :=
  scan_layout_irrelevant ps₁ ps₂ trail₁ trail₂ h₁ h₂ hsame hne addInt

/-- A non-empty gap is admissible after every token: whitespace never merges with a token. -/
theorem C01_ws_gap_always_ok (k : Kind) (w : Char) (cs : List Char) (h : isWs w = true) :
    sepOk k (w :: cs) = true := sepOk_ws k w cs h

/-- Leading whitespace of an arbitrary text (admissible or not) is skipped. -/
theorem C01_ws_leading (w : Char) (cs : List Char) (addInt : Bool) (h : isWs w = true)
    (hne : cs ≠ []) : Scanner.scan (w :: cs) addInt = Scanner.scan cs addInt :=
  scan_ws_leading w cs addInt h hne

/-- `hne` is needed: the empty text is rejected, a blank one is the empty formula. -/
def scansTo (cs : List Char) (ts : List Token) : Bool :=
  match Scanner.scan cs true with
  | .ok ts' => ts' == ts
  | .error _ => false
def scanRejectsEmpty (cs : List Char) : Bool :=
  match Scanner.scan cs true with
  | .error .empty => true
  | _ => false
theorem C01_ws_empty_text_differs :
    scanRejectsEmpty [] = true ∧ scansTo [' '] [one, plus] = true := by
  constructor <;> decide +kernel

-- non-vacuity: `y~ a  +b1 ` and ` y ~a+ b1` are admissible layouts of the same four spellings
def layoutA : List Piece :=
  [⟨[], .IDENTIFIER, ['y']⟩, ⟨[], .TILDE, ['~']⟩, ⟨[' '], .IDENTIFIER, ['a']⟩, ⟨[' ', ' '], .PLUS, ['+']⟩,
   ⟨[], .IDENTIFIER, ['b', '1']⟩]
def layoutB : List Piece :=
  [⟨[' '], .IDENTIFIER, ['y']⟩, ⟨[' '], .TILDE, ['~']⟩, ⟨[], .IDENTIFIER, ['a']⟩, ⟨[], .PLUS, ['+']⟩,
   ⟨['\t'], .IDENTIFIER, ['b', '1']⟩]

example : Admissible layoutA [' '] ∧ Admissible layoutB [] ∧
    layoutA.map (fun p => (p.kind, p.chars)) = layoutB.map (fun p => (p.kind, p.chars)) := by
  have hy : Lexeme .IDENTIFIER ['y'] := .ident 'y' [] (by decide) (by simp) (by decide +kernel)
  have ht : Lexeme .TILDE ['~'] := .fixed _ _ (by simp [fixedLexemes])
  have ha : Lexeme .IDENTIFIER ['a'] := .ident 'a' [] (by decide) (by simp) (by decide +kernel)
  have hp : Lexeme .PLUS ['+'] := .fixed _ _ (by simp [fixedLexemes])
  have hb : Lexeme .IDENTIFIER ['b', '1'] :=
    .ident 'b' ['1'] (by decide) (by intro d hd; simp at hd; subst hd; decide) (by decide +kernel)
  refine ⟨?_, ?_, rfl⟩
  · simp only [layoutA, Admissible, render]
    refine ⟨?_, hy, ?_, ?_, ht, ?_, ?_, ha, ?_, ?_, hp, ?_, ?_, hb, ?_, ?_⟩ <;> decide +kernel
  · simp only [layoutB, Admissible, render]
    refine ⟨?_, hy, ?_, ?_, ht, ?_, ?_, ha, ?_, ?_, hp, ?_, ?_, hb, ?_, ?_⟩ <;> decide +kernel

end scanner

end FormulaeModel.C01
