import FormulaeModel.Proofs.ParserYield
import FormulaeModel.Proofs.ParserStrat
import FormulaeModel.Properties.Tie
/-
C01 — property theorems (statements only use Model/, Spec/C01 and Generated/).
-/
namespace FormulaeModel.C01
open FormulaeModel FormulaeModel.Parser FormulaeModel.Spec.C01

/-- Nothing is ignored: for every token list (any length), every amount of fuel and every operator
table with the end-of-input check, an accepted input is exactly the yield of the returned tree. -/
theorem C01_yield (T : Table) (hE : T.eofCheck = true) (n : Nat) (ts : List Token) (e : Expr)
    (h : parseFuel T n ts = .ok e) : e.flat = ts := by
  unfold parseFuel at h
  simp only [bind, Except.bind, pure, Except.pure, hE] at h
  split at h
  · simp at h
  · rename_i v hv
    obtain ⟨e', r⟩ := v
    have := (yieldAt T n).expression _ _ _ hv
    cases r with
    | nil => simp at h; subst h; simpa using this
    | cons t r => simp at h

/-- The same for the table regenerated from the current source, through `Parser.parse`. -/
theorem C01_yield_generated (ts : List Token) (e : Expr)
    (h : Parser.parse Generated.parserTable ts = .ok e) : e.flat = ts :=
  C01_yield _ (by decide) _ ts e h

/-- Without the end-of-input check the theorem is false (the defect of the pinned tree, D1):
`x z` is accepted and `z` is dropped. -/
def acceptsButDrops (T : Table) (ts : List Token) : Bool :=
  match Parser.parse T ts with
  | .ok e => e.flat != ts
  | .error _ => false

theorem C01_yield_needs_eof_check :
    acceptsButDrops { documentedTable with eofCheck := false }
      [⟨.IDENTIFIER, "x"⟩, ⟨.IDENTIFIER, "z"⟩] = true := by decide +kernel

/-- Every accepted input is parsed into a derivation of the grammar of the table: precedence
(a right operand is of a strictly higher level), left associativity (a left operand is of the
same or a higher level), `~`/`=` only at expression positions. -/
theorem C01_stratified (T : Table) (hW : TableWF T = true) (n : Nat) (ts : List Token) (e : Expr)
    (h : parseFuel T n ts = .ok e) : Stratified T e = true := by
  unfold parseFuel at h
  simp only [bind, Except.bind, pure, Except.pure] at h
  split at h
  · simp at h
  · rename_i v hv
    have := (stratAt T hW n).expression _ _ _ hv
    repeat' split at h
    all_goals (try (simp at h; done))
    all_goals (simp at h; subst h; exact this)

/-- … and for the current source the table is the documented one, so accepted inputs are
derivations of the *documented* grammar. -/
theorem C01_stratified_documented (ts : List Token) (e : Expr)
    (h : Parser.parse Generated.parserTable ts = .ok e) : Stratified documentedTable e = true := by
  rw [Tie.parser_table] at h
  exact C01_stratified _ (by decide) _ ts e h

/-- The model under the regenerated table is the reference interpretation. -/
theorem C01_model_is_reference (ts : List Token) :
    Parser.parse Generated.parserTable ts = refParse ts := by
  unfold refParse; rw [Tie.parser_table]

-- non-vacuity: a non-trivial accepted sentence; its tree is what precedence prescribes
def parsesTo (ts : List Token) (s : String) : Bool :=
  match Parser.parse Generated.parserTable ts with
  | .ok e => e.sexp == s
  | .error _ => false

example : parsesTo
    [⟨.IDENTIFIER, "y"⟩, ⟨.TILDE, "~"⟩, ⟨.IDENTIFIER, "a"⟩, ⟨.PLUS, "+"⟩, ⟨.IDENTIFIER, "b"⟩,
     ⟨.STAR, "*"⟩, ⟨.IDENTIFIER, "c"⟩, ⟨.COLON, ":"⟩, ⟨.IDENTIFIER, "d"⟩]
    "(bin TILDE (var y) (bin PLUS (var a) (bin STAR (var b) (bin COLON (var c) (var d)))))" = true := by
  decide +kernel

end FormulaeModel.C01
