import Lean.Data.Json
import FormulaeModel.Driver.C01
import FormulaeModel.Driver.C02
import FormulaeModel.Driver.C03
import FormulaeModel.Driver.C04
import FormulaeModel.Driver.C05
import FormulaeModel.Driver.C06
import FormulaeModel.Driver.C07
import FormulaeModel.Driver.C08
import FormulaeModel.Driver.C09
import FormulaeModel.Driver.C10
import FormulaeModel.Driver.C11
import FormulaeModel.Driver.C12
import FormulaeModel.Driver.C13
import FormulaeModel.Driver.C14
import FormulaeModel.Driver.C15
import FormulaeModel.Driver.C16
import FormulaeModel.Driver.C17
/-
Driver: one JSON object per input line, one JSON object per output line.
Runs the executable definitions of the model / spec on cases produced by the Python harness.
Operations are defined per property in FormulaeModel/Driver/Cxx.lean.
-/
open Lean FormulaeModel FormulaeModel.Driver

def handle (j : Json) : Json :=
  let op := getStr j "op"
  if op == "ping" then okJ "pong" else
  match (Driver.C01.handle op j <|> Driver.C02.handle op j <|> Driver.C03.handle op j <|> Driver.C04.handle op j <|> Driver.C05.handle op j <|> Driver.C06.handle op j <|> Driver.C07.handle op j <|> Driver.C08.handle op j <|> Driver.C09.handle op j <|> Driver.C10.handle op j <|> Driver.C11.handle op j <|> Driver.C12.handle op j <|> Driver.C13.handle op j <|> Driver.C14.handle op j <|> Driver.C15.handle op j <|> Driver.C16.handle op j <|> Driver.C17.handle op j : Option Json) with
  | some r => r
  | none => errJ ("unknown_op:" ++ op)

partial def loop (hIn hOut : IO.FS.Stream) : IO Unit := do
  let line ← hIn.getLine
  if line.isEmpty then return ()
  let out := match Json.parse line with
    | .ok j => handle j
    | .error e => errJ ("json:" ++ e)
  hOut.putStrLn out.compress
  loop hIn hOut

def main : IO Unit := do
  let hIn ← IO.getStdin
  let hOut ← IO.getStdout
  loop hIn hOut
  hOut.flush
