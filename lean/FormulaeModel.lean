import FormulaeModel.Model.Token
import FormulaeModel.Model.Scanner
import FormulaeModel.Model.Expr
import FormulaeModel.Model.Parser
import FormulaeModel.Generated.Tables
import FormulaeModel.Spec.C01
import FormulaeModel.Properties.Tie
import FormulaeModel.Properties.C01
