"""C08 — row equivariance and independence from irrelevant frame structure."""
import json
import math
import re
from fractions import Fraction

import numpy as np
import pandas as pd

import designs
from common import Result, ask, rng_for

ASSUMPTIONS = [
    "Spec.C08 (rows permuted by sigma / nothing changed; labels, levels, slices, kinds equal; fitted "
    "transform parameters equal up to 1e-9) is evaluated by the Lean driver on pairs of real runs",
    "the row index does not exist in the Lean model: index relabelling is decided by these runs only",
    "float sums are permutation invariant only up to rounding: parameters and scale/bs/poly values are "
    "compared with relative tolerance 1e-9",
    "the column `ts` (location large compared with its spread: epoch seconds within one hour, a counter "
    "near 1e8 with spread 10) holds integers, so its sum is exact in every row order and the fitted "
    "mean / sd of the unchanged library move by ~1e-16 under permutation; scale, standardize, center, "
    "bs and raw poly are explored on it; the ORTHOGONAL poly(ts, k) is left out for this column: its "
    "three-term recurrence on the uncentred values (alpha_k = sum(x P_k^2) / sum(P_k^2) with x ~ 1e8) "
    "moves by up to 2e-8 relative under row permutation on the unchanged library (measured), which is "
    "conditioning of that algorithm, not a row-order dependence the statement speaks about",
    "index variants include NAMED indexes: the index carrying the name (and values) of a column the "
    "formula uses, the name of an unused column, and a two-level MultiIndex with such names, with and "
    "without missing values in used columns",
    "columns of pandas' nullable extension dtypes (Int64, Float64, boolean; complete ones and ones with "
    "pd.NA) are used by about a third of the formulas (bare, in interactions, under center / scale / C / "
    "I(...), as group-specific effects, as numeric response), `binary(...)` / `B(...)` atoms with "
    "numeric, string and namespace-variable success values over integer, string and categorical columns "
    "by about a third (as common term, in interactions, as group-specific effect, as response); when a "
    "used column has missing values the permutation rule is applied to the rows that are kept (the "
    "harness computes which rows are complete in the used columns and renumbers sigma accordingly)",
    "further index variants: 1-based and reversed integer labels, unique strings, dates, non-unique "
    "integers without the label 0, negative floats, a MultiIndex, and rows permuted under a default "
    "RangeIndex (labels travel with the rows)",
    "prediction: `evaluate_new_data` of the common and group-specific parts on a frame made of "
    "training rows, the same frame under a relabelled index (no effect) and with its rows permuted "
    "(rows of the result permuted); a new frame the base evaluation refuses (KF-C06-D13 / D14 classes: "
    "a level or the success value does not occur) is not compared",
    "prediction on ONE frame object: `evaluate_new_data` (common, group) on a frame, then the rows of "
    "that same object are reordered / relabelled IN PLACE (sort_values(inplace=True) by an unused key "
    "or by a used column, shuffled labels + sort_index(inplace=True), `frame.index = ...`, "
    "reset_index(inplace=True), every column assigned its values in another order under the same "
    "labels; 2 edits per history in the quick tier, 3 in the thorough one) and it is evaluated again: "
    "each later result must be the first one with its rows permuted by the composed permutation "
    "(rule `perm` / `same` of c08_spec); the identity of the frame object is asserted unchanged",
    "unused columns that SHARE a label (two `dup_id` columns around the frame as pd.concat(axis=1) of "
    "tables with a common id column gives them; three `dup_tail` columns of different dtypes at the "
    "end): no effect at all.  A repeated label on a column the formula USES is not explored: the "
    "unchanged library refuses it (`data[name]` is then a DataFrame: ValueError 'unrecognized type') "
    "and the statement does not say what such a frame means",
    "unused columns whose LABELS are not strings (the integer years 2020 / 2021 of a pivot, a float, a "
    "tuple, a Timestamp, None-free mixes of them, next to the string-labelled columns, at the front / "
    "in the middle / at the end, with and without missing values): no effect at all, like any other "
    "unused column.  A non-string label on a column the formula uses is not explored (a formula names "
    "its variables by strings)",
    "LONG frames (4100 to 9000 rows, never a multiple of 4096 or of 1024: a generated frame tiled with "
    "jittered numerics, so every categorical keeps its levels) under formulas with one or two "
    "group-specific terms: rows permuted => rows of response / common / group permuted (design_matrices), "
    "and evaluate_new_data of the group-specific and common parts on a long new frame and on its row "
    "permutation; 3 long cases in the quick tier, 12 in the thorough one.  The FULL matrices of both runs "
    "(every row) go through the same Spec.C08 relation of the Lean driver (c08_spec, rule `perm`) — "
    "no sampling, no Python-side comparison",
]
TRUSTED = ["pandas positional access (.values), np.unique, np.mean/std/percentile"]

CORPUS = ["y ~ f + x", "y ~ scale(x) + bs(z, df=4)", "y ~ center(x):f + (x | g)", "yc ~ co + cu",
          "y ~ poly(x, 2) + (1 | g:h)", "p(s, n) ~ C(k) + z", "y ~ T(g, ref='w'):x",
          # formulas that take no column from the frame (the frame still has columns with NaN)
          "1", "I(resp) ~ 1", "I(resp) ~ 0 + offset(2)", "y ~ 1",
          # spline with inner knots from the calling environment, boundary knots from the data
          "y ~ bs(z, knots=kn)", "y ~ bs(z, knots=kn):f + (1 | g)", "y ~ bs(z, knots=kn, degree=2) + x"]
# stateful / pointwise atoms on the ill-conditioned column `ts` (see ASSUMPTIONS for what is left out)
TS_ATOMS = ["scale(ts)", "standardize(ts)", "center(ts)", "bs(ts, df=4)", "bs(ts, df=3, degree=2)",
            "poly(ts, 2, raw=True)", "scale(ts):f", "center(scale(ts))", "standardize(ts):x",
            "(scale(ts) | g)", "(0 + standardize(ts) | h)"]
CORPUS += ["y ~ scale(ts)", "y ~ standardize(ts) + f", "y ~ center(ts) + bs(ts, df=4)",
           "y ~ x + (scale(ts) | g)"]
# names visible to the formulas of this check only (`resp` is added per frame, row-aligned)
NAMES = dict(designs.NAMES, kn=[-0.5, 0.5])


def params_of(dm):
    """fitted parameters of every stateful transform instance reachable from the design"""
    from formulae.terms.call import Call
    from formulae.terms.call_resolver import LazyCall
    out = []

    def walk_lazy(node):
        if isinstance(node, LazyCall):
            st = node.stateful_transform
            if st is not None:
                for k in sorted(vars(st)):
                    v = getattr(st, k)
                    if isinstance(v, dict):
                        v = [v[i] for i in sorted(v)]
                    try:
                        arr = np.asarray(v, dtype=float).ravel().tolist()
                    except Exception:  # noqa
                        continue
                    out.append([designs.frac(x) for x in arr])
            for a in list(node.args) + list(node.kwargs.values()):
                walk_lazy(a)
        elif hasattr(node, "args"):
            for a in node.args:
                walk_lazy(a)

    def walk_term(t):
        for c in getattr(t, "components", []):
            if isinstance(c, Call):
                walk_lazy(c.call)

    m = dm.model
    for t in m.common_terms:
        walk_term(t)
    for t in m.group_terms:
        walk_term(t.expr)
        walk_term(t.factor)
    if m.response is not None:
        walk_term(m.response.term)
    width = max((len(r) for r in out), default=0)
    return [r + [[0, 1]] * (width - len(r)) for r in out]


def snapshot(formula, df, resp=None, extra_names=None):
    names = NAMES if resp is None else dict(NAMES, resp=np.asarray(resp, dtype=float))
    if extra_names:
        names = dict(names, **extra_names)
    # (designs.observe also renders the frame the design kept for the Lean `design` op, which this
    # check does not use; that rendering needs unique column labels, so it is skipped for the frames
    # of this check in which unused columns share a label — only the observation is used here)
    keep = designs.frame_json
    if not df.columns.is_unique:
        designs.frame_json = lambda d: keep(d) if d.columns.is_unique else {"cols": []}
    try:
        obs, _ = designs.observe(formula, df, names)
    finally:
        designs.frame_json = keep
    if "err" in obs:
        return obs
    dm = obs["_dm"]
    meta = {}
    for part in ("response", "common", "group"):
        o = obs.get(part)
        meta[part] = None if o is None else {k: o.get(k) for k in ("labels", "slices", "kinds",
                                                                  "levels", "groups", "kind")}
    levels = []
    for t in list(dm.model.common_terms) + [g.factor for g in dm.model.group_terms]:
        for c in getattr(t, "components", []):
            levels.append([str(c.name), None if c.levels is None else [str(x) for x in c.levels]])
    meta["levels"] = levels
    return {"mats": {p: (obs.get(p) or {}).get("matrix") for p in ("response", "common", "group")},
            "meta": json.dumps(meta, sort_keys=True), "params": params_of(dm), "_dm": dm}


def strip_dm(snap):
    return {k: v for k, v in snap.items() if not k.startswith("_")}


def add_offset_column(r, df):
    """`ts`: a numeric column whose location is large compared with its spread.  Integers: every sum
    of the column is exact whatever the row order (the sum of squares is not)."""
    n = len(df)
    if r.random() < 0.6:
        base, spread = 1_700_000_000 + r.randrange(0, 10 ** 6), 3600      # epoch seconds in one hour
    else:
        base, spread = 10 ** 8 + r.randrange(0, 1000), 10                 # a large counter
    vals = [base + r.randrange(0, spread) for _ in range(n)]
    if len(set(vals)) < min(n, 6):                                        # enough distinct points for bs
        vals = [base + (i * 7) % spread for i in range(n)]
        r.shuffle(vals)
    df["ts"] = [float(v) for v in vals]
    return df


def used_columns(formula, df):
    toks = set(re.findall(r"[A-Za-z_][A-Za-z_0-9]*", formula))
    return [c for c in df.columns if c in toks]


def named_index_variants(r, df, formula, which):
    """the same frame under NAMED indexes: named (and valued) like a column the formula uses, named
    like a column it does not use, a MultiIndex whose levels carry such names"""
    n = len(df)
    used = used_columns(formula, df) or list(df.columns[:3])
    out = []
    for kind in which:
        d = df.copy()
        col = r.choice(used)
        if kind == "used":
            d = d.set_index(col, drop=False)                   # e.g. df.set_index("g", drop=False)
        elif kind == "unused":
            d.index = pd.Index([r.randrange(0, max(2, n // 2)) for _ in range(n)], name="unused")
        elif kind == "multi":
            other = r.choice([c for c in df.columns if c != col and c not in NULLABLE_COLUMNS])
            d.index = pd.MultiIndex.from_arrays([df[col].to_numpy(), df[other].to_numpy()],
                                                names=[col, other])
        else:                                                  # "multi2": a used name on the 2nd level
            labels = list(range(n))
            r.shuffle(labels)
            d.index = pd.MultiIndex.from_arrays([labels, df[col].to_numpy()], names=[None, col])
        out.append(("same", d, None))
    return out


def variants(r, df):
    n = len(df)
    out = []
    for _ in range(3):
        sigma = list(range(n))
        r.shuffle(sigma)
        out.append(("perm", df.iloc[sigma], sigma))
    idx = df.copy()
    idx.index = [r.choice(["a", "b", "c", "zz"]) for _ in range(n)]           # non-unique strings
    out.append(("same", idx, None))
    idx2 = df.copy()
    idx2.index = [r.randrange(-50, 50) / 3 for _ in range(n)]                 # unsorted floats
    out.append(("same", idx2, None))
    out.append(("same", df[list(reversed(df.columns))], None))               # column order
    extra = df.copy()
    extra["junk1"] = np.nan
    extra["junk2"] = [object()] * n
    extra.insert(0, "junk0", ["x"] * n)
    out.append(("same", extra, None))
    out.append(("same", df.drop(columns=["unused"]), None))
    out.append(("same", df.drop(columns=["unused_nan"]), None))             # unused column with NaN
    return out


def nan_variants(r, df):
    """a frame with missing values in used columns, and the same frame under relabelled (non-unique)
    indexes: which rows are dropped must not depend on the row labels"""
    base = df.reset_index(drop=True).copy()
    for c in ("x", "z"):
        base[c] = base[c].astype(float)
        for i in r.sample(range(len(base)), 2):
            base.loc[i, c] = np.nan
    a = base.copy()
    a.index = [r.choice(["a", "b", "c"]) for _ in range(len(a))]
    b = base.copy()
    b.index = [i // 3 for i in range(len(b))]
    return base, [("same", a, None), ("same", b, None)]


# ------------------------------------------------------------------------------------------------
# nullable extension dtypes, binary(...) atoms, further index variants, prediction
# ------------------------------------------------------------------------------------------------
NULL_ATOMS = ["ni", "nf", "nb", "center(ni)", "scale(nf)", "ni:f", "nf:g", "nb:h", "C(nb)", "C(ni)",
              "I(ni + 1)", "{nf * 2}", "ni:nf", "(ni | g)", "(0 + nf | h)", "(nb | g)", "poly(nf, 2)",
              # with pd.NA: the rows are dropped first
              "nia", "nfa", "nba", "nia:f", "center(nfa)", "C(nba)", "(nia | h)", "nfa:ni", "(0 + nfa | g)"]
BIN_ATOMS = ["binary(k, 2)", "B(k, 10)", "binary(kz, 0)", "B(kz, -1)", "binary(k, 2.0)", "binary(k, two)",
             "binary(f, 'b')", 'B(g, "w")', "binary(cu, 'm2')", "B(co, 'mid')", "binary(f, lev)",
             "binary(k)", "B(f)", "binary(ni, ni0)", "binary(nb, True)",
             "binary(k, 2):f", "binary(kz, 0):x", "g:B(k, 10)", "(binary(k, 2) | g)",
             "(0 + binary(f, 'a') | h)", "(B(kz, 1) | g)"]
BIN_RESPONSES = ["binary(k, 2)", "B(kz, 0)", "binary(f, 'c')", "binary(k, two)"]
CORPUS += ["y ~ ni + nf + nb", "y ~ ni + z + (ni | g)", "nf ~ nia:f + (1 | g)", "y ~ C(nb) + center(nfa)",
           "y ~ binary(k, 2) + z + (binary(k, 2) | g)", "binary(kz, 0) ~ f + B(co, 'mid')",
           "y ~ B(k, 10):f + binary(cu, 'm2') + ni"]
NAMES = dict(NAMES, two=2, lev="b")


NULLABLE_COLUMNS = ("ni", "nf", "nb", "nia", "nfa", "nba")


def add_nullable_columns(r, df):
    """columns of pandas' nullable extension dtypes: complete ones and ones holding pd.NA"""
    n = len(df)
    ints = [r.randrange(-3, 8) for _ in range(n)]
    flts = [r.randrange(-8, 9) / 4 for _ in range(n)]
    bools = [r.random() < 0.5 for _ in range(n)]
    bools[0], bools[1] = True, False
    r.shuffle(bools)
    df["ni"] = pd.array(ints, dtype="Int64")
    df["nf"] = pd.array(flts, dtype="Float64")
    df["nb"] = pd.array(bools, dtype="boolean")
    for name, vals, dt in (("nia", ints, "Int64"), ("nfa", flts, "Float64"), ("nba", bools, "boolean")):
        vals = list(vals)
        for i in r.sample(range(n), r.randrange(1, 3)):
            vals[i] = pd.NA
        df[name] = pd.array(vals, dtype=dt)
    return df


def complete_rows(formula, df):
    """which rows of `df` are complete in the columns the formula uses (positions, in order)"""
    used = used_columns(formula, df)
    if not used:
        return list(range(len(df)))
    keep = ~df[used].isna().any(axis=1).to_numpy()
    return [i for i in range(len(df)) if keep[i]]


def kept_sigma(sigma, kept, n):
    """sigma restricted to the rows that are kept, renumbered by their rank among the kept rows"""
    rank = {row: j for j, row in enumerate(kept)}
    return [rank[s] for s in sigma if s in rank]


INDEX_KINDS = ["one_based", "reversed", "strings", "dates", "nonunique_no0", "neg_floats", "multi",
               "range_perm"]


def relabel(r, df, kind):
    """-> (rule, frame, sigma): the same rows under another index (`range_perm`: rows permuted under
    a default RangeIndex, so that the labels 0..n-1 travel with the rows)"""
    n = len(df)
    d = df.copy()
    if kind == "one_based":
        d.index = range(1, n + 1)
    elif kind == "reversed":
        d.index = range(n - 1, -1, -1)
    elif kind == "strings":
        labels = [f"obs{i}" for i in range(n)]
        r.shuffle(labels)
        d.index = labels
    elif kind == "dates":
        d.index = pd.date_range("2024-01-01", periods=n, freq="D")
    elif kind == "nonunique_no0":
        d.index = [r.randrange(1, max(3, n // 2)) for _ in range(n)]
    elif kind == "neg_floats":
        d.index = [-(i + 1) / 2 for i in range(n)]
    elif kind == "multi":
        d.index = pd.MultiIndex.from_arrays([[r.choice("ab") for _ in range(n)], list(range(n))])
    else:
        sigma = list(range(n))
        r.shuffle(sigma)
        return "perm", df.reset_index(drop=True).iloc[sigma], sigma
    return "same", d, None


def new_data_pairs(r, dm, df, formula, tier):
    """evaluate_new_data on a frame made of training rows, on the same frame under other indexes and
    with its rows permuted -> (pairs for c08_spec, meta, counts)"""
    kept = complete_rows(formula, df)
    idx = list(kept)
    r.shuffle(idx)
    idx = idx[: r.randrange(max(2, len(idx) // 2), len(idx) + 1)]
    base_new = df.iloc[idx].reset_index(drop=True)

    def run(frame):
        out = {}
        for part in ("common", "group"):
            obj = getattr(dm, part)
            if obj is None:
                out[part] = None
                continue
            try:
                out[part] = designs.mat(obj.evaluate_new_data(frame).design_matrix)
            except Exception as e:  # noqa
                out[part] = {"err": type(e).__name__, "msg": str(e)[:80]}
        return out
    base = run(base_new)
    kinds = r.sample(INDEX_KINDS, 1 if tier == "quick" else 2)
    if "range_perm" not in kinds:
        kinds.append("range_perm")
    pairs, meta, errors = [], [], []
    for kind in kinds:
        rule, frame, sigma = relabel(r, base_new, kind)
        other = run(frame)
        for part in ("common", "group"):
            b, o = base[part], other[part]
            if b is None or isinstance(b, dict):
                continue
            if isinstance(o, dict):
                errors.append((kind, part, o))
                continue
            pairs.append({"rule": rule, "base": b, "other": o, "sigma": sigma or [], "meta_base": "",
                          "meta_other": "", "params_base": [], "params_other": []})
            meta.append(("new:" + kind, rule, part))
    refused = [p for p in ("common", "group") if isinstance(base[p], dict)]
    return pairs, meta, errors, refused


INPLACE_EDITS = ["sort_values", "sort_index", "relabel", "reset_index", "assign_columns",
                 "sort_used"]


def inplace_edit(r, frame, kind, formula):
    """edits `frame` IN PLACE (the object, its identity, stays what it was) -> (rule, sigma): sigma[i]
    = the position, before the edit, of the row that is row i after it (None: rows did not move)"""
    n = len(frame)
    if kind == "sort_values":                       # rows sorted by an unused key column
        order = np.argsort(frame["key_"].to_numpy(), kind="stable").tolist()
        frame.sort_values("key_", inplace=True, kind="stable")
        # (a new key for the next sort)
        return "perm", order
    if kind == "sort_used":                         # rows sorted by a column the formula uses
        used = [c for c in used_columns(formula, frame) if c not in NULLABLE_COLUMNS
                and not isinstance(frame[c].dtype, pd.CategoricalDtype)]
        if not used:
            return inplace_edit(r, frame, "sort_values", formula)
        col = r.choice(used)
        frame["pos_"] = np.arange(n)
        frame.sort_values(col, inplace=True, kind="stable", ascending=r.random() < 0.5)
        order = frame["pos_"].tolist()
        frame.drop(columns=["pos_"], inplace=True)
        return "perm", order
    if kind == "sort_index":                        # shuffled unique labels, then sorted by label
        labels = list(range(100, 100 + n))
        r.shuffle(labels)
        frame.index = labels
        order = np.argsort(np.asarray(labels), kind="stable").tolist()
        frame.sort_index(inplace=True)
        return "perm", order
    if kind == "relabel":                           # other (non-unique) row labels on the same object
        frame.index = [r.choice(["a", "b", "c", "zz"]) for _ in range(n)]
        return "same", None
    if kind == "reset_index":
        frame.reset_index(drop=True, inplace=True)
        return "same", None
    # "assign_columns": every column is assigned its values in another order, under the same labels
    sigma = list(range(n))
    r.shuffle(sigma)
    for c in list(frame.columns):
        frame[c] = frame[c].iloc[sigma].set_axis(frame.index)
    return "perm", sigma


def inplace_pairs(r, dm, df, formula, tier):
    """ONE frame object handed to `evaluate_new_data` (common and group part) several times, its rows
    reordered / relabelled IN PLACE in between (`sort_values(..., inplace=True)`, `sort_index(
    inplace=True)`, `frame.index = ...`, `reset_index(inplace=True)`, column-wise assignment): every
    later result must be the first one with its rows permuted by the composed permutation
    -> (pairs for c08_spec, meta, errors, refused)"""
    kept = complete_rows(formula, df)
    idx = list(kept)
    r.shuffle(idx)
    idx = idx[: r.randrange(max(2, len(idx) // 2), len(idx) + 1)]
    frame = df.iloc[idx].reset_index(drop=True)
    n = len(frame)
    key = list(range(n))
    r.shuffle(key)
    frame["key_"] = key                              # an unused column: the key of `sort_values`

    def run():
        out = {}
        for part in ("common", "group"):
            obj = getattr(dm, part)
            if obj is None:
                out[part] = None
                continue
            try:
                out[part] = designs.mat(obj.evaluate_new_data(frame).design_matrix)
            except Exception as e:  # noqa
                out[part] = {"err": type(e).__name__, "msg": str(e)[:80]}
        return out
    ident = id(frame)
    base = run()
    refused = [p for p in ("common", "group") if isinstance(base[p], dict)]
    pairs, meta, errors = [], [], []
    total = list(range(n))                           # total[i] = row of the first frame that is row i now
    steps = r.sample(INPLACE_EDITS, 2 if tier == "quick" else 3)
    if not any(k in ("sort_values", "sort_index", "assign_columns", "sort_used") for k in steps):
        steps[0] = "sort_values"
    done = []
    for kind in steps:
        rule, sigma = inplace_edit(r, frame, kind, formula)
        assert id(frame) == ident
        if sigma is not None:
            total = [total[s] for s in sigma]
        done.append(kind)
        other = run()
        moved = total != list(range(n))
        for part in ("common", "group"):
            b, o = base[part], other[part]
            if b is None or isinstance(b, dict):
                continue
            if isinstance(o, dict):
                errors.append(("+".join(done), part, o))
                continue
            pairs.append({"rule": "perm" if moved else "same", "base": b, "other": o,
                          "sigma": total if moved else [], "meta_base": "", "meta_other": "",
                          "params_base": [], "params_other": []})
            meta.append(("inplace:" + "+".join(done), "perm" if moved else "same", part))
    return pairs, meta, errors, refused


def duplicate_unused_variants(r, df):
    """frames in which two (three) columns the formula does NOT mention share a label, as
    `pd.concat([...], axis=1)` / a merge of tables that both carry an `id` column produce them; every
    column the formula can use keeps its unique label"""
    n = len(df)
    left = pd.DataFrame({"dup_id": np.arange(n), "note_": ["n"] * n}, index=df.index)
    right = pd.DataFrame({"dup_id": np.arange(n) + 100}, index=df.index)
    out = [("same", pd.concat([left, df, right], axis=1), None)]
    # the repeated label at the end only / with different dtypes and missing values
    tail = pd.DataFrame({"a_": [np.nan] * n, "b_": ["s"] * n, "c_": np.arange(n) * 1.0},
                        index=df.index)
    tail.columns = ["dup_tail"] * 3
    out.append(("same", pd.concat([df, tail], axis=1), None))
    return out


def odd_label_variants(r, df):
    """frames with extra columns the formula cannot mention because their labels are not strings:
    integers (the years of a pivot), a float, a tuple, a Timestamp; the string-labelled columns keep
    their labels -> [(rule, frame, None)] (variant numbers 50, 51, 52)"""
    n = len(df)

    def col(kind):
        if kind == 0:
            return [r.randrange(0, 50) for _ in range(n)]
        if kind == 1:
            return [np.nan if r.random() < 0.3 else r.randrange(-4, 5) / 2 for _ in range(n)]
        return [r.choice(["p", "q", None]) for _ in range(n)]

    def block(labels):
        t = pd.DataFrame({f"c{i}_": col(r.randrange(3)) for i in range(len(labels))}, index=df.index)
        t.columns = pd.Index(list(labels), dtype=object)
        return t
    years = [2020 + i for i in range(r.randrange(1, 4))]
    r.shuffle(years)
    out = []
    # integer labels (a pivot over years concatenated to the table), at the end or at the front
    a = [df, block(years)]
    if r.random() < 0.5:
        a.reverse()
    out.append(("same", pd.concat(a, axis=1), None))
    # a float and a tuple label, in the middle of the string-labelled columns
    k = r.randrange(1, len(df.columns))
    mixed = pd.concat([df.iloc[:, :k], block([r.choice([0.5, -1.0, 3.25]), ("t", r.randrange(3))]),
                       df.iloc[:, k:]], axis=1)
    out.append(("same", mixed, None))
    # integer 0 / negative integer, a Timestamp and a tuple of numbers together
    labels = [r.choice([0, -1, 7]), pd.Timestamp("2021-03-01"), (1, 2)]
    r.shuffle(labels)
    out.append(("same", pd.concat([block(labels[:1]), df, block(labels[1:])], axis=1), None))
    return out


LONG_COMMON = ["", "", "x", "f", "x + f", "z:h", "center(x)", "g", "scale(z)"]


FRAME_FREE = ["I(yy) ~ I(xx)", "{yy} ~ 1 + {xx}", "I(yy) ~ 1", "I(yy) ~ 0 + I(xx) + I(xx * 2)",
              "I(yy) ~ center(xx)", "I(yy) ~ scale(xx) + I(xx ** 2)"]


def long_frame(r, n):
    """a generated frame tiled to `n` rows, numerics jittered by exactly representable amounts"""
    small = designs.gen_frame(r, n=r.randrange(16, 25)).reset_index(drop=True)
    m = len(small)
    idx = list(range(m)) + [r.randrange(m) for _ in range(n - m)]
    r.shuffle(idx)
    df = small.iloc[idx].reset_index(drop=True)
    df["x"] = df["x"].to_numpy() + np.asarray([r.randrange(-3, 4) for _ in range(n)], dtype=float)
    df["z"] = df["z"].to_numpy() + np.asarray([r.randrange(-4, 5) / 4 for _ in range(n)])
    df["y"] = df["y"].to_numpy() + np.asarray([r.randrange(-4, 5) / 2 for _ in range(n)])
    return df


def long_rows(r):
    while True:
        n = r.randrange(4100, 9001)
        if n % 1024:
            return n


def fast_mat(a):
    """designs.mat for large float matrices (same exact fractions, via float.as_integer_ratio)"""
    a = np.asarray(a, dtype=float)
    if a.ndim == 1:
        a = a[:, None]
    return [[None if v != v else list(v.as_integer_ratio()) for v in row] for row in a.tolist()]


def long_case(seed, k, tier, very=False):
    keep = designs.mat
    designs.mat = fast_mat
    try:
        return long_case_(seed, k, tier, very)
    finally:
        designs.mat = keep


# very long frames (more than 10 000 rows; tenth seeded wave, C08_O: quantile knots taken from a
# thinned, position-dependent subset of a long column): transforms that fit parameters to the column
VERY_LONG = ["bs(x, df=4)", "bs(z, df=5, degree=2) + f", "bs(x, df=6):h", "scale(z) + bs(x, df=3)",
             "center(x) + bs(z, df=4, degree=1)", "bs(z, df=7) + (1 | g)"]


def long_case_(seed, k, tier, very=False):
    """-> (case, pairs, meta, failures) for one long frame: design_matrices on the frame and on a row
    permutation of it; evaluate_new_data (common, group) on a long new frame and on its permutation"""
    r = rng_for(seed, "c08", "very-long" if very else "long", k)
    n = long_rows(r)
    if very:
        n = r.randrange(10001, 13001 if tier == "quick" else 25001)
        n += 1 if n % 1024 == 0 else 0
    df = long_frame(r, n)
    if very:
        # many distinct values (exactly representable): quantiles of different subsets differ
        df["x"] = df["x"].to_numpy() + np.asarray([r.randrange(0, 8192) / 2048 for _ in range(n)])
        df["z"] = df["z"].to_numpy() + np.asarray([r.randrange(0, 8192) / 4096 for _ in range(n)])
    base = None
    for _ in range(1 if very else 6):                 # a formula the implementation accepts
        if very:
            formula = "y ~ " + VERY_LONG[k % len(VERY_LONG)]
            base = snapshot(formula, df)
            break
        groups = [designs.gen_group(r)]
        if r.random() < 0.35:
            groups.append(designs.gen_group(r))
        common = r.choice(LONG_COMMON)
        formula = "y ~ " + " + ".join(([common] if common else []) + groups)
        base = snapshot(formula, df)
        if "err" not in base and base["mats"]["group"] is not None:
            break
    case = {"formula": formula, "seed_path": k, "long_rows": n}
    pairs, meta, failures = [], [], []
    if "err" in base:
        return case, pairs, meta, failures, base["err"]
    sigma = list(range(n))
    r.shuffle(sigma)
    other = snapshot(formula, df.iloc[sigma])
    if "err" in other:
        failures.append({"case": dict(case, variant="long:perm"), "impl": strip_dm(other),
                         "expected": "rows permuted", "finding": None,
                         "why": f"the row-permuted long frame raises {other['err']} although the base "
                                "frame is accepted"})
    else:
        for part in ("response", "common", "group"):
            if base["mats"][part] is None and other["mats"][part] is None:
                continue
            pairs.append({"rule": "perm", "base": base["mats"][part], "other": other["mats"][part],
                          "sigma": sigma, "meta_base": base["meta"], "meta_other": other["meta"],
                          "params_base": base["params"], "params_other": other["params"]})
            meta.append(("long:perm", "perm", part))
    # prediction on a long new frame (another length) and on its row permutation
    n2 = long_rows(r)
    # (levels seen at training only: the new frame is tiled from training rows)
    new = df.iloc[[r.randrange(n) for _ in range(n2)]].reset_index(drop=True)
    sigma2 = list(range(n2))
    r.shuffle(sigma2)
    dm = base["_dm"]
    for part in ("group", "common"):
        obj = getattr(dm, part)
        if obj is None:
            continue
        try:
            b = designs.mat(obj.evaluate_new_data(new).design_matrix)
        except Exception as e:  # noqa
            continue                                   # refused on the base frame: not compared
        try:
            o = designs.mat(obj.evaluate_new_data(new.iloc[sigma2]).design_matrix)
        except Exception as e:  # noqa
            failures.append({"case": dict(case, variant="long:new-perm", part=part, new_rows=n2),
                             "impl": {"err": type(e).__name__, "msg": str(e)[:80]},
                             "expected": "rows permuted", "finding": None,
                             "why": f"evaluate_new_data ({part}) raises {type(e).__name__} on the "
                                    "row-permuted long new frame although the frame is accepted"})
            continue
        pairs.append({"rule": "perm", "base": b, "other": o, "sigma": sigma2, "meta_base": "",
                      "meta_other": "", "params_base": [], "params_other": []})
        meta.append(("long:new-perm", "perm", part))
    return case, pairs, meta, failures, None


# variant numbers: 0-8 `variants`, 9 a named index on the complete frame; 100-101 `nan_variants`,
# 102-103 named indexes on the frame with missing values


def explore(tier, seed, res=None, replay=None):
    res = res or Result()
    res.rule = ("generated designs x (3 row permutations, non-unique string index, unsorted float "
                "index, reversed column order, 3 extra unused columns incl. an all-NaN one, an unused "
                "column removed, the unused column with NaN removed, a named index / MultiIndex, and "
                "missing values in used columns under relabelled and under named indexes); formulas "
                "include ones naming no frame column, splines with knots from the environment and "
                "stateful transforms of a column with a large offset relative to its spread, columns of "
                "nullable extension dtypes (Int64 / Float64 / boolean, with and without pd.NA), "
                "binary(...) / B(...) atoms with numeric and string success values, further index "
                "variants per frame (1-based, reversed, strings, dates, non-unique without 0, floats, "
                "MultiIndex, rows permuted under a RangeIndex) and evaluate_new_data on relabelled / "
                "permuted new frames, evaluate_new_data on one frame object before and after in-place "
                "reorderings / relabellings of its rows, frames with unused columns sharing a label, "
                "frames with unused columns under integer / float / tuple / Timestamp labels, a few long "
                "frames (4100-9000 rows) with group-specific terms under row permutation (design and "
                "evaluate_new_data); "
                "non-trivial = a pair whose design has a categorical or stateful "
                "atom; distinct by (formula, variant)")
    n_cases = 300 if tier == "quick" else 3500
    cases = []
    long_ks = list(range(3 if tier == "quick" else 12))
    if replay is not None and (replay.get("very_long") or replay.get("frame_free")):
        long_ks = []
    elif replay is not None and "long_rows" in replay:
        long_ks = [replay.get("seed_path", 0)]
    elif replay is not None:
        cases = [(replay["formula"], replay.get("seed_path", 0))]
        long_ks = []
    else:
        for f in CORPUS:
            cases.append((f, len(cases)))
        for _ in range(n_cases):
            cases.append((None, len(cases)))
    reqs, owners = [], []
    for f, path in cases:
        r = rng_for(seed, "c08", path)
        df = designs.gen_frame(r)
        # (a replay of a generated case is given its formula: the generator's draws are still made, so
        # that the permutations and index labels drawn afterwards are those of the original run)
        generated_case = f is None or (replay is not None and path >= len(CORPUS))
        generated = designs.gen_formula(r, extra=True) if generated_case else None
        tail = ""
        if generated_case and r.random() < 0.12:
            tail = r.choice([" + bs(z, knots=kn)", " + bs(z, knots=kn, degree=2):f"])
        formula = f or (generated + tail)
        # additions of this check draw from their own generators (the cases above stay what they were)
        r2 = rng_for(seed, "c08", path, "extensions")
        add_offset_column(r2, df)
        # (drawn unconditionally: a replay, which is given the formula, sees the same variants)
        u1, a1, u2, a2 = r2.random(), r2.choice(TS_ATOMS), r2.random(), r2.choice(TS_ATOMS[:6])
        if f is None and u1 < 0.3:
            formula += " + " + a1 + (" + " + a2 if u2 < 0.2 and a2 != a1 else "")
        # nullable extension dtypes and binary(...) atoms (own generator, drawn unconditionally)
        r3 = rng_for(seed, "c08", path, "nullable-binary")
        add_nullable_columns(r3, df)
        extra_names = {"ni0": int(df["ni"].iloc[r3.randrange(len(df))])}
        v1, n1, v2, n2, v3, b1, v4, rs = (r3.random(), r3.choice(NULL_ATOMS), r3.random(),
                                          r3.choice(NULL_ATOMS), r3.random(), r3.choice(BIN_ATOMS),
                                          r3.random(), r3.choice(["ni", "nf"] + BIN_RESPONSES))
        if f is None:
            if v1 < 0.35:
                formula += " + " + n1 + (" + " + n2 if v2 < 0.3 and n2 != n1 else "")
            if v3 < 0.35:
                formula += " + " + b1
            if v4 < 0.12 and formula.startswith("y ~"):
                formula = rs + formula[1:]
        if "ts" in used_columns(formula, df):
            res.count("formulas with a transform of the large-offset column")
        if set(used_columns(formula, df)) & set(NULLABLE_COLUMNS):
            res.count("formulas using a column of a nullable extension dtype")
        if "binary(" in formula or "B(" in formula:
            res.count("formulas with a binary(...) atom")
        # a row-aligned array in the calling environment: moves with the rows
        resp = [r.randrange(-9, 10) / 2 for _ in range(len(df))]
        res.evaluations += 1
        base = snapshot(formula, df, resp, extra_names)
        if "err" in base:
            res.count("impl_error:" + base["err"])
            continue
        pairs, meta = [], []
        kinds = ["used", "unused", "multi", "multi2"]
        # (time budget of the quick tier: the named index on the complete frame in half of the cases)
        all_variants = variants(r, df) + named_index_variants(
            r2, df, formula, [r2.choice(kinds)] if (tier != "quick" or r2.random() < 0.5) else [])
        # further index variants (variant numbers 20, 21, ...)
        # (time budget of the quick tier: one of them for 60% of the frames)
        more = [relabel(r3, df, kind) for kind in (
            r3.sample(INDEX_KINDS, 1 if r3.random() < 0.6 else 0) if tier == "quick"
            else r3.sample(INDEX_KINDS, 2))]
        kept = complete_rows(formula, df)          # rows without a missing value in a used column
        if len(kept) < len(df):
            res.count("designs that drop rows holding pd.NA")
        # two unused columns under one label (variant numbers 40, 41; quick tier: one of them)
        r5 = rng_for(seed, "c08", path, "duplicate-labels")
        dups = duplicate_unused_variants(r5, df)
        dups = list(enumerate(dups, start=40))
        if tier == "quick":
            dups = [dups[r5.randrange(len(dups))]]
        # unused columns with integer / float / tuple / Timestamp labels (variant numbers 50-52; quick
        # tier: one of them)
        r6 = rng_for(seed, "c08", path, "odd-labels")
        odd = list(enumerate(odd_label_variants(r6, df), start=50))
        if tier == "quick":
            odd = [odd[r6.randrange(len(odd))]]
        numbered = list(enumerate(all_variants)) + list(enumerate(more, start=20)) + dups + odd
        for k, (rule, d2, sigma) in numbered:
            other = snapshot(formula, d2, [resp[i] for i in sigma] if sigma else resp, extra_names)
            if "err" in other:
                res.failures.append({"case": {"formula": formula, "seed_path": path, "variant": k},
                                     "impl": strip_dm(other), "expected": "same design", "finding": None,
                                     "why": f"variant {k} ({rule}) raises {other['err']} although the "
                                            "base frame is accepted"})
                continue
            if sigma and len(kept) < len(df):
                sigma = kept_sigma(sigma, kept, len(df))
            for part in ("response", "common", "group"):
                if base["mats"][part] is None and other["mats"][part] is None:
                    continue
                pairs.append({"rule": rule, "base": base["mats"][part], "other": other["mats"][part],
                              "sigma": sigma or [], "meta_base": base["meta"],
                              "meta_other": other["meta"], "params_base": base["params"],
                              "params_other": other["params"]})
                meta.append((k, rule, part))
            res.nontrivial.add((formula, path, k))
        # prediction: evaluate_new_data under relabelled indexes / permuted rows of the new frame
        if r3.random() < (0.3 if tier == "quick" else 0.6) or "binary(" in formula or "B(" in formula:
            np_, nm_, nerr, refused = new_data_pairs(r3, base["_dm"], df, formula, tier)
            pairs += np_
            meta += nm_
            res.count("new-data pairs (evaluate_new_data under another index / row order)", len(np_))
            for part in refused:
                res.count("new frames the base evaluation refuses (not compared)")
            for kind, part, o in nerr:
                res.failures.append({
                    "case": {"formula": formula, "seed_path": path, "variant": "new:" + kind,
                             "part": part}, "impl": o, "expected": "same matrix", "finding": None,
                    "why": f"evaluate_new_data ({part}) raises {o['err']} on the new frame under "
                           f"index variant '{kind}' although the same rows are accepted under the "
                           "default index"})
        # prediction on ONE frame object whose rows are reordered / relabelled in place between calls
        r4 = rng_for(seed, "c08", path, "inplace")
        if r4.random() < (0.45 if tier == "quick" else 0.7) or (replay is not None and str(
                replay.get("variant", "")).startswith("inplace:")):
            ip_, im_, ierr, irefused = inplace_pairs(r4, base["_dm"], df, formula, tier)
            pairs += ip_
            meta += im_
            res.count("in-place pairs (one frame object evaluated, edited in place, evaluated again)",
                      len(ip_))
            if any(m[2] == "group" for m in im_):
                res.count("in-place histories over a design with a group-specific part")
            for part in irefused:
                res.count("new frames the base evaluation refuses (not compared)")
            for kind, part, o in ierr:
                res.failures.append({
                    "case": {"formula": formula, "seed_path": path, "variant": "inplace:" + kind,
                             "part": part}, "impl": o, "expected": "rows permuted", "finding": None,
                    "why": f"evaluate_new_data ({part}) raises {o['err']} on the frame object after the "
                           f"in-place edits '{kind}' although it accepted the object before them"})
        # missing values + relabelled indexes
        nbase_df, nvars = nan_variants(r, df)
        nvars = nvars + named_index_variants(
            r2, nbase_df, formula, [r2.choice(["used", "multi", "multi2"])] + (
                [r2.choice(["unused", "multi", "used"])] if (tier != "quick" or r2.random() < 0.5)
                else []))
        # (variant number 110: one of the further index variants on the frame with missing values)
        nvars = list(enumerate(nvars, start=100)) + (
            [(110, relabel(r3, nbase_df, r3.choice(INDEX_KINDS)))]
            if r3.random() < (0.35 if tier == "quick" else 0.6) else [])
        nbase = snapshot(formula, nbase_df, resp, extra_names)
        if "err" not in nbase:
            nkept = complete_rows(formula, nbase_df)
            for k, (rule, d2, sigma) in nvars:
                other = snapshot(formula, d2, [resp[i] for i in sigma] if sigma else resp, extra_names)
                if "err" in other:
                    res.failures.append({"case": {"formula": formula, "seed_path": path, "variant": k},
                                         "impl": strip_dm(other), "expected": "same design", "finding": None,
                                         "why": f"variant {k} (missing values, relabelled / named index) raises "
                                                f"{other['err']}"})
                    continue
                if sigma:
                    sigma = kept_sigma(sigma, nkept, len(nbase_df))
                for part in ("response", "common", "group"):
                    if nbase["mats"][part] is None and other["mats"][part] is None:
                        continue
                    pairs.append({"rule": rule, "base": nbase["mats"][part], "other": other["mats"][part],
                                  "sigma": sigma or [], "meta_base": nbase["meta"], "meta_other": other["meta"],
                                  "params_base": nbase["params"], "params_other": other["params"]})
                    meta.append((k, rule, part))
        reqs.append({"op": "c08_spec", "pairs": pairs})
        owners.append(({"formula": formula, "seed_path": path}, meta))
        res.traces += 1
        if len(res.samples) < 5:
            res.samples.append({"formula": formula, "variants": len(meta)})
    # formulas that take NO variable from the frame (everything comes from the caller's namespace):
    # every column of the frame is an unused one; removing some, or all of them (a frame with rows
    # and no column), changes nothing (tenth seeded wave, C08_P: `DataFrame.empty` is also true for
    # a frame that has rows but no column)
    free_ks = [] if replay is not None and not replay.get("frame_free") else (
        [replay["seed_path"]] if replay is not None else range(6 if tier == "quick" else 60))
    for k in free_ks:
        rf = rng_for(seed, "c08", "frame-free", k)
        n = rf.randrange(4, 15)
        names = {"yy": np.asarray([rf.randrange(-8, 9) / 2 for _ in range(n)]),
                 "xx": np.asarray([float(rf.randrange(-6, 7)) for _ in range(n)])}
        formula = FRAME_FREE[k % len(FRAME_FREE)]
        full = pd.DataFrame({"u1": [rf.randrange(0, 9) for _ in range(n)], "u2": ["s"] * n,
                             "u3": [np.nan if i % 3 == 0 else 1.5 for i in range(n)]})
        case = {"formula": formula, "seed_path": k, "frame_free": True, "rows": n}
        res.evaluations += 1
        base = snapshot(formula, full, extra_names=names)
        if "err" in base:
            res.count("impl_error (frame-free formula):" + base["err"])
            continue
        res.count("frame-free formulas (every column of the frame is unused)")
        relabelled = full[[]].copy()
        relabelled.index = [f"r{i}" for i in range(n)]
        pairs, meta = [], []
        for tag, frame in (("one unused column left", full[["u2"]]), ("no column left", full[[]]),
                           ("no column left, string row labels", relabelled),
                           ("only the all-but-missing column left", full[["u3"]])):
            other = snapshot(formula, frame, extra_names=names)
            if "err" in other:
                res.failures.append({"case": dict(case, variant=tag), "impl": strip_dm(other),
                                     "expected": "unchanged", "finding": None,
                                     "why": f"the frame with {tag} raises {other['err']} although the "
                                            "formula uses no column and the full frame is accepted"})
                continue
            for part in ("response", "common", "group"):
                if base["mats"][part] is None and other["mats"][part] is None:
                    continue
                pairs.append({"rule": "same", "base": base["mats"][part], "other": other["mats"][part],
                              "sigma": [], "meta_base": base["meta"], "meta_other": other["meta"],
                              "params_base": base["params"], "params_other": other["params"]})
                meta.append((tag, "same", part))
        res.nontrivial.add((formula, "frame-free", k))
        reqs.append({"op": "c08_spec", "pairs": pairs})
        owners.append((case, meta))
        res.traces += 1
    # long frames with group-specific terms (all rows go through the same relation)
    for k in long_ks:
        case, pairs, meta, failures, err = long_case(seed, k, tier)
        res.evaluations += 1
        res.failures += failures
        if err:
            res.count("impl_error (long frame):" + err)
            continue
        res.count("long frames (more than 4096 rows) with group-specific terms")
        res.count("pairs over long frames", len(pairs))
        res.nontrivial.add((case["formula"], "long", k))
        reqs.append({"op": "c08_spec", "pairs": pairs})
        owners.append((case, meta))
        res.traces += 1
    # very long frames (more than 10 000 rows) with transforms that fit parameters to the column
    for k in ([] if replay is not None and not replay.get("very_long") else
              [replay["seed_path"]] if replay is not None else
              range(2 if tier == "quick" else len(VERY_LONG))):
        if replay is None and tier == "quick":
            k = (k * 3 + seed) % len(VERY_LONG)
        case, pairs, meta, failures, err = long_case(seed, k, tier, very=True)
        case["very_long"] = True
        res.evaluations += 1
        res.failures += failures
        if err:
            res.count("impl_error (very long frame):" + err)
            continue
        res.count("very long frames (more than 10000 rows) with fitted transforms")
        res.count("pairs over long frames", len(pairs))
        res.nontrivial.add((case["formula"], "very-long", k))
        reqs.append({"op": "c08_spec", "pairs": pairs})
        owners.append((case, meta))
        res.traces += 1
    for (case, meta), sp in zip(owners, ask(reqs)):
        for (k, rule, part), v in zip(meta, sp["pairs"]):
            res.count("pairs_checked")
            bad = [x for x in ("data_ok", "meta_ok", "params_ok") if not v[x]]
            if bad:
                res.failures.append({"case": dict(case, variant=k, part=part), "impl": bad,
                                     "expected": "rows permuted" if rule == "perm" else "unchanged",
                                     "finding": None,
                                     "why": f"variant {k} ({rule}) {part}: " + ", ".join(bad) + " violated"})
    return res
