"""C08 — row equivariance and independence from irrelevant frame structure."""
import json
import math
import re
from fractions import Fraction

import numpy as np
import pandas as pd

import designs
from common import Result, ask, rng_for

ASSUMPTIONS = [
    "Spec.C08 (rows permuted by sigma / nothing changed; labels, levels, slices, kinds equal; fitted "
    "transform parameters equal up to 1e-9) is evaluated by the Lean driver on pairs of real runs",
    "the row index does not exist in the Lean model: index relabelling is decided by these runs only",
    "float sums are permutation invariant only up to rounding: parameters and scale/bs/poly values are "
    "compared with relative tolerance 1e-9",
    "the column `ts` (location large compared with its spread: epoch seconds within one hour, a counter "
    "near 1e8 with spread 10) holds integers, so its sum is exact in every row order and the fitted "
    "mean / sd of the unchanged library move by ~1e-16 under permutation; scale, standardize, center, "
    "bs and raw poly are explored on it; the ORTHOGONAL poly(ts, k) is left out for this column: its "
    "three-term recurrence on the uncentred values (alpha_k = sum(x P_k^2) / sum(P_k^2) with x ~ 1e8) "
    "moves by up to 2e-8 relative under row permutation on the unchanged library (measured), which is "
    "conditioning of that algorithm, not a row-order dependence the statement speaks about",
    "index variants include NAMED indexes: the index carrying the name (and values) of a column the "
    "formula uses, the name of an unused column, and a two-level MultiIndex with such names, with and "
    "without missing values in used columns",
]
TRUSTED = ["pandas positional access (.values), np.unique, np.mean/std/percentile"]

CORPUS = ["y ~ f + x", "y ~ scale(x) + bs(z, df=4)", "y ~ center(x):f + (x | g)", "yc ~ co + cu",
          "y ~ poly(x, 2) + (1 | g:h)", "p(s, n) ~ C(k) + z", "y ~ T(g, ref='w'):x",
          # formulas that take no column from the frame (the frame still has columns with NaN)
          "1", "I(resp) ~ 1", "I(resp) ~ 0 + offset(2)", "y ~ 1",
          # spline with inner knots from the calling environment, boundary knots from the data
          "y ~ bs(z, knots=kn)", "y ~ bs(z, knots=kn):f + (1 | g)", "y ~ bs(z, knots=kn, degree=2) + x"]
# stateful / pointwise atoms on the ill-conditioned column `ts` (see ASSUMPTIONS for what is left out)
TS_ATOMS = ["scale(ts)", "standardize(ts)", "center(ts)", "bs(ts, df=4)", "bs(ts, df=3, degree=2)",
            "poly(ts, 2, raw=True)", "scale(ts):f", "center(scale(ts))", "standardize(ts):x",
            "(scale(ts) | g)", "(0 + standardize(ts) | h)"]
CORPUS += ["y ~ scale(ts)", "y ~ standardize(ts) + f", "y ~ center(ts) + bs(ts, df=4)",
           "y ~ x + (scale(ts) | g)"]
# names visible to the formulas of this check only (`resp` is added per frame, row-aligned)
NAMES = dict(designs.NAMES, kn=[-0.5, 0.5])


def params_of(dm):
    """fitted parameters of every stateful transform instance reachable from the design"""
    from formulae.terms.call import Call
    from formulae.terms.call_resolver import LazyCall
    out = []

    def walk_lazy(node):
        if isinstance(node, LazyCall):
            st = node.stateful_transform
            if st is not None:
                for k in sorted(vars(st)):
                    v = getattr(st, k)
                    if isinstance(v, dict):
                        v = [v[i] for i in sorted(v)]
                    try:
                        arr = np.asarray(v, dtype=float).ravel().tolist()
                    except Exception:  # noqa
                        continue
                    out.append([designs.frac(x) for x in arr])
            for a in list(node.args) + list(node.kwargs.values()):
                walk_lazy(a)
        elif hasattr(node, "args"):
            for a in node.args:
                walk_lazy(a)

    def walk_term(t):
        for c in getattr(t, "components", []):
            if isinstance(c, Call):
                walk_lazy(c.call)

    m = dm.model
    for t in m.common_terms:
        walk_term(t)
    for t in m.group_terms:
        walk_term(t.expr)
        walk_term(t.factor)
    if m.response is not None:
        walk_term(m.response.term)
    width = max((len(r) for r in out), default=0)
    return [r + [[0, 1]] * (width - len(r)) for r in out]


def snapshot(formula, df, resp=None):
    names = NAMES if resp is None else dict(NAMES, resp=np.asarray(resp, dtype=float))
    obs, _ = designs.observe(formula, df, names)
    if "err" in obs:
        return obs
    dm = obs["_dm"]
    meta = {}
    for part in ("response", "common", "group"):
        o = obs.get(part)
        meta[part] = None if o is None else {k: o.get(k) for k in ("labels", "slices", "kinds",
                                                                  "levels", "groups", "kind")}
    levels = []
    for t in list(dm.model.common_terms) + [g.factor for g in dm.model.group_terms]:
        for c in getattr(t, "components", []):
            levels.append([str(c.name), None if c.levels is None else [str(x) for x in c.levels]])
    meta["levels"] = levels
    return {"mats": {p: (obs.get(p) or {}).get("matrix") for p in ("response", "common", "group")},
            "meta": json.dumps(meta, sort_keys=True), "params": params_of(dm)}


def add_offset_column(r, df):
    """`ts`: a numeric column whose location is large compared with its spread.  Integers: every sum
    of the column is exact whatever the row order (the sum of squares is not)."""
    n = len(df)
    if r.random() < 0.6:
        base, spread = 1_700_000_000 + r.randrange(0, 10 ** 6), 3600      # epoch seconds in one hour
    else:
        base, spread = 10 ** 8 + r.randrange(0, 1000), 10                 # a large counter
    vals = [base + r.randrange(0, spread) for _ in range(n)]
    if len(set(vals)) < min(n, 6):                                        # enough distinct points for bs
        vals = [base + (i * 7) % spread for i in range(n)]
        r.shuffle(vals)
    df["ts"] = [float(v) for v in vals]
    return df


def used_columns(formula, df):
    toks = set(re.findall(r"[A-Za-z_][A-Za-z_0-9]*", formula))
    return [c for c in df.columns if c in toks]


def named_index_variants(r, df, formula, which):
    """the same frame under NAMED indexes: named (and valued) like a column the formula uses, named
    like a column it does not use, a MultiIndex whose levels carry such names"""
    n = len(df)
    used = used_columns(formula, df) or list(df.columns[:3])
    out = []
    for kind in which:
        d = df.copy()
        col = r.choice(used)
        if kind == "used":
            d = d.set_index(col, drop=False)                   # e.g. df.set_index("g", drop=False)
        elif kind == "unused":
            d.index = pd.Index([r.randrange(0, max(2, n // 2)) for _ in range(n)], name="unused")
        elif kind == "multi":
            other = r.choice([c for c in df.columns if c != col])
            d.index = pd.MultiIndex.from_arrays([df[col].to_numpy(), df[other].to_numpy()],
                                                names=[col, other])
        else:                                                  # "multi2": a used name on the 2nd level
            labels = list(range(n))
            r.shuffle(labels)
            d.index = pd.MultiIndex.from_arrays([labels, df[col].to_numpy()], names=[None, col])
        out.append(("same", d, None))
    return out


def variants(r, df):
    n = len(df)
    out = []
    for _ in range(3):
        sigma = list(range(n))
        r.shuffle(sigma)
        out.append(("perm", df.iloc[sigma], sigma))
    idx = df.copy()
    idx.index = [r.choice(["a", "b", "c", "zz"]) for _ in range(n)]           # non-unique strings
    out.append(("same", idx, None))
    idx2 = df.copy()
    idx2.index = [r.randrange(-50, 50) / 3 for _ in range(n)]                 # unsorted floats
    out.append(("same", idx2, None))
    out.append(("same", df[list(reversed(df.columns))], None))               # column order
    extra = df.copy()
    extra["junk1"] = np.nan
    extra["junk2"] = [object()] * n
    extra.insert(0, "junk0", ["x"] * n)
    out.append(("same", extra, None))
    out.append(("same", df.drop(columns=["unused"]), None))
    out.append(("same", df.drop(columns=["unused_nan"]), None))             # unused column with NaN
    return out


def nan_variants(r, df):
    """a frame with missing values in used columns, and the same frame under relabelled (non-unique)
    indexes: which rows are dropped must not depend on the row labels"""
    base = df.reset_index(drop=True).copy()
    for c in ("x", "z"):
        base[c] = base[c].astype(float)
        for i in r.sample(range(len(base)), 2):
            base.loc[i, c] = np.nan
    a = base.copy()
    a.index = [r.choice(["a", "b", "c"]) for _ in range(len(a))]
    b = base.copy()
    b.index = [i // 3 for i in range(len(b))]
    return base, [("same", a, None), ("same", b, None)]


# variant numbers: 0-8 `variants`, 9 a named index on the complete frame; 100-101 `nan_variants`,
# 102-103 named indexes on the frame with missing values


def explore(tier, seed, res=None, replay=None):
    res = res or Result()
    res.rule = ("generated designs x (3 row permutations, non-unique string index, unsorted float "
                "index, reversed column order, 3 extra unused columns incl. an all-NaN one, an unused "
                "column removed, the unused column with NaN removed, a named index / MultiIndex, and "
                "missing values in used columns under relabelled and under named indexes); formulas "
                "include ones naming no frame column, splines with knots from the environment and "
                "stateful transforms of a column with a large offset relative to its spread; non-trivial = a pair whose design has a categorical or stateful "
                "atom; distinct by (formula, variant)")
    n_cases = 300 if tier == "quick" else 10000
    cases = []
    if replay is not None:
        cases = [(replay["formula"], replay.get("seed_path", 0))]
    else:
        for f in CORPUS:
            cases.append((f, len(cases)))
        for _ in range(n_cases):
            cases.append((None, len(cases)))
    reqs, owners = [], []
    for f, path in cases:
        r = rng_for(seed, "c08", path)
        df = designs.gen_frame(r)
        formula = f or designs.gen_formula(r, extra=True)
        if f is None and r.random() < 0.12:
            formula += r.choice([" + bs(z, knots=kn)", " + bs(z, knots=kn, degree=2):f"])
        # additions of this check draw from their own generators (the cases above stay what they were)
        r2 = rng_for(seed, "c08", path, "extensions")
        add_offset_column(r2, df)
        # (drawn unconditionally: a replay, which is given the formula, sees the same variants)
        u1, a1, u2, a2 = r2.random(), r2.choice(TS_ATOMS), r2.random(), r2.choice(TS_ATOMS[:6])
        if f is None and u1 < 0.3:
            formula += " + " + a1 + (" + " + a2 if u2 < 0.2 and a2 != a1 else "")
        if "ts" in used_columns(formula, df):
            res.count("formulas with a transform of the large-offset column")
        # a row-aligned array in the calling environment: moves with the rows
        resp = [r.randrange(-9, 10) / 2 for _ in range(len(df))]
        res.evaluations += 1
        base = snapshot(formula, df, resp)
        if "err" in base:
            res.count("impl_error:" + base["err"])
            continue
        pairs, meta = [], []
        kinds = ["used", "unused", "multi", "multi2"]
        # (time budget of the quick tier: the named index on the complete frame in half of the cases)
        all_variants = variants(r, df) + named_index_variants(
            r2, df, formula, [r2.choice(kinds)] if (tier != "quick" or r2.random() < 0.5) else [])
        for k, (rule, d2, sigma) in enumerate(all_variants):
            other = snapshot(formula, d2, [resp[i] for i in sigma] if sigma else resp)
            if "err" in other:
                res.failures.append({"case": {"formula": formula, "seed_path": path, "variant": k},
                                     "impl": other, "expected": "same design", "finding": None,
                                     "why": f"variant {k} ({rule}) raises {other['err']} although the "
                                            "base frame is accepted"})
                continue
            for part in ("response", "common", "group"):
                if base["mats"][part] is None and other["mats"][part] is None:
                    continue
                pairs.append({"rule": rule, "base": base["mats"][part], "other": other["mats"][part],
                              "sigma": sigma or [], "meta_base": base["meta"],
                              "meta_other": other["meta"], "params_base": base["params"],
                              "params_other": other["params"]})
                meta.append((k, rule, part))
            res.nontrivial.add((formula, path, k))
        # missing values + relabelled indexes
        nbase_df, nvars = nan_variants(r, df)
        nvars = nvars + named_index_variants(
            r2, nbase_df, formula, [r2.choice(["used", "multi", "multi2"])] + (
                [r2.choice(["unused", "multi", "used"])] if (tier != "quick" or r2.random() < 0.5)
                else []))
        nbase = snapshot(formula, nbase_df, resp)
        if "err" not in nbase:
            for k, (rule, d2, sigma) in enumerate(nvars, start=100):
                other = snapshot(formula, d2, resp)
                if "err" in other:
                    res.failures.append({"case": {"formula": formula, "seed_path": path, "variant": k},
                                         "impl": other, "expected": "same design", "finding": None,
                                         "why": f"variant {k} (missing values, relabelled / named index) raises "
                                                f"{other['err']}"})
                    continue
                for part in ("response", "common", "group"):
                    if nbase["mats"][part] is None and other["mats"][part] is None:
                        continue
                    pairs.append({"rule": rule, "base": nbase["mats"][part], "other": other["mats"][part],
                                  "sigma": [], "meta_base": nbase["meta"], "meta_other": other["meta"],
                                  "params_base": nbase["params"], "params_other": other["params"]})
                    meta.append((k, rule, part))
        reqs.append({"op": "c08_spec", "pairs": pairs})
        owners.append(({"formula": formula, "seed_path": path}, meta))
        res.traces += 1
        if len(res.samples) < 5:
            res.samples.append({"formula": formula, "variants": len(meta)})
    for (case, meta), sp in zip(owners, ask(reqs)):
        for (k, rule, part), v in zip(meta, sp["pairs"]):
            res.count("pairs_checked")
            bad = [x for x in ("data_ok", "meta_ok", "params_ok") if not v[x]]
            if bad:
                res.failures.append({"case": dict(case, variant=k, part=part), "impl": bad,
                                     "expected": "rows permuted" if rule == "perm" else "unchanged",
                                     "finding": None,
                                     "why": f"variant {k} ({rule}) {part}: " + ", ".join(bad) + " violated"})
    return res
