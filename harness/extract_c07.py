"""Translator part for C07 (imported by extract_tables.generate): where the library keeps state
between calls and who may write it.

Read from the working tree of the repository on every run (ast) plus the live TRANSFORMS registry:
  * config.py: the fields and choices of `Config`, the default (first choice), the error classes of
    `__setattr__`;
  * every place that reads `config[...]` (must be the two `eval_new_data_categoric` methods: the
    configuration is read when new data are evaluated) and every place that writes it (none);
  * the prediction paths (`eval_new_data*`, `evaluate_new_data`) of terms.py, variable.py, call.py,
    matrices.py: assignments whose target is rooted at `self` (none), and where the `slices`
    dictionary of the original object is handed to the derived one (aliasing);
  * `LazyCall.eval`: the only non-local assignment is `self.stateful_transform = callee()` under
    the `... is None` guard, `__init__` starts it as None (one instance per call node);
  * the stateful transform classes: writes to `self` in `__call__` happen only under
    `if not self.params_set:`; which classes ever set `params_set = True`;
  * the registry: every entry is a class or a function, never an instance.
An unrecognised source shape gives `c07ShapeOk := false` (with the reason as a comment)."""
import ast
import os

from extract_tables import _src, REPO  # noqa: F401


def extract_c07():
    why = []

    def bad(msg):
        why.append(msg)

    def lean_strs(xs):
        return "[" + ", ".join('"%s"' % x for x in xs) + "]"

    def lean_bool(b):
        return "true" if b else "false"

    def functions(tree):
        """qualified name -> FunctionDef (methods as Class.method, nested functions excluded)"""
        out = {}
        for node in tree.body:
            if isinstance(node, ast.ClassDef):
                for n in node.body:
                    if isinstance(n, ast.FunctionDef):
                        out[node.name + "." + n.name] = n
            elif isinstance(node, ast.FunctionDef):
                out[node.name] = n = node
        return out

    def root_name(node):
        while isinstance(node, (ast.Attribute, ast.Subscript)):
            node = node.value
        return node.id if isinstance(node, ast.Name) else None

    def render(node):
        try:
            return ast.unparse(node)
        except Exception:  # noqa
            return "?"

    def targets_of(stmt):
        if isinstance(stmt, ast.Assign):
            ts = []
            for t in stmt.targets:
                ts.extend(t.elts if isinstance(t, (ast.Tuple, ast.List)) else [t])
            return ts
        if isinstance(stmt, (ast.AugAssign, ast.AnnAssign)):
            return [stmt.target]
        if isinstance(stmt, ast.Delete):
            return list(stmt.targets)
        return []

    MUTATORS = {"append", "extend", "insert", "pop", "remove", "clear", "update", "setdefault",
                "sort", "reverse", "popitem", "add", "discard", "fill", "put", "resize",
                "__setitem__", "__setattr__", "__delitem__", "setflags", "itemset"}

    def self_writes(fn):
        """rendered targets / mutating calls rooted at `self` inside a function"""
        out = []
        for node in ast.walk(fn):
            for t in targets_of(node) if isinstance(node, ast.stmt) else []:
                if not isinstance(t, ast.Name) and root_name(t) == "self":
                    out.append(render(t))
            if isinstance(node, ast.Call) and isinstance(node.func, ast.Attribute) \
                    and node.func.attr in MUTATORS and root_name(node.func.value) == "self" \
                    and not isinstance(node.func.value, ast.Name):
                out.append(render(node.func) + "()")
            if isinstance(node, ast.Call) and isinstance(node.func, ast.Name) \
                    and node.func.id == "setattr" and node.args \
                    and root_name(node.args[0]) == "self":
                out.append("setattr(self)")
        return out

    # ---------------------------------------------------------------------------------------------
    # config.py
    # ---------------------------------------------------------------------------------------------
    fields = []
    default_first = False
    setattr_ok = False
    try:
        tree = _src("formulae/config.py")
        cls = next(n for n in tree.body if isinstance(n, ast.ClassDef) and n.name == "Config")
        for n in cls.body:
            if isinstance(n, ast.Assign) and any(isinstance(t, ast.Name) and t.id == "FIELDS"
                                                 for t in n.targets):
                d = ast.literal_eval(n.value)
                fields = [(str(k), [str(c) for c in v]) for k, v in d.items()]
        fns = {n.name: n for n in cls.body if isinstance(n, ast.FunctionDef)}
        init = fns.get("__init__")
        if init is not None:
            for node in ast.walk(init):
                if isinstance(node, ast.Assign) and render(node.value) == "choices[0]":
                    default_first = True
        sa = fns.get("__setattr__")
        if sa is not None:
            ifs = [n for n in sa.body if isinstance(n, ast.If)]
            if len(ifs) == 1 and render(ifs[0].test) == "key in Config.FIELDS":
                inner = [n for n in ifs[0].body if isinstance(n, ast.If)]
                outer_raise = [render(n.exc.func) for n in ifs[0].orelse
                               if isinstance(n, ast.Raise) and isinstance(n.exc, ast.Call)]
                if len(inner) == 1 and render(inner[0].test) == "value in Config.FIELDS[key]":
                    inner_raise = [render(n.exc.func) for n in inner[0].orelse
                                   if isinstance(n, ast.Raise) and isinstance(n.exc, ast.Call)]
                    setattr_ok = outer_raise == ["KeyError"] and inner_raise == ["ValueError"]
        singletons = [n for n in tree.body if isinstance(n, ast.Assign)
                      and render(n.value) == "Config()"
                      and any(isinstance(t, ast.Name) and t.id == "config" for t in n.targets)]
        if len(singletons) != 1:
            bad("config.py: `config = Config()` not found exactly once")
    except Exception as e:  # noqa
        bad(f"config.py: {e}")
    if not fields:
        bad("config.py: Config.FIELDS not a literal dict")

    # ---------------------------------------------------------------------------------------------
    # who reads / writes the configuration, self-writes on the prediction paths
    # ---------------------------------------------------------------------------------------------
    read_sites, write_sites = [], []
    pred_writes, shared_slices = [], []
    pkg = os.path.join(REPO, "formulae")
    files = []
    for root, _, names in os.walk(pkg):
        for fn in sorted(names):
            if fn.endswith(".py"):
                files.append(os.path.relpath(os.path.join(root, fn), REPO))
    for rel in sorted(files):
        try:
            tree = _src(rel)
        except Exception as e:  # noqa
            bad(f"cannot parse {rel}: {e}")
            continue
        if rel.endswith("config.py"):
            continue
        fns = functions(tree)
        covered = set()
        for qn, fn in fns.items():
            for node in ast.walk(fn):
                covered.add(id(node))
                if isinstance(node, ast.Subscript) and isinstance(node.value, ast.Name) \
                        and node.value.id == "config":
                    (read_sites if isinstance(node.ctx, ast.Load) else write_sites).append(qn)
                if isinstance(node, ast.Attribute) and isinstance(node.value, ast.Name) \
                        and node.value.id == "config" and isinstance(node.ctx, ast.Store):
                    write_sites.append(qn)
                if isinstance(node, ast.Call) and isinstance(node.func, ast.Name) \
                        and node.func.id == "setattr" and node.args \
                        and root_name(node.args[0]) == "config":
                    write_sites.append(qn)
        # module-level uses of `config` (outside any function)
        for node in ast.walk(tree):
            if id(node) in covered:
                continue
            if isinstance(node, ast.Subscript) and isinstance(node.value, ast.Name) \
                    and node.value.id == "config":
                (read_sites if isinstance(node.ctx, ast.Load) else write_sites).append(
                    rel + ":<module>")
        base = os.path.basename(rel)
        if base in ("terms.py", "variable.py", "call.py", "matrices.py"):
            for qn, fn in fns.items():
                short = qn.split(".")[-1]
                if short.startswith("eval_new_data") or short == "evaluate_new_data":
                    for w in self_writes(fn):
                        pred_writes.append(f"{qn}: {w}")
                    for node in ast.walk(fn):
                        if isinstance(node, ast.Assign) and render(node.value) == "self.slices":
                            shared_slices.append(qn)
    read_sites = sorted(set(read_sites))
    write_sites = sorted(set(write_sites))

    # ---------------------------------------------------------------------------------------------
    # LazyCall: one transform instance per call node
    # ---------------------------------------------------------------------------------------------
    lazy_writes, lazy_init_none, lazy_guard = [], False, False
    try:
        fns = functions(_src("formulae/terms/call_resolver.py"))
        init = fns.get("LazyCall.__init__")
        ev = fns.get("LazyCall.eval")
        if init is None or ev is None:
            bad("call_resolver.py: LazyCall.__init__/eval not found")
        else:
            for node in ast.walk(init):
                if isinstance(node, ast.Assign) and render(node.value) == "None" and any(
                        render(t) == "self.stateful_transform" for t in node.targets):
                    lazy_init_none = True
            for node in ast.walk(ev):
                for t in targets_of(node) if isinstance(node, ast.stmt) else []:
                    if not isinstance(t, ast.Name):
                        lazy_writes.append(render(t))
                if isinstance(node, ast.Call) and isinstance(node.func, ast.Name) \
                        and node.func.id == "setattr":
                    lazy_writes.append("setattr()")
                if isinstance(node, ast.If):
                    assigns = [s for s in node.body if isinstance(s, ast.Assign) and any(
                        render(t) == "self.stateful_transform" for t in s.targets)]
                    if assigns and "self.stateful_transform is None" in render(node.test) \
                            and all(render(s.value) == "callee()" for s in assigns):
                        lazy_guard = True
    except Exception as e:  # noqa
        bad(f"call_resolver.py: {e}")

    # ---------------------------------------------------------------------------------------------
    # stateful transform classes
    # ---------------------------------------------------------------------------------------------
    unguarded, sets_true, stateful_classes = [], [], []
    try:
        tree = _src("formulae/transforms.py")
        for cls in [n for n in tree.body if isinstance(n, ast.ClassDef)]:
            decorated = any(render(d) == "register_stateful_transform" for d in cls.decorator_list)
            if not decorated:
                continue
            stateful_classes.append(cls.name)
            fns = {n.name: n for n in cls.body if isinstance(n, ast.FunctionDef)}
            for node in ast.walk(cls):
                if isinstance(node, ast.Assign) and render(node.value) == "True" and any(
                        render(t) == "self.params_set" for t in node.targets):
                    sets_true.append(cls.name)
            call = fns.get("__call__")
            if call is None:
                bad(f"transforms.py: {cls.name} has no __call__")
                continue

            def walk(stmts, guarded):
                for s in stmts:
                    if isinstance(s, ast.If):
                        g = guarded or render(s.test) == "not self.params_set"
                        walk(s.body, g)
                        walk(s.orelse, guarded)
                        continue
                    if not guarded:
                        for t in targets_of(s):
                            if not isinstance(t, ast.Name) and root_name(t) == "self":
                                unguarded.append(f"{cls.name}.__call__: {render(t)}")
                    for name in ("body", "orelse", "finalbody"):
                        if hasattr(s, name) and not isinstance(s, ast.If):
                            walk(getattr(s, name), guarded)
            walk(call.body, False)
    except Exception as e:  # noqa
        bad(f"transforms.py: {e}")

    # ---------------------------------------------------------------------------------------------
    # the live registry
    # ---------------------------------------------------------------------------------------------
    registry, stateful_names = [], []
    try:
        import inspect
        import sys
        if REPO not in sys.path:
            sys.path.insert(0, REPO)
        import formulae.transforms as tr
        for k in sorted(tr.TRANSFORMS, key=str):
            v = tr.TRANSFORMS[k]
            kind = "class" if inspect.isclass(v) else (
                "function" if inspect.isfunction(v) or inspect.isbuiltin(v) else "instance")
            registry.append((str(k), kind))
            if inspect.isclass(v) and getattr(v, "__stateful_transform__", False):
                stateful_names.append(str(k))
    except Exception as e:  # noqa
        bad(f"cannot import formulae.transforms: {e}")

    ok = not why
    reason = "" if ok else "  -- " + "; ".join(why).replace("\n", " ")
    fields_lean = "[" + ", ".join(f'("{k}", {lean_strs(v)})' for k, v in fields) + "]"
    registry_lean = "[" + ", ".join(f'("{k}", "{v}")' for k, v in registry) + "]"
    lines = [
        "-- C07: where the library keeps state between calls and who may write it",
        f"def c07ConfigFields : List (String × List String) := {fields_lean}",
        f"def c07ConfigDefaultFirst : Bool := {lean_bool(default_first)}",
        f"def c07ConfigSetattrErrors : Bool := {lean_bool(setattr_ok)}",
        f"def c07ConfigReadSites : List String := {lean_strs(read_sites)}",
        f"def c07ConfigWriteSites : List String := {lean_strs(write_sites)}",
        f"def c07PredictionSelfWrites : List String := {lean_strs(sorted(set(pred_writes)))}",
        f"def c07SharedSlices : List String := {lean_strs(sorted(set(shared_slices)))}",
        f"def c07LazyCallInitNone : Bool := {lean_bool(lazy_init_none)}",
        f"def c07LazyCallGuardedCreate : Bool := {lean_bool(lazy_guard)}",
        f"def c07LazyCallEvalWrites : List String := {lean_strs(sorted(set(lazy_writes)))}",
        f"def c07StatefulClasses : List String := {lean_strs(sorted(stateful_classes))}",
        f"def c07ParamsSetTrue : List String := {lean_strs(sorted(set(sets_true)))}",
        f"def c07UnguardedCallWrites : List String := {lean_strs(sorted(set(unguarded)))}",
        f"def c07Registry : List (String × String) := {registry_lean}",
        f"def c07StatefulNames : List String := {lean_strs(sorted(stateful_names))}",
        f"def c07ShapeOk : Bool := {lean_bool(ok)}{reason}",
        "",
    ]
    return "\n".join(lines)


if __name__ == "__main__":
    print(extract_c07())
