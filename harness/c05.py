"""C05 — group-specific blocks: group indicators x effect columns; lme4 intercept / coding rules."""
from fractions import Fraction

import numpy as np

import designs
from common import Result, ask, rng_for, known_findings

ASSUMPTIONS = [
    "block structure (Spec.C05.check) is evaluated by the Lean driver on the block, the effect "
    "columns and the group labels observed from the real objects",
    "the coding rule of the effects is judged by exact rational rank / column-space comparison with "
    "the complete-indicator coding on fully crossed data (a test, not a theorem: the bridge from "
    "the partition of C03 to rank is mathematics outside Lean)",
]
TRUSTED = ["scipy.linalg.khatri_rao is modelled by the row product (Model/Matrices.lean:khatriRao)"]

EFFECTS = ["1", "x", "f", "x + f", "0 + f", "f:x", "z", "0 + x", "h", "center(x)", "x + z", "C(k)",
           "1 + x", "f:h", "0 + f + h", "f + h", "0 + f:x", "x:z", "S(f)", "T(f, 'b')", "scale(x)"]
GROUPINGS = ["g", "h", "g:h", "C(k)", "g + h", "g/h", "cu", "co", "k", "co:h"]
CORPUS = ["y ~ (f:h | g)", "y ~ (0 + f + h | g)", "y ~ (f | g + h) - (1 | h)", "y ~ (x | g:h)",
          "y ~ (1 | g/h)", "y ~ (0 + f | g)", "y ~ (f + x | co)", "y ~ x + (x | k)"]


def rank(rows):
    m = [[Fraction(v) for v in r] for r in rows]
    rk, c, nr = 0, 0, len(m)
    nc = len(m[0]) if m else 0
    while rk < nr and c < nc:
        piv = next((i for i in range(rk, nr) if m[i][c] != 0), None)
        if piv is None:
            c += 1
            continue
        m[rk], m[piv] = m[piv], m[rk]
        pv = m[rk][c]
        m[rk] = [v / pv for v in m[rk]]
        for i in range(nr):
            if i != rk and m[i][c] != 0:
                f = m[i][c]
                m[i] = [a - f * b for a, b in zip(m[i], m[rk])]
        rk += 1
        c += 1
    return rk


def gen_case(r):
    eff = r.choice(EFFECTS)
    grp = r.choice(GROUPINGS)
    used = set(eff.replace("(", " ").replace(")", " ").replace(":", " ").replace("+", " ").split())
    if used & set(grp.replace("(", " ").replace(")", " ").replace(":", " ").replace("/", " ")
                  .replace("+", " ").split()):
        grp = "g" if "g" not in used else "cu"
    extra = r.choice(["", "", " + x", " + f", " + (1 | cu)"])
    if "cu" in grp:
        extra = extra.replace(" + (1 | cu)", "")
    return f"y ~ ({eff} | {grp})" + extra


def explore(tier, seed, res=None, replay=None):
    from formulae.terms import Intercept
    res = res or Result()
    res.rule = ("effect expressions x grouping expressions x generated frames; non-trivial = a "
                "group-specific term with a non-intercept effect or an interaction grouping; distinct "
                "by formula and frame seed")
    n_cases = 400 if tier == "quick" else 15000
    cases = []
    if replay is not None:
        cases = [(replay["formula"], replay.get("seed_path", 0))]
    else:
        for f in CORPUS:
            cases.append((f, len(cases)))
        for _ in range(n_cases):
            cases.append((None, len(cases)))
    reqs_spec, reqs_model, owners = [], [], []
    for f, path in cases:
        r = rng_for(seed, "c05", path)
        df = designs.gen_frame(r, n=r.randrange(12, 30))
        formula = f or gen_case(r)
        res.evaluations += 1
        obs, req = designs.observe(formula, df, designs.NAMES)
        case = {"formula": formula, "seed_path": path}
        if req is None:
            res.count("impl_error:" + obs["err"])
            continue
        dm = obs["_dm"]
        if dm.group is None:
            res.count("no_group_terms")
            continue
        terms = []
        for name, t in dm.group.terms.items():
            n = dm.group.design_matrix.shape[0]
            x = np.ones(n) if isinstance(t.expr, Intercept) else t.expr.data
            terms.append({"name": name, "factor": [str(c.name) for c in t.factor.components],
                          "groups": list(t.groups), "x": designs.mat(x),
                          "z": designs.mat(dm.group[name])})
        reqs_spec.append({"op": "c05_spec", "formula": formula, "frame": req["frame"],
                          "names": req["names"], "terms": terms})
        reqs_model.append(req)
        owners.append((case, obs, terms))
        if any(not t["name"].startswith("1|") or ":" in t["name"] for t in terms):
            res.nontrivial.add((formula, path))
        if len(res.samples) < 6:
            res.samples.append({"formula": formula, "terms": [t["name"] for t in terms],
                                "groups": terms[0]["groups"]})
    spec = ask(reqs_spec)
    model = ask(reqs_model)
    for (case, obs, terms), sp, mo in zip(owners, spec, model):
        if "err" in sp:
            res.count("spec_skip:" + sp["err"])
        else:
            for t, v in zip(terms, sp["terms"]):
                if "err" in v:
                    res.count("spec_term_skip:" + v["err"] + ":" + str(v.get("what"))[:30])
                    continue
                res.count("group_terms_judged")
                bad = [k for k in ("groups_ok", "blocks_ok", "rows_in_one_group") if not v[k]]
                if bad:
                    res.failures.append({"case": case, "impl": {"term": t["name"], "groups": t["groups"]},
                                         "expected": "block structure", "finding": None,
                                         "why": f"group-specific term {t['name']}: " + ", ".join(bad)})
        if "err" in mo:
            res.count("model_skip:" + mo["err"])
            continue
        res.traces += 1
        diffs = designs.compare(obs, mo)
        if diffs:
            res.mismatches.append({"case": case, "diff": diffs[:5]})
    return res
