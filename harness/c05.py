"""C05 — group-specific blocks: group indicators x effect columns; lme4 intercept / coding rules."""
import warnings
from fractions import Fraction

import numpy as np
import pandas as pd

import designs
from common import Result, ask, rng_for, known_findings

ASSUMPTIONS = [
    "block structure (Spec.C05.check) is evaluated by the Lean driver on the block, the effect "
    "columns and the group labels observed from the real objects",
    "prediction stage: the same block structure (Spec.C05.checkNew = blockRowOk with the training "
    "groups of the term as slots, plus the one appended slot for rows whose cell was not seen in "
    "training) is evaluated by the Lean driver on the per-term blocks read through new[name] (the "
    "derived object's own slices) of group.evaluate_new_data(new frame), under 'silent' / 'warning' "
    "('error' too when nothing is unseen); the cell of every row is computed by Lean from the new "
    "frame, e's values on the new frame are term.expr.eval_new_data(new frame) (C06 is about those); "
    "new frames = training rows with x / z moved to midpoints of training values (non-integer effect "
    "values) and grouping values replaced by one or two unseen labels in the variables of the "
    "earliest grouping factor only, the latest only, all, or a random subset; terms of the class D30 "
    "(sum-coded grouping factor) are not judged in this stage (counted)",
    "the coding rule of the effects is judged by exact rational rank / column-space comparison with "
    "the complete-indicator coding on fully crossed data (a test, not a theorem: the bridge from "
    "the partition of C03 to rank is mathematics outside Lean)",
]
ASSUMPTIONS += [
    "prediction stage, independent of the effect object: for a term none of whose effect variables was "
    "changed in the new frame (row r of the new frame is training row src[r] as far as the effect "
    "goes), e's values on the new rows are NOT asked from term.expr again but read by Lean from the "
    "training block (Spec.C05.trainEffectRows: the own slot of the source row) and the derived block "
    "is judged by Spec.C05.checkNewFromTraining; for every judged term of every new frame the derived "
    "block must have the training slots (+ the appended one iff a cell is unseen), each as wide as at "
    "training (Spec.C05.newWidthOk), and the labels of the derived object's term must still be one "
    "per training column, group-major `<effect column>|<comp[level]:...>` (Spec.C05.labelsOk, also "
    "judged at training); one more new frame per design consists of unchanged training rows",
    "the generator also writes one effect over a sum / nesting of grouping factors together with a "
    "group intercept for only one of the resulting factors, in either order: (1 | A) + (0 + e | A + B), "
    "(0 + e | A/B) + (1 | A:B), (e | A + B) - (1 | B), ...",
    "the coding-rule stage is repeated on group.evaluate_new_data(a copy of the training frame): the "
    "columns of every grouping factor read from the derived object must be independent and span the "
    "same reference space",
]
ASSUMPTIONS += [
    "re-evaluation stage (the lower-level public entry point): for a share of the designs ONE model "
    "description, formulae.model_description(formula), is evaluated twice, "
    "formulae.matrices.DesignMatrices(model, first frame, env) and then DesignMatrices(model, second "
    "frame, env) on the same Model object, where the second frame is the first with its rows permuted, "
    "a bootstrap resample of it, the first with the values of the grouping variables relabelled / "
    "reassigned to other rows / one group merged into another, or a frame generated afresh of the same "
    "or of another length (frames restricted to the variables the formula uses, no missing values: "
    "what design_matrices hands over); the SECOND design is judged by the same block-structure "
    "predicate Spec.C05.check (groups, blocks, rows in one group, labels) computed by Lean from the "
    "second frame, with the effect columns read from the second design's own terms; a second "
    "evaluation that raises where design_matrices(formula, second frame) gives a design is a failure; "
    "terms of the class D30 are not judged in this stage (counted)",
]
ASSUMPTIONS += [
    "prediction stage, declared categories of the new frame: for every design whose formula uses a "
    "pandas categorical column (the ordered `co`, the unordered `cu`; bare or through C() / T() / S(), "
    "as grouping factor, inside an interaction grouping, or as effect) one more new frame is made of "
    "training rows whose categorical columns DECLARE another category list than at training: the levels "
    "that do not occur in the new rows are dropped (all of them or some), declared order kept; for the "
    "unordered column now and then the declared list is also reordered; every value was seen at "
    "training, nothing else is unseen unless a non-categorical grouping variable gets an unseen label.  "
    "The judge is the same Spec.C05.checkNew / checkNewFromTraining (slots = the training groups of the "
    "term, cell of a row = its label); the effect's variables count as unchanged (the values are the "
    "source rows' values), so the effect rows are read from the training block.  60 (thorough: 800) "
    "more designs are generated over these columns only (family `o`)",
]
ASSUMPTIONS += [
    "grouping factors that are interactions of THREE or FOUR categorical variables: 60 (thorough: 1000) "
    "more designs (family `w`) plus a small corpus whose grouping factor is a:b:c / a:b:c:d over f (3 "
    "levels), g (4), h (2), cu (3), co (3), k (3 integer ids) in any order of the components (so the "
    "level count of a middle component differs from the last one's most of the time), also written as "
    "the nesting a/b/c (factors a, a:b, a:b:c), with a component through C(), or next to a two-way "
    "factor over the same variables; judged by the same Spec.C05.check (cells in lexicographic order of "
    "the components' levels, every row non-zero only in the slot of its own cell), and by all the later "
    "stages (prediction, re-evaluation) like every other design",
]
ASSUMPTIONS += [
    "zero-width blocks: 90 (thorough: 1500) more designs (family `z`, plus a small corpus `zc`) on frames in "
    "which one or two of the categorical columns f, h, g, cu, co, k are left with ONE level in the data (the "
    "frame was cut down to one arm; for the pandas categoricals with or without the unused declared "
    "categories), besides the one-level column `one`: 1-3 group-specific terms whose effect side mixes such "
    "a factor (bare, through C(), in an interaction with a numeric or another factor, two of them) with "
    "ordinary effects, the zero-width effect written first / in the middle / last, with and without the group "
    "intercept, over the same and over other grouping factors (now and then a one-level grouping factor: "
    "a single group); under reduced coding such an effect has no column, so its block has the width groups x 0 "
    "= 0 and the blocks around it must still be theirs.  Judged by the same Spec.C05.check (blockRowOk: width "
    "= groups x effect columns, including 0; labels: one per column, so none) and by all later stages "
    "(prediction with unseen groups, re-evaluation).  For this family every block is read twice, through "
    "group[name] and as design_matrix[:, slices[name]], at training time and on every object returned by "
    "evaluate_new_data, and both readings are judged",
]
TRUSTED = ["scipy.linalg.khatri_rao is modelled by the row product (Model/Matrices.lean:khatriRao)"]

EFFECTS = ["1", "x", "f", "x + f", "0 + f", "f:x", "z", "0 + x", "h", "center(x)", "x + z", "C(k)",
           "1 + x", "f:h", "0 + f + h", "f + h", "0 + f:x", "x:z", "S(f)", "T(f, 'b')", "scale(x)",
           "bs(x, df=4)", "0 + poly(z, 2)", "poly(x, 3, raw=True)", "bs(z, df=3):f", "0 + bs(x, df=3, degree=2)"]
GROUPINGS = ["g", "h", "g:h", "C(k)", "g + h", "g/h", "cu", "co", "k", "co:h", "T(g, 'v')"]
# grouping factors that ask for sum-to-zero coding (known finding D30), drawn now and then
SUM_GROUPINGS = ["S(g)", "C(h, Sum)", "g:S(h)"]
WAY_CORPUS = ["y ~ (x | h:f:k)", "y ~ (1 | g:f:h)", "y ~ (0 + x | h/cu/g)", "y ~ (z | f:h:g:k)",
              "y ~ (x | co:g:h)"]
CORPUS = ["y ~ (1 | g) + (0 + f | g + h)", "y ~ (0 + h | g/f) + (1 | g:f)", "y ~ (f:h | g)", "y ~ (0 + f + h | g)", "y ~ (f | g + h) - (1 | h)", "y ~ (x | g:h)",
          "y ~ (1 | g/h)", "y ~ (0 + f | g)", "y ~ (f + x | co)", "y ~ x + (x | k)",
          "y ~ (1 | S(g))", "y ~ (x | C(h, Sum))", "y ~ (1 | T(g, 'v'))",
          # several grouping factors, effects with non-integer values (prediction stage: slots and
          # slices of later terms when an earlier / later / every factor gets an unseen group)
          "y ~ (z | g) + (0 + z | k) + (1 | h)", "y ~ (0 + h | g) + (1 | k)",
          "y ~ (center(x) | cu) + (z | g:h)", "y ~ (x + z | C(k)) + (1 | f) + (z | co)"]


def rank(rows):
    m = [[Fraction(v) for v in r] for r in rows]
    rk, c, nr = 0, 0, len(m)
    nc = len(m[0]) if m else 0
    while rk < nr and c < nc:
        piv = next((i for i in range(rk, nr) if m[i][c] != 0), None)
        if piv is None:
            c += 1
            continue
        m[rk], m[piv] = m[piv], m[rk]
        pv = m[rk][c]
        m[rk] = [v / pv for v in m[rk]]
        for i in range(nr):
            if i != rk and m[i][c] != 0:
                f = m[i][c]
                m[i] = [a - f * b for a, b in zip(m[i], m[rk])]
        rk += 1
        c += 1
    return rk


MULTI_EFFECTS = ["f", "h", "cu", "co", "C(k)", "f + x", "x", "f:x", "bs(x, df=3)", "T(f, 'b')", "f + z",
                 "S(f)", "x + z"]
FACTOR_POOL = ["g", "h", "f", "cu", "co", "k", "C(k)"]


def _vars(expr):
    for ch in "()+:/,'":
        expr = expr.replace(ch, " ")
    return set(expr.split())


def gen_multi(r):
    """one effect distributed over a sum / nesting of grouping factors, with a group intercept for
    only one of the factors that result (written before or after), or with the distributed
    intercepts of all the other factors removed again"""
    eff = r.choice(MULTI_EFFECTS)
    pool = [v for v in FACTOR_POOL if not (_vars(v) & _vars(eff))]
    a = r.choice(pool)
    pool = [v for v in pool if not (_vars(v) & _vars(a))]
    b = r.choice(pool)
    pool = [v for v in pool if not (_vars(v) & _vars(b))]
    shape = r.choice(["sum", "sum", "nest", "sum3"])
    if shape == "sum3" and pool:
        c = r.choice(pool)
        grp, factors = f"{a} + {b} + {c}", [a, b, c]
    elif shape == "nest":
        grp, factors = f"{a}/{b}", [a, f"{a}:{b}"]
    else:
        grp, factors = f"{a} + {b}", [a, b]
    own = r.choice(factors)
    style = r.choice(["icpt_first", "icpt_last", "minus", "icpt_first", "icpt_last"])
    if style == "minus":            # implicit intercepts for all factors, all but one removed
        return f"y ~ ({eff} | {grp})" + "".join(f" - (1 | {x})" for x in factors if x != own)
    slope = f"(0 + {eff} | {grp})"
    icpt = f"(1 | {own})"
    extra = r.choice(["", "", " + x", " + f"])
    return "y ~ " + (f"{icpt} + {slope}" if style == "icpt_first" else f"{slope} + {icpt}") + extra


CAT_GROUPINGS = ["co", "cu", "C(co)", "C(cu)", "T(co, 'mid')", "co:h", "C(co):h", "g:C(co)", "T(cu, 'm1')",
                 "C(co) + g", "C(cu):g", "T(co, 'hi')", "g/C(co)", "h", "g", "S(co)"]
CAT_EFFECTS = ["1", "x", "0 + C(co)", "C(co)", "T(co, 'mid')", "S(co)", "co", "0 + co", "C(cu)", "cu",
               "C(co):x", "0 + T(cu, 'm2')", "f", "z", "0 + x", "x + C(co)", "0 + S(cu)"]
PANDAS_CATEGORICALS = ("co", "cu")


def gen_categorical_case(r):
    """a group-specific term over the pandas categorical columns: as grouping factor (bare, through
    C() / T() / S(), inside an interaction / a sum / a nesting) or as effect"""
    cols = {"co", "cu", "f", "g", "h", "x", "z", "k"}
    while True:
        eff, grp = r.choice(CAT_EFFECTS), r.choice(CAT_GROUPINGS)
        if _vars(eff) & _vars(grp) & cols:
            continue
        if (_vars(eff) | _vars(grp)) & set(PANDAS_CATEGORICALS):
            break
    extra = r.choice(["", "", " + x", " + (1 | h)"])
    if _vars(extra) & _vars(grp) & cols:
        extra = ""
    return f"y ~ ({eff} | {grp})" + extra


# level counts in designs.gen_frame: f 3, g 4, h 2, cu 3, co 3, k 3 (integer ids)
WAY_VARS = ["f", "g", "h", "cu", "co", "k"]
WAY_EFFECTS = ["1", "x", "z", "0 + x", "x + z", "1 + x", "center(x)", "x:z", "f", "0 + f", "h", "f:x",
               "C(k)", "0 + h", "cu", "g"]


def gen_multiway(r):
    """a group-specific term whose grouping factor is an interaction of THREE or FOUR categorical
    variables with unequal level counts (any order of the components: the level count of a middle
    component differs from the last one's most of the time), written as a:b:c, as a nesting a/b/c
    (factors a, a:b, a:b:c), with a component wrapped in C(), or next to a two-way factor"""
    eff = r.choice(WAY_EFFECTS)
    pool = [v for v in WAY_VARS if v not in _vars(eff)]
    k = 3 if r.random() < 0.7 else 4
    comps = r.sample(pool, min(k, len(pool)))
    if r.random() < 0.25:                       # one component through C()
        i = r.randrange(len(comps))
        comps[i] = f"C({comps[i]})"
    shape = r.choice(["inter", "inter", "inter", "nest", "inter+two"])
    if shape == "nest":
        grp = "/".join(comps[:3])
    elif shape == "inter+two":
        grp = ":".join(comps) + " + " + ":".join(r.sample(comps, 2))
    else:
        grp = ":".join(comps)
    extra = r.choice(["", "", " + x", " + (1 | " + comps[0] + ")"])
    if shape == "nest" and "(1 |" in extra and eff != "0 + x":
        extra = ""                             # (a/b/c already holds the factor a)
    return f"y ~ ({eff} | {grp})" + extra


def redeclare_categories(r, nd, cols):
    """-> {column: declared list}: the pandas categorical columns `cols` of the new frame `nd` declare
    another category list than at training: levels that do not occur in `nd` are dropped (all / some),
    order kept; an unordered column is now and then declared in another order"""
    out = {}
    for c in cols:
        dt = nd[c].dtype
        if not isinstance(dt, pd.CategoricalDtype):
            continue
        cats = list(dt.categories)
        present = set(nd[c].tolist())
        absent = [l for l in cats if l not in present]
        drop = set(absent if r.random() < 0.6 else r.sample(absent, r.randrange(0, len(absent) + 1)))
        new = [l for l in cats if l not in drop]
        if not dt.ordered and r.random() < 0.3:
            r.shuffle(new)
        if new != cats:
            nd[c] = pd.Categorical(nd[c].tolist(), categories=new, ordered=bool(dt.ordered))
            out[c] = [str(l) for l in new]
    return out

# ------------------------------------------------------------------------------------------------
# zero-width blocks: a categorical effect with ONE level in the data has no column under reduced
# coding (group intercept present); its block is groups x 0 wide and every other block of the
# matrix must still be the Kronecker rows of its own term (family `z`)
# ------------------------------------------------------------------------------------------------
COLLAPSIBLE = ["f", "h", "g", "cu", "co", "k"]
ZERO_CORPUS = ["y ~ (one + x | g)", "y ~ (one | g) + (x | h)", "y ~ (x + one:z | g:h) + (1 | k)",
               "y ~ x + (f + one + z | h) + (0 + x | g)", "y ~ (one | g) + (0 + z | g) + (one:x | h)"]


def is_zero_path(path):
    return str(path).startswith("z")


def collapse_levels(r, df):
    """-> (frame, one-level columns): one or two of the categorical columns keep a single level in the
    data (every row gets a drawn level of the column); a pandas categorical keeps its declared
    categories or -- more often -- declares the remaining level only.  `one` is such a column already"""
    out = df.copy()
    chosen = r.sample(COLLAPSIBLE, r.choice([1, 1, 2]))
    for c in chosen:
        col = out[c]
        if isinstance(col.dtype, pd.CategoricalDtype):
            lv = r.choice(list(col.dtype.categories))
            cats = [lv] if r.random() < 0.7 else list(col.dtype.categories)
            out[c] = pd.Categorical([lv] * len(out), categories=cats, ordered=bool(col.dtype.ordered))
        else:
            lv = r.choice(sorted(set(col.tolist())))
            out[c] = [lv] * len(out)
    return out, sorted(chosen) + ["one"]


def gen_zero_width(r, single):
    """1-3 group-specific terms; the effect side of at least one holds a factor with one level in the
    data (zero columns under reduced coding) before / between / after ordinary effects"""
    multi = [v for v in ("f", "h", "cu", "co") if v not in single]

    def zero_piece(free):
        s = r.choice([v for v in single if v in free] or ["one"])
        pool = [s, s, f"C({s})", f"{s}:x", f"x:{s}", f"{s}:z"]
        pool += [f"{s}:{s2}" for s2 in single if s2 != s and s2 in free]
        pool += [f"{s}:{m}" for m in multi if m in free] + [f"{m}:{s}" for m in multi if m in free]
        return r.choice(pool)

    def plain_piece(free):
        pool = ["x", "z", "x", "z", "center(x)", "x:z", "I(x + 1)"]
        pool += [m for m in multi if m in free] + [f"{m}:x" for m in multi if m in free]
        return r.choice(pool)

    groupings = ["g", "h", "g:h", "C(k)", "k", "cu", "co", "g + h", "g/h", "f", "co:h"]
    terms, used_factors = [], []
    n_terms = r.choice([1, 1, 2, 2, 3])
    for i in range(n_terms):
        if used_factors and r.random() < 0.35:
            grp = r.choice(used_factors)                       # another term of the same grouping factor
        elif r.random() < 0.15:
            grp = r.choice([v for v in single if v != "one"] or ["one"])     # a single group
        else:
            grp = r.choice(groupings)
        free = set(single + multi + ["one"]) - _vars(grp)
        pieces = []
        n_zero = r.choice([1, 1, 2]) if (i == 0 or r.random() < 0.6) else 0
        for _ in range(n_zero):
            pieces.append(zero_piece(free))
        for _ in range(r.choice([0, 1, 1, 2]) if pieces else r.choice([1, 2])):
            pieces.append(plain_piece(free))
        pieces = list(dict.fromkeys(pieces))
        r.shuffle(pieces)
        icpt = r.choice(["", "", "", "1 + ", "0 + "]) if grp not in used_factors else \
            r.choice(["0 + ", "0 + ", ""])
        terms.append(f"({icpt}{' + '.join(pieces)} | {grp})")
        used_factors.append(grp)
    common = r.choice(["", "", "x + ", "one + ", "f + ", "0 + x + "])
    return "y ~ " + common + " + ".join(terms)


def via_slices(terms, group):
    """the same blocks read as design_matrix[:, slices[name]] (same judge, other reading)"""
    dmx = np.asarray(group.design_matrix)
    out = []
    for t in terms:
        sl = group.slices[t["name"]]
        out.append(dict(t, z=designs.mat(dmx[:, sl]),
                        via=f"design_matrix[:, slices[{t['name']!r}]] = columns {sl.start}:{sl.stop}"))
    return out


def term_labels(t):
    try:
        labs = t.labels
        return None if labs is None else [str(l) for l in labs]
    except Exception:  # noqa
        return None


def gen_case(r):
    eff = r.choice(EFFECTS)
    grp = r.choice(GROUPINGS) if r.random() < 0.92 else r.choice(SUM_GROUPINGS)
    used = set(eff.replace("(", " ").replace(")", " ").replace(":", " ").replace("+", " ").split())
    if used & set(grp.replace("(", " ").replace(")", " ").replace(":", " ").replace("/", " ")
                  .replace("+", " ").split()):
        grp = "g" if "g" not in used else "cu"
    extra = r.choice(["", "", " + x", " + f", " + (1 | cu)"])
    if "cu" in grp:
        extra = extra.replace(" + (1 | cu)", "")
    return f"y ~ ({eff} | {grp})" + extra


RULE_EFFECTS = ["1", "x", "f", "h", "x + f", "0 + f", "0 + x", "f + h", "0 + f + h", "f:h", "f:x",
                "0 + f:x", "x + z", "f + x + f:x", "f + h + f:h", "0 + f:h", "1 + f", "x + f:x",
                "f*h", "0 + f + x", "x:z", "f:h:x"]


def crossed_frame(r):
    import pandas as pd
    rows = []
    for g in ["u", "v", "w"]:
        for f in ["a", "b", "c"]:
            for h in ["p", "q"]:
                for _ in range(2):
                    rows.append({"g": g, "f": f, "h": h, "x": float(r.randrange(-9, 10)),
                                 "z": r.randrange(-9, 10) / 2, "y": float(r.randrange(-5, 6))})
    r.shuffle(rows)
    return pd.DataFrame(rows)


def full_indicator_reference(df, term_exprs, grouping):
    """khatri_rao(J_g, X_full): every effect term coded with the complete set of level indicators"""
    n = len(df)
    cols = []
    for comps in term_exprs:            # comps: list of variable names, [] = intercept
        block = [np.ones(n)]
        for v in comps:
            if df[v].dtype == object or str(df[v].dtype).startswith("str"):
                ind = [np.asarray(df[v] == l, dtype=float) for l in sorted(df[v].unique())]
            else:
                ind = [np.asarray(df[v], dtype=float)]
            block = [a * b for a in block for b in ind]
        cols += block
    x = np.column_stack(cols)
    j = np.column_stack([np.asarray(df[grouping] == l, dtype=float) for l in sorted(df[grouping].unique())])
    return np.column_stack([j[:, a] * x[:, b] for a in range(j.shape[1]) for b in range(x.shape[1])])


def coding_rule_stage(res, tier, seed, open_ids):
    """second clause of the statement, on fully crossed data: for every grouping factor, the columns
    of its terms are linearly independent and span all group-by-cell means of the effect expression
    (exact rank)"""
    import formulae
    from formulae.terms import Intercept
    n_rep = 1 if tier == "quick" else 6
    for rep in range(n_rep):
        r = rng_for(seed, "c05", "rule", rep)
        df = crossed_frame(r)
        forms = [f"y ~ ({eff} | g)" for eff in RULE_EFFECTS] + [
            "y ~ (0 + h | g) + (1 | g)", "y ~ (1 | g) + (0 + h | g)",
            "y ~ (0 + x | g) + (0 + f | g) + (1 | g)", "y ~ (0 + f | g) + (x | g)",
            "y ~ x + (0 + f | g) + f + (1 | g)", "y ~ (0 + f:h | g) + (0 + x | g)",
            # several grouping factors: the coding of one must not depend on the others
            "y ~ (x | g) + (0 + h | f)", "y ~ (0 + h | f) + (x | g)", "y ~ (1 | g) + (0 + h | g + f)",
            "y ~ (x | f) + (0 + x | g) + (0 + h | g)", "y ~ (h | g) + (0 + f | h)",
            # one effect over a sum / nesting of factors, group intercept for one of them only
            "y ~ (0 + h | g + f) + (1 | f)", "y ~ (0 + f | h/g) + (1 | h)", "y ~ (f | g + h) - (1 | h)",
            "y ~ (1 | g) + (0 + f + x | g + h)", "y ~ (1 | h) + (0 + f | g + h) + x"]
        for formula in forms:
            res.evaluations += 1
            case = {"formula": formula, "seed_path": f"rule{rep}"}
            try:
                dm = formulae.design_matrices(formula, df)
            except Exception as e:  # noqa
                res.count("rule_impl_error:" + type(e).__name__)
                continue
            all_terms = list(dm.group.terms.values())
            # the same columns read from the object derived for (a copy of) the training frame
            try:
                with warnings.catch_warnings():
                    warnings.simplefilter("ignore")
                    new = dm.group.evaluate_new_data(df.copy())
            except Exception as e:  # noqa  (C06's subject)
                new = None
                res.count("rule_prediction_error:" + type(e).__name__)
            factors = []
            for t in all_terms:
                if t.factor.name not in factors:
                    factors.append(t.factor.name)
            for fac in factors:
                if ":" in fac:
                    continue
                terms = [t for t in all_terms if t.factor.name == fac]
                z_train = np.column_stack([dm.group[t.name] for t in terms])
                sources = [("training", z_train)]
                if new is not None:
                    z_new = np.column_stack([np.asarray(new[t.name]) for t in terms])
                    if z_new.shape == z_train.shape and np.array_equal(z_new, z_train):
                        res.count("rule_cases: evaluate_new_data(training frame) gives the training "
                                  "columns (same verdict)")
                    else:
                        sources.append(("group.evaluate_new_data(training frame)", z_new))
                exprs, flags = [], []
                for t in terms:
                    if isinstance(t.expr, Intercept):
                        exprs.append([])
                    else:
                        exprs.append([str(c.name) for c in t.expr.components])
                        flags.append([t.name, [[str(c.name), bool(c.spans_intercept)]
                                               for c in t.expr.components if c.kind == "categoric"]])
                ref = full_indicator_reference(df, exprs, fac)
                rr = rank(ref.tolist())
                for src, z in sources:
                    rz = rank(z.tolist())
                    rj = rank(np.column_stack([z, ref]).tolist())
                    res.count("rule_cases")
                    ok = rz == z.shape[1] and rz == rr == rj
                    res.nontrivial.add((formula, fac, rep))
                    has_icpt = any(isinstance(t.expr, Intercept) for t in terms)
                    if ok:
                        continue
                    # recorded defect classes D11 / D12: the rule the code uses ("reduced iff (1 | g) is
                    # in the model") differs from the common-effects analysis (C03) of the effect family,
                    # decided by the Lean driver
                    fam = []
                    for t in terms:
                        if isinstance(t.expr, Intercept):
                            fam.append({"i": True})
                        else:
                            fam.append({"c": [[str(c.name), "c" if c.kind == "categoric" else "n", False]
                                              for c in t.expr.components]})
                    used = [[":".join(str(c.name) for c in t.expr.components),
                             [[str(c.name), bool(c.spans_intercept)] for c in t.expr.components
                              if c.kind == "categoric"]]
                            for t in terms if not isinstance(t.expr, Intercept)]
                    rule = ask([{"op": "c05_rule", "family": fam, "used": used}])[0]
                    cls = None
                    # (b) the flags must be the ones the recorded rule predicts (Model/Pipeline.lean:
                    # reduced iff (1 | same factor) is among the group terms); a different deviation
                    # from the C03 analysis is not the recorded defect
                    predicted = all(fl == (not has_icpt) for _, cf in flags for _, fl in cf)
                    if not rule["agrees"] and predicted:
                        cls = "KF-C05-D11" if rule.get("has_intercept") else "KF-C05-D12"
                    fid = cls if cls in open_ids else None
                    if fid:
                        res.known_hit[fid] = res.known_hit.get(fid, 0) + 1
                    res.failures.append({"case": dict(case, factor=fac, columns_of=src),
                                         "impl": {"columns": int(z.shape[1]), "rank": rz,
                                                  "rank_reference": rr, "rank_joint": rj, "flags": flags},
                                         "expected": "independent columns spanning the group-by-cell means",
                                         "finding": fid,
                                         "why": f"columns of grouping factor {fac} ({src}): {z.shape[1]} columns, "
                                                f"rank {rz}, reference space rank {rr}, joint rank {rj}"})


GROUP_VARS = ["f", "g", "h", "cu", "co", "k"]


def new_frames(r, df, dm, n_new, r_plain=None, r_cats=None):
    """-> [(new frame, mode, {var: [rows]}, source rows, moved columns)]: rows of the training frame;
    numeric columns moved to midpoints of training values (stay inside the training range, mostly
    non-integer); grouping values replaced by unseen labels (one or two distinct ones per variable) in
    the variables of the earliest grouping factor only, the latest only, all of them, a random subset,
    or none.  With `r_plain` one more frame, drawn from that generator, whose numeric columns are NOT
    moved (unchanged training rows apart from the unseen grouping labels).  With `r_cats` (given when
    the formula uses a pandas categorical column) one more frame whose categorical columns declare
    another category list than at training (`redeclare_categories`; 6th item of the tuple)."""
    factors = []                                  # variables of each grouping factor, in term order
    for t in dm.group.terms.values():
        vs = sorted(v for v in t.factor.var_names if v in GROUP_VARS)
        if vs and vs not in factors:
            factors.append(vs)
    allv = sorted({v for vs in factors for v in vs})
    out = []
    cat_used = [v for v in PANDAS_CATEGORICALS if v in dm.model.var_names]
    plan = [(r, True, False)] * n_new + ([(r_plain, False, False)] if r_plain is not None else [])
    if r_cats is not None and cat_used:
        plan.append((r_cats, r_cats.random() < 0.5, True))
    for r, may_move, recat in plan:
        idx = [r.randrange(len(df)) for _ in range(r.randrange(3, 9))]
        nd = df.iloc[idx].reset_index(drop=True).copy()
        moved = []
        for col in ("x", "z") if may_move else ():
            if r.random() < 0.7:
                nd[col] = [(float(a) + float(df[col].iloc[r.randrange(len(df))])) / 2 for a in nd[col]]
                moved.append(col)
        pattern = r.choice(["first", "last", "all", "subset", "subset", "none"]) if allv else "none"
        chosen = {"first": factors[0] if factors else [], "last": factors[-1] if factors else [],
                  "all": allv, "none": [],
                  "subset": [v for v in allv if r.random() < 0.5]}[pattern]
        if recat:                   # the categorical columns keep their (seen) values
            chosen = [v for v in chosen if v not in PANDAS_CATEGORICALS] if r.random() < 0.4 else []
        placed = {}
        for v in chosen:
            rows = sorted(r.sample(range(len(nd)), r.randrange(1, len(nd) // 2 + 1)))
            labels = [99, 77] if v == "k" else ["NEW_" + v, "NEW2_" + v]
            if v != "k":
                nd[v] = nd[v].astype(object)
            two = r.random() < 0.3
            for i, k in enumerate(rows):
                nd.loc[k, v] = labels[i % 2] if two else labels[0]
            placed[v] = rows
        mode = r.choice(["silent", "warning"] if placed else ["silent", "warning", "error"])
        declared = redeclare_categories(r, nd, cat_used) if recat else {}
        out.append((designs.scramble_index(r, nd), mode, placed, idx, moved, declared))
    return out


def prediction_requests(r, formula, df, dm, req, n_new, res, r_plain=None, r_cats=None,
                        both_readings=False):
    """-> [(case extension, c05_new_spec request)] for the objects returned by
    group.evaluate_new_data on generated new frames"""
    import formulae
    from formulae.terms import Intercept
    out = []
    used_cols = [c for c in df.columns if c in dm.model.var_names]
    train_frame = designs.frame_json(designs.dm_frame(dm, df)[used_cols])
    for j, (nd, mode, placed, idx, moved, declared) in enumerate(
            new_frames(r, df, dm, n_new, r_plain, r_cats)):
        if declared:
            res.count("new frames whose categorical columns declare another category list")
        old = formulae.config["EVAL_UNSEEN_CATEGORIES"]
        formulae.config["EVAL_UNSEEN_CATEGORIES"] = mode
        changed = set(moved) | set(placed)
        try:
            with warnings.catch_warnings():
                warnings.simplefilter("ignore")
                new = dm.group.evaluate_new_data(nd)
                terms = []
                for name, t in dm.group.terms.items():
                    x = np.ones(len(nd)) if isinstance(t.expr, Intercept) else t.expr.eval_new_data(nd)
                    term = {"name": name, "factor": [str(c.name) for c in t.factor.components],
                            "groups": list(t.groups), "x": designs.mat(x),
                            "z": designs.mat(new[name]),
                            "train_width": int(np.asarray(dm.group[name]).shape[1]),
                            "labels": term_labels(new.terms[name])}
                    # no variable of the effect was changed: e's values on the new rows are those of
                    # the source rows, read by Lean from the training block (not from t.expr)
                    if isinstance(t.expr, Intercept) or not (set(t.expr.var_names) & changed):
                        term["z_train"] = designs.mat(dm.group[name])
                    terms.append(term)
                if both_readings:           # ... and as design_matrix[:, slices[name]] of the derived object
                    terms += via_slices(terms, new)
                slices = [[k, sl.start, sl.stop] for k, sl in new.slices.items()]
        except Exception as e:  # noqa  (whether a new frame may be refused is C10's subject)
            res.count("prediction_error:" + type(e).__name__)
            continue
        finally:
            formulae.config["EVAL_UNSEEN_CATEGORIES"] = old
        res.count("prediction_objects")
        used = sorted(v for v in dm.model.var_names if v in nd.columns)
        out.append((dict({"stage": "prediction", "new": j, "mode": mode, "source_rows": idx,
                          "moved": moved, "unseen": {v: rows for v, rows in placed.items()}},
                         **({"declared_categories_of_the_new_frame": declared} if declared else {})),
                    {"op": "c05_new_spec", "_rows": {v: nd[v].tolist() for v in used},
                     "_slices": slices, "formula": formula, "frame": designs.frame_json(nd),
                     "train_frame": train_frame, "src": idx,
                     "names": req["names"], "terms": terms}))
    return out


def judge_new(res, owners_new, reqs_new):
    """Spec.C05.checkNew / checkNewFromTraining / newWidthOk / labelsOk on the derived objects"""
    if not reqs_new:
        return
    for case, rq, sp in zip(owners_new, reqs_new, ask(reqs_new)):
        if "err" in sp:
            res.count("prediction_spec_skip:" + sp["err"])
            continue
        for t, v in zip(rq["terms"], sp["terms"]):
            if v.get("class_d30"):
                res.count("prediction_term_skip:class-D30 (sum-coded grouping factor)")
                continue
            if "err" in v:
                res.count("prediction_term_skip:" + v["err"] + ":" + str(v.get("what"))[:40])
                continue
            res.count("prediction_terms_judged" + ("_with_unseen_group" if v["any_unseen"] else ""))
            if case["unseen"]:
                res.nontrivial.add((case["formula"], case["seed_path"], "new", case["new"]))
            if v.get("from_training"):
                res.count("prediction_terms_judged_against_the_training_block")
            bad = [k for k in ("blocks_ok", "width_ok", "labels_ok") if v.get(k) is False]
            if bad:
                res.failures.append({
                    "case": case, "finding": None,
                    "impl": {"term": t["name"], "groups": t["groups"], "new_frame": rq["_rows"],
                             "slices": rq["_slices"], "labels": t["labels"],
                             "training_columns": t["train_width"],
                             "columns": len(t["z"][0]) if t["z"] else 0,
                             "effect_values": "own slot of the source rows in the training block"
                             if v.get("from_training") else "term.expr.eval_new_data(new frame)",
                             "x": None if v.get("from_training") else t["x"], "z": t["z"]},
                    "expected": "every row non-zero only in the slot of its own group (the appended "
                                "slot for an unseen group), carrying e's values there; slots as wide "
                                "as at training; one label per training column",
                    "why": f"block {t['name']} of group.evaluate_new_data(new frame) read through "
                           + t.get("via", "new[name]") + ": " + ", ".join(bad) + " violated"})


SECOND_FRAMES = ["permuted", "resampled", "relabelled", "reassigned", "merged", "fresh-same-length",
                 "fresh-other-length"]


def second_frame(r, df, kind):
    """another frame for the second evaluation of one model description"""
    n = len(df)
    if kind == "permuted":
        idx = list(range(n))
        r.shuffle(idx)
        return designs.scramble_index(r, df.iloc[idx])
    if kind == "resampled":
        return designs.scramble_index(r, df.iloc[[r.randrange(n) for _ in range(n)]])
    if kind == "fresh-same-length":
        return designs.gen_frame(r, n=n)
    if kind == "fresh-other-length":
        return designs.gen_frame(r, n=r.choice([m for m in range(10, 31) if m != n]))
    out = df.copy()
    for v in ("g", "h", "k", "cu", "co", "f"):
        col = out[v]
        is_cat = isinstance(col.dtype, pd.CategoricalDtype)
        vals = col.tolist()
        levels = list(col.dtype.categories) if is_cat else sorted(set(vals))
        if kind == "relabelled" and v in ("g", "h", "k"):       # other group labels (f, cu, co: levels
            ren = {l: (l + 20 if v == "k" else "r_" + l[::-1] + str(i % 2))   # named by effect calls)
                   for i, l in enumerate(levels)}
            vals = [ren[x] for x in vals]
        elif kind == "reassigned":                                # the same labels on other rows
            r.shuffle(vals)
        elif kind == "merged" and len(levels) > 2 and v in ("g", "k", "cu", "co"):
            gone, into = r.sample(levels, 2)
            vals = [into if x == gone else x for x in vals]
            levels = [l for l in levels if l != gone]
        out[v] = pd.Categorical(vals, categories=levels, ordered=bool(col.dtype.ordered)) if is_cat \
            else vals
    return out


def reevaluation_request(formula, df1, df2, names):
    """one model description evaluated on df1, then on df2 -> (error class or None, c05_spec request
    for the SECOND design or None)"""
    from formulae import model_description
    from formulae.environment import Environment
    from formulae.matrices import DesignMatrices
    from formulae.terms import Intercept
    ns = dict(names)
    ns.setdefault("np", np)
    env = Environment.capture(0).with_outer_namespace(ns)
    with warnings.catch_warnings():
        warnings.simplefilter("ignore")
        model = model_description(formula)

        def used(d):
            return d[[c for c in d.columns if c in model.var_names]]
        DesignMatrices(model, used(df1), env)
        try:
            dm = DesignMatrices(model, used(df2), env)
        except Exception as e:  # noqa
            return type(e).__name__, None
    if dm.group is None:
        return None, None
    terms = []
    n = dm.group.design_matrix.shape[0]
    for name, t in dm.group.terms.items():
        x = np.ones(n) if isinstance(t.expr, Intercept) else t.expr.data
        terms.append({"name": name, "factor": [str(c.name) for c in t.factor.components],
                      "groups": list(t.groups), "x": designs.mat(x),
                      "z": designs.mat(dm.group[name]), "labels": term_labels(t)})
    return None, {"op": "c05_spec", "formula": formula, "frame": designs.frame_json(used(df2)),
                  "names": designs.names_json(names), "terms": terms}


def judge_reevaluations(res, owners, reqs):
    if not reqs:
        return
    for (case, df2), rq, sp in zip(owners, reqs, ask(reqs)):
        if "err" in sp:
            res.count("reevaluation_spec_skip:" + sp["err"])
            continue
        for t, v in zip(rq["terms"], sp["terms"]):
            if "err" in v:
                res.count("reevaluation_term_skip:" + v["err"] + ":" + str(v.get("what"))[:30])
                continue
            if v.get("class_d30"):
                res.count("reevaluation_term_skip:class-D30 (sum-coded grouping factor)")
                continue
            res.count("reevaluation_terms_judged")
            res.nontrivial.add((case["formula"], case["seed_path"], "second evaluation"))
            bad = [k for k in ("groups_ok", "blocks_ok", "rows_in_one_group") if not v[k]]
            if v.get("labels_ok") is False:
                bad.append("labels_ok")
            if bad:
                gv = sorted({c for c in t["factor"] if c in df2.columns})
                res.failures.append({
                    "case": case, "finding": None,
                    "impl": {"term": t["name"], "groups": t["groups"], "labels": t.get("labels"),
                             "second_frame": {c: [str(x) for x in df2[c].tolist()] for c in gv},
                             "x": t["x"], "z": t["z"]},
                    "expected": "block structure computed from the second frame",
                    "why": f"group-specific term {t['name']} of the second DesignMatrices(model, frame, "
                           "env) on one model description: " + ", ".join(bad)})


def explore(tier, seed, res=None, replay=None):
    from formulae.terms import Intercept
    res = res or Result()
    res.rule = ("effect expressions x grouping expressions x generated frames; non-trivial = a "
                "group-specific term with a non-intercept effect or an interaction grouping; distinct "
                "by formula and frame seed; each design followed by 2 (thorough: 3) new frames with "
                "unseen groups in the earliest / latest / all / some grouping factors and non-integer "
                "effect values plus one frame of unchanged training rows, block structure / slot "
                "widths / labels judged on the derived objects' per-term blocks (effect values read "
                "from the training block where the effect's variables are unchanged); 80 (thorough: "
                "1500) more designs with one effect over a sum / nesting of grouping factors and a "
                "group intercept for only one of the factors; 60 (thorough: 800) more designs over the "
                "pandas categorical columns (ordered / unordered; bare, C(), T(), S(); grouping factor or "
                "effect), 60 (thorough: 1000) more designs whose grouping factor is an interaction / nesting of "
                "three or four categorical variables with unequal level counts (f 3, g 4, h 2, cu 3, co 3, "
                "k 3) in any component order, 90 (thorough: 1500) more designs on frames in which one or two "
                "categorical columns have ONE level in the data, with 1-3 group-specific terms whose effects mix "
                "such factors (zero-width blocks under reduced coding) with ordinary effects in any order, over "
                "the same / other / single-group grouping factors, every block read through group[name] and "
                "through the slices at training time and after evaluate_new_data, and for every design that uses a pandas categorical column one more new frame of training "
                "rows whose categorical columns declare another category list (absent levels dropped, "
                "order kept; unordered: now and then reordered); for 40% of the designs one model description "
                "(model_description + DesignMatrices) evaluated on the frame and then on a second frame "
                "(permuted / resampled / relabelled / reassigned / merged groups / fresh), the second "
                "design judged by the block structure; coding-rule stage on the training "
                "matrix and on evaluate_new_data(training frame)")
    n_cases = 400 if tier == "quick" else 11000
    cases = []
    if replay is not None:
        cases = [(replay["formula"], replay.get("seed_path", 0))]
    else:
        for f in CORPUS:
            cases.append((f, len(cases)))
        for _ in range(n_cases):
            cases.append((None, len(cases)))
        for i in range(80 if tier == "quick" else 1500):
            cases.append((None, f"m{i}"))
        for i in range(60 if tier == "quick" else 800):
            cases.append((None, f"o{i}"))
        for i, f in enumerate(WAY_CORPUS):
            cases.append((f, f"wc{i}"))
        for i in range(60 if tier == "quick" else 1000):
            cases.append((None, f"w{i}"))
        for i, f in enumerate(ZERO_CORPUS):
            cases.append((f, f"zc{i}"))
        for i in range(90 if tier == "quick" else 1500):
            cases.append((None, f"z{i}"))
    reqs_spec, reqs_model, owners = [], [], []
    reqs_new, owners_new = [], []
    reqs_re, owners_re = [], []
    for f, path in cases:
        r = rng_for(seed, "c05", path)
        df = designs.gen_frame(r, n=r.randrange(12, 30))
        single = None
        if is_zero_path(path):          # (before the formula is drawn: a replay makes the same frame)
            df, single = collapse_levels(r, df)
            res.count("formulas: effects over factors with one level in the data (zero-width blocks)")
        formula = f or (gen_zero_width(r, single) if single else
                        gen_multi(r) if str(path).startswith("m") else
                        gen_categorical_case(r) if str(path).startswith("o") else
                        gen_multiway(r) if str(path).startswith("w") else gen_case(r))
        if str(path).startswith("w"):
            res.count("formulas: grouping factor = interaction of three / four categorical variables "
                      "with unequal level counts")
        if str(path).startswith("o"):
            res.count("formulas: pandas categorical columns as grouping factor / effect (bare, C, T, S)")
        if str(path).startswith("m"):
            res.count("formulas: one effect over a sum / nesting of factors, intercept for one only")
        res.evaluations += 1
        obs, req = designs.observe(formula, df, designs.NAMES)
        case = {"formula": formula, "seed_path": path}
        if single:
            case["columns_with_one_level_in_the_data"] = {c: str(df[c].iloc[0]) for c in single}
        if req is None:
            res.count("impl_error:" + obs["err"])
            continue
        dm = obs["_dm"]
        if dm.group is None:
            res.count("no_group_terms")
            continue
        terms = []
        for name, t in dm.group.terms.items():
            n = dm.group.design_matrix.shape[0]
            x = np.ones(n) if isinstance(t.expr, Intercept) else t.expr.data
            terms.append({"name": name, "factor": [str(c.name) for c in t.factor.components],
                          "groups": list(t.groups), "x": designs.mat(x),
                          "z": designs.mat(dm.group[name]), "labels": term_labels(t)})
        if single:
            for t in terms:
                if t["z"] and not t["z"][0]:
                    res.count("zero-width blocks judged" + (
                        "" if t["name"] == list(dm.group.terms)[-1] else " (followed by another block)"))
            terms += via_slices(terms, dm.group)        # the same blocks read through the slices
        reqs_spec.append({"op": "c05_spec", "formula": formula, "frame": req["frame"],
                          "names": req["names"], "terms": terms})
        reqs_model.append(req)
        owners.append((case, obs, terms))
        # the objects derived for new frames (own PRNG stream: the training stage is unchanged)
        for ext, rq in prediction_requests(rng_for(seed, "c05", "new", path), formula, df, dm,
                                           req, 2 if tier == "quick" else 3, res,
                                           rng_for(seed, "c05", "new-plain", path),
                                           rng_for(seed, "c05", "new-categories", path),
                                           both_readings=bool(single)):
            reqs_new.append(rq)
            owners_new.append(dict(case, **ext))
        # re-evaluation stage: one model description evaluated on this frame, then on another one
        rv = rng_for(seed, "c05", "re-evaluation", path)
        u_rv, kind2 = rv.random(), rv.choice(SECOND_FRAMES)
        if replay is not None or u_rv < 0.4:
            df2 = second_frame(rv, df, kind2)
            case2 = dict(case, stage="second evaluation of one model description "
                                     "(model_description + DesignMatrices twice)", second_frame=kind2)
            res.count("re-evaluations:" + kind2)
            try:
                err2, rq2 = reevaluation_request(formula, df, df2, designs.NAMES)
            except Exception as e:  # noqa  (the FIRST evaluation through this entry point is refused)
                err2, rq2 = None, None
                res.count("reevaluation_first_refused:" + type(e).__name__)
            if err2 is not None:
                fresh, _ = designs.observe(formula, df2, designs.NAMES)
                if "err" in fresh:
                    res.count("reevaluation_refused_like_a_fresh_design:" + err2)
                else:
                    res.failures.append({
                        "case": case2, "finding": None, "impl": {"error": err2},
                        "expected": "a design (design_matrices(formula, second frame) gives one)",
                        "why": f"the second DesignMatrices(model, frame, env) on one model description "
                               f"raises {err2}"})
            elif rq2 is not None:
                reqs_re.append(rq2)
                owners_re.append((case2, df2))
        if len(reqs_new) >= 600:         # (bounded memory: the requests carry the training blocks)
            judge_new(res, owners_new, reqs_new)
            reqs_new, owners_new = [], []
        if any(not t["name"].startswith("1|") or ":" in t["name"] for t in terms):
            res.nontrivial.add((formula, path))
        if len(res.samples) < 6:
            res.samples.append({"formula": formula, "terms": [t["name"] for t in terms],
                                "groups": terms[0]["groups"]})
    spec = ask(reqs_spec)
    model = ask(reqs_model)
    open_ids = {k["id"] for k in known_findings("C05")}
    for (case, obs, terms), sp, mo in zip(owners, spec, model):
        # the whole-design model where it applies (effects over modelled atoms); otherwise the
        # model's prediction of the group names alone
        model_differs = "err" not in mo and bool(designs.compare(obs, mo))
        if "err" in sp:
            res.count("spec_skip:" + sp["err"])
        else:
            for t, v in zip(terms, sp["terms"]):
                if "err" in v:
                    res.count("spec_term_skip:" + v["err"] + ":" + str(v.get("what"))[:30])
                    continue
                res.count("group_terms_judged")
                bad = [k for k in ("groups_ok", "blocks_ok", "rows_in_one_group") if not v[k]]
                if v.get("labels_ok") is False and not v.get("class_d30"):
                    bad.append("labels_ok")
                if v.get("labels_ok") is not None and not v.get("class_d30"):
                    res.count("term_labels_judged")
                if bad:
                    # D30: known only inside the Lean class (a grouping component asks for Sum
                    # coding) and only when the implementation's groups (and, where the effects
                    # are modelled, its whole design) equal the model's, which mirrors the defect
                    fid = None
                    if (v.get("class_d30") and not model_differs and "KF-C05-D30" in open_ids
                            and v.get("model_groups") == t["groups"]):
                        fid = "KF-C05-D30"
                        res.known_hit[fid] = res.known_hit.get(fid, 0) + 1
                    res.failures.append({"case": case, "impl": {"term": t["name"], "groups": t["groups"],
                                                                "labels": t.get("labels"),
                                                                "slices": (obs.get("group") or {}).get("slices"),
                                                                "columns": len(t["z"][0]) if t["z"] else 0,
                                                                "effect_columns": len(t["x"][0]) if t["x"] else 0},
                                         "expected": "block structure", "finding": fid,
                                         "why": f"group-specific term {t['name']}"
                                                + (f" read as {t['via']}" if "via" in t else "")
                                                + ": " + ", ".join(bad)})
                elif v.get("class_d30"):
                    res.count("inside-class-D30-but-holds")
        if "err" in mo:
            res.count("model_skip:" + mo["err"])
            continue
        res.traces += 1
        diffs = designs.compare(obs, mo)
        if diffs:
            res.mismatches.append({"case": case, "diff": diffs[:5]})
    judge_new(res, owners_new, reqs_new)
    judge_reevaluations(res, owners_re, reqs_re)
    if replay is None or str(replay.get("seed_path", "")).startswith("rule"):
        coding_rule_stage(res, tier, seed, {k["id"] for k in known_findings("C05")})
    return res
