"""C04 — every design-matrix column holds exactly what its label says."""
import re

import designs
from common import Result, ask, rng_for, known_findings

ASSUMPTIONS = [
    "besides the evaluation model fed with the observed coding decisions, the whole pipeline composed "
    "in Lean (Model/Pipeline.lean: scanner, parser, term algebra, NA step, redundancy analysis, "
    "evaluation) is run on formula + data alone and compared with the real design",
    "the label decoder (Spec.C04.decodeLabel) is evaluated by the Lean driver on the labels and "
    "matrices the implementation returned; columns whose label the statement does not define "
    "(sum-coded factors, columns of a spline/polynomial basis, prop) are counted as skipped",
    "prediction stage: the matrices returned by common/group.evaluate_new_data carry the training "
    "labels and are judged by the same decoder (Spec.C04.checkAt) on the NEW frame's data; a call "
    "atom is read with the transform state of the training frame (center keeps the training mean); "
    "refusals of evaluate_new_data (levels= / ordered boxes on a frame lacking a level, D13) are "
    "counted, not judged (they belong to C06 / C10)",
    "prediction with unseen levels: one more new frame per design (when it uses a categorical "
    "variable) in which some rows of one to three used categorical variables hold a level no training "
    "row has (strings sorting before / between / after the training levels, integers for k; "
    "Categorical columns keep their dtype with the new label declared, or arrive as plain objects), "
    "evaluated under EVAL_UNSEEN_CATEGORIES = 'silent' or 'warning'; judged by the same decoder on the "
    "new frame (v[l] is 1 exactly where v equals l, hence 0 on rows holding an unseen level, also inside "
    "':' products and e|g[l]).  The group part is read term by term there: the training labels of a term "
    "name the first len(labels) columns of its block new[name]; columns appended for new groups carry no "
    "label and are not judged here (C05 / C10 judge them)",
    "term-by-term reading: besides the whole matrix next to the concatenated labels, every design "
    "(training, and every evaluate_new_data result) is read through the slices -- dm.common[name], "
    "dm.group[name], new[name] -- next to term.labels: the block of a term must have exactly as many "
    "columns as the term has labels (none for a zero-column term such as the one-level factor `one` "
    "under reduced coding) and each must hold what its label says (same decoder)",
    "one frame object evaluated repeatedly: for every design with a group-specific term (and a quarter of "
    "the others) a new frame (4-12 rows drawn from the training frame) is given to "
    "common/group.evaluate_new_data, then edited IN PLACE twice (the DataFrame object stays the same) and "
    "evaluated again after each edit: new values (levels / numbers of the training frame) in some or all "
    "rows of one to three used columns -- a grouping variable at the first edit, effect variables, "
    "numeric and categorical; by df[v] = ... or df.iloc[rows, j] = ... -- and / or an in-place "
    "reordering of the rows (sort_values / sort_index with inplace=True, or every column rewritten in "
    "permuted order); every evaluation is judged by the same decoder on the contents the frame has at "
    "that moment",
    "missing values (na_action='drop', the default): about a third of the cases build one more design "
    "from the training frame with NaN / None written into some rows of one to three USED float / "
    "string / Categorical columns, under a default, a permuted or a NON-UNIQUE index (complete rows "
    "sharing their label with incomplete ones).  The harness selects the complete rows itself (pd.isna "
    "over the used columns of the caller's frame, by position) and the same decoder judges the "
    "response, common and group matrices and every term's block against that frame: as many rows as "
    "complete rows, every column what its label says on those rows, levels (those observed on the "
    "complete rows) in sorted / declared order",
    "caller-supplied call atoms: extra cases whose formulas contain calls fn(v) of functions handed "
    "over through extra_namespace that return categoric values -- plain strings, an unordered pandas "
    "Categorical (Series or bare) whose declared categories are unsorted, one with never-observed "
    "categories, one with both, an ordered Categorical with an unsorted declared order -- alone, in "
    "':' products, as effect or grouping factor of a group-specific term; all stages (training, "
    "prediction, unseen levels, in-place edits, missing values) run on them.  The harness, which owns "
    "the functions, hands their results on each judged frame to the driver as extra frame columns "
    "named like the atom; the decoder reads fn(v)[l] as the indicator of `result == l` and the level "
    "order of fn(v)[..] labels is judged against that result column (sorted for strings / unordered "
    "Categoricals, declared order for ordered ones; labels of never-observed categories are not "
    "levels the statement orders, and an all-zero column under such a label is what the label says)",
    "numeric data are small integers / dyadic rationals; entries are compared with relative "
    "tolerance 1e-9 because center() divides by the number of rows",
    "integer id columns bare inside grouping factors: 60 (thorough: 800) extra cases plus a small corpus "
    "whose group-specific terms have a grouping factor holding the integer column `k` (ids 1, 2, 10) or "
    "`kz` (ids -1, 0, 1) NOT wrapped in C() -- `|` makes its right side a factor -- inside an interaction "
    "with str / Categorical columns in any position ((x | h:k), (1 | k:g), (0 + z | g:k:h), (f | kz:h), "
    "(co | k:kz)) and now and then alone, next to a generated common part; all stages (training, "
    "prediction on same / permuted / repeated / subset frames, unseen levels, in-place edits, missing "
    "values) run on them and are judged by the same decoder: e|h[p]:k[10] is e where h == 'p' and k == "
    "10, on the new frame too; a block of group.evaluate_new_data whose column count differs from the "
    "number of labels of its term is a failure ('number of labels differs'), never skipped",
]
TRUSTED = ["pandas dtype inference, Categorical codes and numpy fancy indexing as modelled in "
           "Model/Matrices.lean"]

# ------------------------------------------------------------------------------------------------
# caller-supplied functions (handed over through the namespace): a call atom `fn(v)` that is not a
# C / T / S box and returns categoric values
# ------------------------------------------------------------------------------------------------
def _tag(x):
    """an injective relabelling that reverses the sorted order of labels starting with a letter"""
    x = str(x)
    c = x[0].lower()
    return ("zyxwvutsrqponmlkjihgfedcba"[ord(c) - 97] if "a" <= c <= "z" else "_") + x


def _tags(v):
    return [_tag(x) for x in v]


def _decl(xs):
    """a fixed total order on the labels that is not the sorted one (restricted to the observed
    values: the declared order of a result does not depend on which other values are present)"""
    return sorted(set(xs), key=lambda t: (ord(t[-1]) % 3, t))


def _like(v, cat, raw=False):
    import pandas as pd
    return cat if raw else pd.Series(cat, index=v.index)


def u_str(v):
    """plain strings"""
    import pandas as pd
    return pd.Series(_tags(v), index=v.index)


def u_cat(v):
    """unordered Categorical whose declared categories are not in sorted order"""
    import pandas as pd
    x = _tags(v)
    return _like(v, pd.Categorical(x, categories=_decl(x)))


def u_raw(v):
    """the same, returned as a bare pandas Categorical (no Series around it)"""
    import pandas as pd
    x = _tags(v)
    return pd.Categorical(x, categories=_decl(x))


def u_unused(v):
    """unordered Categorical, declared categories sorted, three of them never observed"""
    import pandas as pd
    x = _tags(v)
    return _like(v, pd.Categorical(x, categories=sorted(set(x) | {"0_no", "nn_no", "zzz_no"})))


def u_both(v):
    """unordered Categorical, declared categories unsorted and some never observed"""
    import pandas as pd
    x = _tags(v)
    return _like(v, pd.Categorical(x, categories=["zzz_no"] + _decl(x) + ["0_no"]))


def u_ord(v):
    """ordered Categorical with a declared order that is not the sorted one"""
    import pandas as pd
    x = _tags(v)
    return _like(v, pd.Categorical(x, categories=_decl(x), ordered=True))


USER_FNS = {"u_str": u_str, "u_cat": u_cat, "u_raw": u_raw, "u_unused": u_unused, "u_both": u_both,
            "u_ord": u_ord}
USER_RE = re.compile(r"\b(u_[a-z]+)\((\w+)\)")
NAMES = dict(designs.NAMES, **USER_FNS)        # the namespace every design of this check is built in


def user_columns(formula, frame):
    """frame-JSON columns holding, for every caller-supplied call atom `fn(v)` of the formula, the
    function's result on `frame` (computed by the harness, which owns the function), named like
    the atom: the level source of the labels `fn(v)[l]`"""
    import pandas as pd
    cols, seen = [], set()
    for fn, v in USER_RE.findall(formula):
        name = f"{fn}({v})"
        if name in seen or fn not in USER_FNS or v not in frame.columns:
            continue
        seen.add(name)
        try:
            res = USER_FNS[fn](frame[v])
        except Exception:  # noqa
            continue
        arr = res.array if isinstance(res, pd.Series) else res
        cols.extend(designs.frame_json(pd.DataFrame({name: pd.Series(arr)}))["cols"])
    return cols


def with_user(fj, formula, frame):
    extra = user_columns(formula, frame)
    return {"cols": list(fj["cols"]) + extra} if extra else fj


def gen_user_formula(r):
    """a generated formula plus one or two terms over caller-supplied call atoms `fn(v)`: alone, in
    ':' products with numeric / categorical pieces (either order), as the effect or the grouping
    factor of a group-specific term"""
    base = designs.gen_formula(r, response=r.choice(["y", "y", "yc"]), max_terms=2)
    terms = []
    for _ in range(r.randrange(1, 3)):
        v = r.choice(["f", "g", "h", "cu", "co"])
        atom = f"{r.choice(sorted(USER_FNS))}({v})"
        others = [c for c in ("f", "g", "h", "cu", "C(k)") if c != v]
        k = r.random()
        if k < 0.45:
            t = atom
        elif k < 0.6:
            t = r.choice([f"{atom}:{{n}}", f"{{n}}:{atom}"]).format(n=r.choice(["x", "z", "center(x)"]))
        elif k < 0.75:
            t = r.choice([f"{atom}:{{c}}", f"{{c}}:{atom}"]).format(c=r.choice(others))
        elif k < 0.9:
            t = f"({r.choice(['0 + ', ''])}{atom} | {r.choice([c for c in ('g', 'h') if c != v])})"
        else:
            t = f"({r.choice(['1', 'x'])} | {atom})"
        if t not in terms:
            terms.append(t)
    head, rhs = base.split(" ~ ", 1)
    if r.random() < 0.5:
        return f"{head} ~ " + " + ".join(terms) + " + " + rhs
    return f"{head} ~ {rhs} + " + " + ".join(terms)


# ------------------------------------------------------------------------------------------------
# grouping factors holding an INTEGER id column bare (not through C()): `|` makes it a factor
# ------------------------------------------------------------------------------------------------
INTID_GROUPS = ["h:k", "k:g", "k:h", "f:k", "k:cu", "co:k", "g:k:h", "h:k:f", "k", "kz", "kz:h", "g:kz",
                "k:kz", "cu:kz:h"]
INTID_EFFECTS = ["1", "x", "z", "0 + x", "f", "x + f", "0 + f", "center(x)", "h", "f:x", "1 + z", "g",
                 "0 + z", "co"]
INTID_CORPUS = ["y ~ x + (x | h:k)", "y ~ (1 | k:g)", "y ~ f + (0 + z | g:k:h)", "y ~ (f | kz:h)"]


def _names(expr):
    return set(re.findall(r"[A-Za-z_][A-Za-z_0-9]*", expr))


def gen_intid_formula(r):
    """a generated common part (no group term; `k` occurs there through C() only) plus one or two
    group-specific terms whose grouping factor holds the integer id column `k` (levels 1, 2, 10) or
    `kz` (levels -1, 0, 1) bare: mostly inside an interaction with str / Categorical columns, in any
    position, now and then alone"""
    base = designs.gen_formula(r, response=r.choice(["y", "y", "yc"]), allow_group=False, max_terms=2)
    head, rhs = base.split(" ~ ", 1)
    keep = [rhs]
    terms, seen = [], set()
    for _ in range(r.randrange(1, 3)):
        for _ in range(20):
            eff, grp = r.choice(INTID_EFFECTS), r.choice(INTID_GROUPS)
            if not (_names(eff) & _names(grp)) and grp not in seen:
                break
        else:
            continue
        seen.add(grp)
        terms.append(f"({eff} | {grp})")
    parts = keep + terms
    r.shuffle(parts)
    return f"{head} ~ " + " + ".join(parts)


# ------------------------------------------------------------------------------------------------
# frames with missing values in used columns (na_action='drop', the default)
# ------------------------------------------------------------------------------------------------
NA_VARS = ["x", "z", "y", "f", "g", "h", "yc", "cu", "co"]    # float / str / Categorical columns
NA_SHARE = 0.35                                               # share of the cases given such a frame


def na_frame(r, df, used):
    """the rows of `df` with missing values written into one to three USED float / string /
    Categorical columns (NaN; None or NaN in a string column), under a fresh default / permuted /
    NON-UNIQUE index.  returns (frame, {variable: [row positions]}) or None"""
    import numpy as np
    import pandas as pd
    cands = [v for v in NA_VARS if v in used and v in df.columns]
    if not cands:
        return None
    n = len(df)
    nd = df.reset_index(drop=True).copy()
    holes = {}
    for v in r.sample(cands, r.randrange(1, min(3, len(cands)) + 1)):
        rows = sorted(r.sample(range(n), r.randrange(1, max(2, n // 4 + 1))))
        vals = nd[v].tolist()
        dt = df[v].dtype
        textual = not isinstance(dt, pd.CategoricalDtype) and not pd.api.types.is_numeric_dtype(dt)
        for k in rows:
            vals[k] = None if textual and r.random() < 0.5 else np.nan
        if isinstance(dt, pd.CategoricalDtype):
            nd[v] = pd.Categorical(vals, dtype=dt)
        elif textual and r.random() < 0.5:
            nd[v] = pd.Series(vals, dtype=object)
        else:
            nd[v] = vals
        holes[v] = rows
    return designs.scramble_index(r, nd), holes


def na_parts(formula, nadf):
    """design_matrices(formula, nadf) with the default na_action: the labels and matrices of the
    response, common and group parts and of every term's block; the exception's class name if the
    implementation refuses"""
    import warnings
    import formulae
    try:
        with warnings.catch_warnings():
            warnings.simplefilter("ignore")
            dm = formulae.design_matrices(formula, nadf, extra_namespace=dict(NAMES, np=__import__("numpy")))
    except Exception as e:  # noqa
        return type(e).__name__
    out = []
    if dm.response is not None:
        labs = designs._labels([dm.response.term.term])
        if labs is not None:
            out.append(("response", {"labels": labs, "matrix": fast_mat(dm.response.design_matrix)}))
    for part in ("common", "group"):
        obj = getattr(dm, part)
        if obj is None:
            continue
        labs = designs._labels(list(obj.terms.values()))
        if labs is not None:
            out.append((part, {"labels": labs, "matrix": fast_mat(obj.design_matrix)}))
        out.extend((pn, p) for pn, p in term_blocks(obj, part) if "err" not in p)
    return out


CORPUS = [
    "y ~ f:g:h", "y ~ h:f:x", "y ~ 0 + f:h", "y ~ g:f + x", "y ~ co + cu", "y ~ C(k):f",
    "y ~ (x | g)", "y ~ (f | g)", "y ~ (0 + f | g:h)", "y ~ (x + f | h) + f", "yc ~ x", "yc[yes] ~ f",
    "y ~ 0 + (h + z)*x", "y ~ T(f, 'b'):x:h", "y ~ C(f, levels=lv_f)", "y ~ (f:x | C(k))",
    "y ~ co:f", "y ~ (1 | co) + (x | cu)", "y ~ f + g + f:g + x:f", "y ~ (z | k)",
]
# caller-supplied call atoms (placed after the generated cases so that those keep their streams)
USER_CORPUS = [
    "y ~ u_str(f) + x", "y ~ 0 + u_cat(g):x + u_unused(h)", "y ~ u_ord(f) + (1 | u_both(g))",
    "y ~ (u_raw(h) | g) + f",
]


def parts_of(obs):
    out = []
    for part in ("response", "common", "group"):
        o = obs.get(part)
        if o is None or o.get("labels") is None:
            continue
        out.append((part, {"labels": o["labels"], "matrix": o["matrix"]}))
    return out


def new_frames(r, df):
    """frames for the prediction stage ("every design" includes the matrices evaluate_new_data
    returns; they carry the training labels): the training frame itself, a row-permuted copy, a
    longer frame made of repeated rows (all three contain every level of the training frame), and
    a random sub-frame (levels may be missing, statistics differ)"""
    n = len(df)
    perm = list(range(n))
    r.shuffle(perm)
    rep = list(range(n)) + [r.randrange(n) for _ in range(r.randrange(1, n + 1))]
    r.shuffle(rep)
    sub = sorted(r.sample(range(n), r.randrange(1, n + 1)))
    r.shuffle(sub)
    first = ("same", df) if r.random() < 0.5 else ("permuted", designs.scramble_index(r, df.iloc[perm]))
    return [first, ("repeated", designs.scramble_index(r, df.iloc[rep])),
            ("subset", designs.scramble_index(r, df.iloc[sub]))]


UNSEEN_VARS = ["f", "g", "h", "cu", "co", "k"]       # categorical columns of the generated frames
UNSEEN_MODES = ("silent", "warning")                  # the policies under which unseen levels evaluate


def unseen_frame(r, df, used):
    """rows of the training frame in which some rows of some USED categorical variables hold a
    level that no training row has (a label sorting before, between or after the training levels;
    an integer for `k`).  String columns stay strings; a Categorical column keeps its dtype with
    the new label declared somewhere among the categories (relative order of the training
    categories kept) or, if unordered, is handed over as plain objects.
    returns (new frame, {variable: [row positions]}) or None when no categorical variable is used"""
    import pandas as pd
    cands = [v for v in UNSEEN_VARS if v in used and v in df.columns]
    if not cands:
        return None
    idx = [r.randrange(len(df)) for _ in range(r.randrange(2, 10))]
    nd = df.iloc[idx].reset_index(drop=True).copy()
    placed = {}
    for v in r.sample(cands, r.randrange(1, min(3, len(cands)) + 1)):
        rows = sorted(r.sample(range(len(nd)), r.randrange(1, max(2, len(nd) // 2 + 1))))
        label = r.choice([99, 0, 5]) if v == "k" else r.choice(["NEW_", "0_", "zz_", "k_"]) + v
        vals = nd[v].tolist()
        for k in rows:
            vals[k] = label
        dt = df[v].dtype
        if isinstance(dt, pd.CategoricalDtype):
            if not dt.ordered and r.random() < 0.5:
                nd[v] = pd.Series(vals, dtype=object)
            else:
                cats = list(dt.categories)
                cats.insert(r.randrange(len(cats) + 1), label)
                nd[v] = pd.Categorical(vals, categories=cats, ordered=bool(dt.ordered))
        else:
            nd[v] = vals
        placed[v] = rows
    return designs.scramble_index(r, nd), placed


def predict_parts(dm, nd, mode=None):
    """evaluate_new_data of the common and the group part; labels as the new objects report them.
    `mode`: the unseen-level policy in force during the evaluation (None = leave the default);
    with a mode, the group part is read term by term: the training labels of a term name the
    first len(labels) columns of its block (columns appended for new groups carry no label)"""
    import warnings
    import formulae
    import numpy as np
    out = []
    old = formulae.config["EVAL_UNSEEN_CATEGORIES"]
    if mode is not None:
        formulae.config["EVAL_UNSEEN_CATEGORIES"] = mode
    try:
        for part in ("common", "group"):
            obj = getattr(dm, part)
            if obj is None:
                continue
            try:
                with warnings.catch_warnings():
                    warnings.simplefilter("ignore")
                    new = obj.evaluate_new_data(nd)
                labels = designs._labels(list(new.terms.values()))
                if labels is None:
                    continue
                matrix = new.design_matrix
                if mode is not None and part == "group":
                    blocks, labels = [], []
                    for name, t in new.terms.items():
                        labs = list(t.labels)
                        block = np.asarray(new[name])
                        blocks.append(block[:, :len(labs)])
                        labels.extend(labs)
                    matrix = np.column_stack(blocks) if blocks else matrix
                out.append((part, {"labels": labels, "matrix": fast_mat(matrix)}))
                # the same matrix read term by term through the slices (new[name])
                out.extend(term_blocks(new, part, exact=not (mode is not None and part == "group")))
            except Exception as e:  # noqa  (refusals on new data belong to C06 / C10)
                out.append((part, {"err": type(e).__name__}))
    finally:
        formulae.config["EVAL_UNSEEN_CATEGORIES"] = old
    return out


_FRAC = {}


def fast_mat(a):
    """designs.mat with the exact fraction of every distinct entry computed once (same output)"""
    import numpy as np
    a = np.asarray(a)
    if a.ndim == 1:
        a = a[:, None]
    out = []
    for row in a.tolist():
        r = []
        for v in row:
            try:
                r.append(_FRAC[v])
            except KeyError:
                f = designs.frac(v)
                if f is not None:
                    _FRAC[v] = f
                r.append(f)
        out.append(r)
    return out


def bad_text(first_bad):
    if first_bad is not None and first_bad.startswith("number of labels"):
        return "the number of labels differs from the number of columns of the (sub-)matrix"
    return f"column labelled {first_bad!r} does not hold what the label says"


def term_blocks(obj, part, exact=True):
    """the matrix read term by term THROUGH THE SLICES (`obj[name]`, the access the library offers
    for pairing names with columns) next to `term.labels`: one part per term, whose block must
    have exactly the term's labels' columns (a term with no label owns no column), each holding
    what its label says.  `exact=False` (group part evaluated with unseen levels): only the
    first len(labels) columns of the block carry a label (columns appended for new groups)"""
    import numpy as np
    out = []
    for name, t in obj.terms.items():
        labs = designs._labels([t])
        if labs is None:
            continue
        try:
            block = np.asarray(obj[name])
        except Exception as e:  # noqa
            out.append((f"{part}[{name}]", {"err": type(e).__name__}))
            continue
        if block.ndim == 1:
            block = block[:, None]
        if not exact:
            block = block[:, :len(labs)]
        out.append((f"{part}[{name}]", {"labels": list(labs), "matrix": fast_mat(block)}))
    return out


def grouping_vars(dm):
    out = []
    if dm.group is not None:
        for t in dm.group.terms.values():
            for v in t.factor.var_names:
                if v not in out:
                    out.append(v)
    return out


def set_column(r, nd, df, v, rows, vals):
    """write `vals` into the rows `rows` (positions) of column `v` of the frame object `nd`,
    IN PLACE (the frame object stays the same): whole-column assignment or positional setting"""
    import pandas as pd
    cur = nd[v].tolist()
    for k, x in zip(rows, vals):
        cur[k] = x
    dt = df[v].dtype
    if r.random() < 0.5 and not isinstance(dt, pd.CategoricalDtype):
        nd.iloc[rows, nd.columns.get_loc(v)] = vals
        return "iloc"
    if isinstance(dt, pd.CategoricalDtype):
        nd[v] = pd.Categorical(cur, dtype=dt)
    else:
        nd[v] = pd.array(cur, dtype=dt)
    return "setitem"


def inplace_edit(r, nd, df, used, grouping, force_group):
    """one in-place edit of the frame object `nd` (a frame that has been evaluated before and
    will be evaluated again): new values (levels / numbers of the training frame, so that nothing
    is unseen) in some rows of one to three USED columns -- a grouping variable first when
    `force_group` --, an in-place reordering of the rows, or both.  Returns a description."""
    n = len(nd)
    kind = r.choice(["values", "values", "reorder", "both"])
    done = []
    if kind in ("values", "both"):
        cands = [v for v in used if v in nd.columns and v in df.columns]
        gv = [v for v in grouping if v in cands]
        chosen = []
        if gv and (force_group or r.random() < 0.5):
            chosen.append(r.choice(gv))
        for v in r.sample(cands, min(len(cands), r.randrange(1, 4))):
            if v not in chosen and len(chosen) < 3:
                chosen.append(v)
        for v in chosen:
            pool = df[v].tolist()
            if r.random() < 0.4:
                rows = list(range(n))
            else:
                rows = sorted(r.sample(range(n), r.randrange(1, n + 1)))
            if r.random() < 0.3:                 # a permutation of the column's current values
                cur = nd[v].tolist()
                vals = [cur[k] for k in rows]
                r.shuffle(vals)
            else:
                vals = [r.choice(pool) for _ in rows]
            how = set_column(r, nd, df, v, rows, vals)
            done.append(f"{v}:{how}:{len(rows)}")
    if kind in ("reorder", "both"):
        how = r.choice(["sort_values", "sort_index", "columns"])
        if how == "sort_values":
            by = r.choice([c for c in ("x", "z", "y", "k", "f", "g", "h") if c in nd.columns])
            nd.sort_values(by=by, ascending=r.random() < 0.5, inplace=True, kind="stable")
            done.append(f"rows:sort_values({by})")
        elif how == "sort_index":
            nd.sort_index(ascending=r.random() < 0.5, inplace=True, kind="stable")
            done.append("rows:sort_index")
        else:                                    # every column rewritten in a permuted row order
            perm = list(range(n))
            r.shuffle(perm)
            for c in list(nd.columns):
                col = nd[c]
                nd[c] = col.array.take(perm)
            done.append("rows:permuted")
    return done


def explore(tier, seed, res=None, replay=None):
    res = res or Result()
    res.rule = ("generated (formula, frame) designs: main effects, interactions of arity <= 3 in "
                "random factor order over str / Categorical / ordered Categorical / integer-via-C "
                "columns with unequal level counts, group-specific terms; non-trivial = a design "
                "with an interaction or a group-specific term; distinct by formula.  Prediction stage: "
                "common.evaluate_new_data / group.evaluate_new_data of every design on the training "
                "frame itself, a row-permuted copy, a longer frame of repeated rows (all levels "
                "present) and a random sub-frame, judged by the same label decoder on the new frame's "
                "data (call atoms keep their training-time transform state); plus a frame in which "
                "some rows of used categorical variables hold levels unseen at training, evaluated "
                "under the 'silent' / 'warning' policy (labelled columns judged, appended new-group "
                "columns not); plus one frame object evaluated, edited in place (values of used grouping "
                "/ effect columns, row order) and evaluated again, twice, each time judged on its "
                "contents at that moment.  Every matrix is also read term by term through the slices "
                "(dm.common[name], dm.group[name], new[name]) next to term.labels (zero-column terms "
                "of the one-level factor `one` included).  About a third of the cases also build the "
                "design from a copy of the frame with missing values in used float / str / Categorical "
                "columns under a default / permuted / non-unique index (na_action='drop'), judged "
                "against the complete rows selected by the harness.  Extra cases use call atoms fn(v) of "
                "caller-supplied functions returning strings / unordered Categoricals with unsorted or "
                "never-observed declared categories / ordered Categoricals (result handed to the "
                "decoder as a frame column).  Further extra cases have group-specific terms whose grouping "
                "factor holds an integer id column (k, kz) bare, mostly inside an interaction with str / "
                "Categorical columns (all stages)")
    n_cases = 600 if tier == "quick" else 9000
    n_user = 70 if tier == "quick" else 600
    n_intid = 60 if tier == "quick" else 800
    cases = []
    if replay is not None:
        cases = [(replay["formula"], replay.get("seed_path", 0),
                  "intid" if replay.get("int_id_grouping") else bool(replay.get("user_calls")))]
    else:
        for f in CORPUS:
            cases.append((f, len(cases), False))
        for _ in range(n_cases):
            cases.append((None, len(cases), False))
        for f in USER_CORPUS:
            cases.append((f, len(cases), True))
        for _ in range(n_user):
            cases.append((None, len(cases), True))
        # (placed after all the others so that those keep their streams)
        for f in INTID_CORPUS:
            cases.append((f, len(cases), "intid"))
        for _ in range(n_intid):
            cases.append((None, len(cases), "intid"))
    reqs_spec, reqs_model, reqs_pipe, owners = [], [], [], []
    reqs_new, owners_new = [], []
    reqs_na, owners_na = [], []
    for f, path, user in cases:
        r = rng_for(seed, "c04", path)
        df = designs.gen_frame(r)
        generated = f is None or (replay is not None and bool(replay.get("generated")))
        if generated:
            # (a replay of a generated case draws the same numbers, so that the frames that follow
            # in the case's stream -- disturbing frame, new frames -- are the ones of the run)
            g = (gen_intid_formula(r) if user == "intid" else gen_user_formula(r) if user
                 else designs.gen_formula(r, extra=(r.random() < 0.3)))
        formula = f or g
        res.evaluations += 1
        # a second design from the same formula text on another frame (other rows, other levels
        # present) is built before this one is inspected
        other = designs.gen_frame(r, complete=False)
        obs, req = designs.observe(formula, df, NAMES, disturb=other)
        case = {"formula": formula, "seed_path": path, "generated": generated}
        if user == "intid":
            case["int_id_grouping"] = True
            res.count("cases with an integer id column bare inside a grouping factor")
        elif user:
            case["user_calls"] = True
            res.count("user_call_cases")
        if req is None:
            res.count("impl_error:" + obs["err"])
            continue
        parts = parts_of(obs)
        # the blocks of the terms read through the slices (dm.common[name], dm.group[name])
        for part in ("common", "group"):
            obj = getattr(obs["_dm"], part)
            if obj is not None:
                parts.extend((pn, p) for pn, p in term_blocks(obj, part) if "err" not in p)
        # (the results of caller-supplied calls fn(v) on the frame go along as extra columns)
        train_fj = with_user(req["frame"], formula, df)
        reqs_spec.append({"op": "c04_spec", "formula": formula, "frame": train_fj,
                          "names": req["names"], "parts": [p for _, p in parts]})
        reqs_model.append(req)
        # the whole pipeline in Lean (no coding decisions taken from the implementation)
        reqs_pipe.append({"op": "pipeline", "formula": formula, "frame": designs.frame_json(df),
                          "names": designs.names_json(designs.NAMES), "na_action": "drop"})
        owners.append((case, obs, parts))
        # prediction stage: the matrices evaluate_new_data returns carry the same labels
        frames = [(kind, nd, None, None) for kind, nd in new_frames(r, df)]
        # a new frame in which some rows hold levels unseen at training time, under a policy that
        # evaluates them: a column labelled v[l] is 1 exactly where v equals l, so it is 0 there
        try:
            used = set(obs["_dm"].model.var_names)
        except Exception:  # noqa
            used = set()
        un = unseen_frame(r, df, used)
        if un is not None:
            mode = r.choice(UNSEEN_MODES)
            frames.append(("unseen_" + mode, un[0], mode, un[1]))
        # one frame OBJECT evaluated, edited in place (values of used columns -- grouping and
        # effect variables --, order of the rows) and evaluated again: every evaluation is judged on
        # the contents the frame has at that moment
        grouping = grouping_vars(obs["_dm"])
        if grouping or r.random() < 0.25:
            idx = [r.randrange(len(df)) for _ in range(r.randrange(4, 13))]
            live = designs.scramble_index(r, df.iloc[idx]).copy()
            frames.append(("inplace_0", live, None, None))
            for step in (1, 2):
                frames.append((f"inplace_{step}", live, None, ("edit", step == 1)))
        for kind, nd, mode, placed in frames:
            edits = None
            if isinstance(placed, tuple):
                edits = inplace_edit(r, nd, df, sorted(used), grouping, placed[1])
                placed = None
            pparts = predict_parts(obs["_dm"], nd, mode)
            good = []
            for pname, p in pparts:
                if "err" in p:
                    res.count(f"predict_impl_error:{kind}:{p['err']}")
                else:
                    good.append((pname, p))
            if not good:
                continue
            reqs_new.append({"op": "c04_spec", "formula": formula,
                             "frame": with_user(designs.frame_json(nd), formula, nd),
                             "train_frame": train_fj, "names": req["names"],
                             "parts": [p for _, p in good]})
            pcase = dict(case, stage="predict", new_frame=kind)
            if edits is not None:
                pcase["inplace_edits"] = edits
            if placed is not None:
                pcase["unseen_rows"] = placed
                pcase["new_frame_columns"] = {v: [str(x) for x in nd[v].tolist()] for v in placed}
            owners_new.append((pcase, good))
        # missing values in used columns, na_action='drop' (the default), under a default /
        # permuted / non-unique index: the design is judged against the COMPLETE rows of the
        # caller's frame, which the harness selects itself (pd.isna over the used columns, by
        # position): one row per complete row, every column what its label says on those rows
        rn = rng_for(seed, "c04", path, "na")
        naf = na_frame(rn, df, used) if rn.random() < NA_SHARE or replay is not None else None
        if naf is not None:
            import pandas as pd
            nadf, holes = naf
            used_cols = [v for v in sorted(used) if v in nadf.columns]
            complete = nadf[~pd.isna(nadf[used_cols]).any(axis=1).to_numpy()]
            nparts = na_parts(formula, nadf)
            if isinstance(nparts, str):
                res.count("na_impl_error:" + nparts)
            else:
                reqs_na.append({"op": "c04_spec", "formula": formula,
                                "frame": with_user(designs.frame_json(complete), formula, complete),
                                "names": req["names"], "parts": [p for _, p in nparts]})
                owners_na.append((dict(case, stage="na_drop", na_rows=holes,
                                       index=[int(i) for i in nadf.index],
                                       index_unique=bool(nadf.index.is_unique),
                                       rows=len(nadf), complete_rows=len(complete)), nparts))
        if ":" in formula.split("~")[1] or "|" in formula:
            res.nontrivial.add(formula)
        if len(res.samples) < 6:
            res.samples.append({"formula": formula,
                                "labels": (obs.get("common") or {}).get("labels")})
    spec = ask(reqs_spec)
    model = ask(reqs_model)
    pipe = ask(reqs_pipe)
    spec_new = ask(reqs_new)
    for (case, parts), sp in zip(owners_new, spec_new):
        if "err" in sp:
            res.count("predict_spec_skip:" + sp["err"])
            continue
        for (pname, p), v in zip(parts, sp["parts"]):
            if "err" in v:
                res.count("predict_part_skip:" + v["err"] + ":" + str(v.get("what"))[:30])
                continue
            res.count("predict_columns_judged:" + case["new_frame"], v["judged"])
            res.count("predict_columns_skipped", v["skipped"])
            if not v["ok"] or not v["level_order_ok"]:
                res.failures.append({
                    "case": case, "impl": {"part": pname, "labels": p["labels"]},
                    "expected": "column of the evaluate_new_data matrix = decode(label) on the new frame",
                    "why": (f"{pname}.evaluate_new_data on the {case['new_frame']} frame: "
                            + bad_text(v["first_bad"]) if not v["ok"] else
                            f"{pname}: levels not in sorted / declared order"),
                    "finding": None})
    for (case, parts), sp in zip(owners_na, ask(reqs_na)):
        if "err" in sp:
            res.count("na_spec_skip:" + sp["err"])
            continue
        for (pname, p), v in zip(parts, sp["parts"]):
            if "err" in v:
                res.count("na_part_skip:" + v["err"] + ":" + str(v.get("what"))[:30])
                continue
            res.count("na_columns_judged:" + ("unique_index" if case["index_unique"]
                                              else "non_unique_index"), v["judged"])
            res.count("na_columns_skipped", v["skipped"])
            if not v["ok"] or not v["level_order_ok"]:
                res.failures.append({
                    "case": case, "impl": {"part": pname, "labels": p["labels"],
                                           "rows": len(p["matrix"])},
                    "expected": f"{case['complete_rows']} rows (the complete rows of the frame), "
                                "every column = decode(label) on those rows",
                    "why": (f"{pname} with na_action='drop': " + bad_text(v["first_bad"])
                            + f" on the {case['complete_rows']} complete rows of the frame"
                            if not v["ok"] else f"{pname}: levels not in sorted / declared order"),
                    "finding": None})
    for (case, obs, _), po in zip(owners, pipe):
        if "err" in po:
            res.count("pipeline_skip:" + po["err"] + ":" + str(po.get("what"))[:24])
            continue
        res.count("pipeline_compared")
        diffs = designs.compare(obs, po)
        if diffs:
            res.mismatches.append({"case": case, "diff": ["pipeline:" + d for d in diffs[:5]]})
    for (case, obs, parts), sp, mo in zip(owners, spec, model):
        if "err" in sp:
            res.count("spec_skip:" + sp["err"])
        else:
            for (pname, p), v in zip(parts, sp["parts"]):
                if "err" in v:
                    res.count("spec_part_skip:" + v["err"] + ":" + str(v.get("what"))[:30])
                    continue
                res.count("columns_judged", v["judged"])
                res.count("columns_skipped", v["skipped"])
                if not v["ok"] or not v["level_order_ok"]:
                    res.failures.append({
                        "case": case, "impl": {"part": pname, "labels": p["labels"]},
                        "expected": "column = decode(label)",
                        "why": (f"{pname}: " + bad_text(v["first_bad"]) if not v["ok"] else
                                f"{pname}: levels not in sorted / declared order"),
                        "finding": None})
        if "err" in mo:
            res.count("model_skip:" + mo["err"])
            continue
        res.traces += 1
        diffs = designs.compare(obs, mo)
        if diffs:
            res.mismatches.append({"case": case, "diff": diffs[:5]})
    return res
