"""C04 — every design-matrix column holds exactly what its label says."""
import designs
from common import Result, ask, rng_for, known_findings

ASSUMPTIONS = [
    "besides the evaluation model fed with the observed coding decisions, the whole pipeline composed "
    "in Lean (Model/Pipeline.lean: scanner, parser, term algebra, NA step, redundancy analysis, "
    "evaluation) is run on formula + data alone and compared with the real design",
    "the label decoder (Spec.C04.decodeLabel) is evaluated by the Lean driver on the labels and "
    "matrices the implementation returned; columns whose label the statement does not define "
    "(sum-coded factors, columns of a spline/polynomial basis, prop) are counted as skipped",
    "numeric data are small integers / dyadic rationals; entries are compared with relative "
    "tolerance 1e-9 because center() divides by the number of rows",
]
TRUSTED = ["pandas dtype inference, Categorical codes and numpy fancy indexing as modelled in "
           "Model/Matrices.lean"]

CORPUS = [
    "y ~ f:g:h", "y ~ h:f:x", "y ~ 0 + f:h", "y ~ g:f + x", "y ~ co + cu", "y ~ C(k):f",
    "y ~ (x | g)", "y ~ (f | g)", "y ~ (0 + f | g:h)", "y ~ (x + f | h) + f", "yc ~ x", "yc[yes] ~ f",
    "y ~ 0 + (h + z)*x", "y ~ T(f, 'b'):x:h", "y ~ C(f, levels=lv_f)", "y ~ (f:x | C(k))",
    "y ~ co:f", "y ~ (1 | co) + (x | cu)", "y ~ f + g + f:g + x:f", "y ~ (z | k)",
]


def parts_of(obs):
    out = []
    for part in ("response", "common", "group"):
        o = obs.get(part)
        if o is None or o.get("labels") is None:
            continue
        out.append((part, {"labels": o["labels"], "matrix": o["matrix"]}))
    return out


def explore(tier, seed, res=None, replay=None):
    res = res or Result()
    res.rule = ("generated (formula, frame) designs: main effects, interactions of arity <= 3 in "
                "random factor order over str / Categorical / ordered Categorical / integer-via-C "
                "columns with unequal level counts, group-specific terms; non-trivial = a design "
                "with an interaction or a group-specific term; distinct by formula")
    n_cases = 600 if tier == "quick" else 20000
    cases = []
    if replay is not None:
        cases = [(replay["formula"], replay.get("seed_path", 0))]
    else:
        for f in CORPUS:
            cases.append((f, len(cases)))
        for _ in range(n_cases):
            cases.append((None, len(cases)))
    reqs_spec, reqs_model, reqs_pipe, owners = [], [], [], []
    for f, path in cases:
        r = rng_for(seed, "c04", path)
        df = designs.gen_frame(r)
        formula = f or designs.gen_formula(r, extra=(r.random() < 0.3))
        res.evaluations += 1
        # a second design from the same formula text on another frame (other rows, other levels
        # present) is built before this one is inspected
        other = designs.gen_frame(r, complete=False)
        obs, req = designs.observe(formula, df, designs.NAMES, disturb=other)
        case = {"formula": formula, "seed_path": path}
        if req is None:
            res.count("impl_error:" + obs["err"])
            continue
        parts = parts_of(obs)
        reqs_spec.append({"op": "c04_spec", "formula": formula, "frame": req["frame"],
                          "names": req["names"], "parts": [p for _, p in parts]})
        reqs_model.append(req)
        # the whole pipeline in Lean (no coding decisions taken from the implementation)
        reqs_pipe.append({"op": "pipeline", "formula": formula, "frame": designs.frame_json(df),
                          "names": designs.names_json(designs.NAMES), "na_action": "drop"})
        owners.append((case, obs, parts))
        if ":" in formula.split("~")[1] or "|" in formula:
            res.nontrivial.add(formula)
        if len(res.samples) < 6:
            res.samples.append({"formula": formula,
                                "labels": (obs.get("common") or {}).get("labels")})
    spec = ask(reqs_spec)
    model = ask(reqs_model)
    pipe = ask(reqs_pipe)
    for (case, obs, _), po in zip(owners, pipe):
        if "err" in po:
            res.count("pipeline_skip:" + po["err"] + ":" + str(po.get("what"))[:24])
            continue
        res.count("pipeline_compared")
        diffs = designs.compare(obs, po)
        if diffs:
            res.mismatches.append({"case": case, "diff": ["pipeline:" + d for d in diffs[:5]]})
    for (case, obs, parts), sp, mo in zip(owners, spec, model):
        if "err" in sp:
            res.count("spec_skip:" + sp["err"])
        else:
            for (pname, p), v in zip(parts, sp["parts"]):
                if "err" in v:
                    res.count("spec_part_skip:" + v["err"] + ":" + str(v.get("what"))[:30])
                    continue
                res.count("columns_judged", v["judged"])
                res.count("columns_skipped", v["skipped"])
                if not v["ok"] or not v["level_order_ok"]:
                    res.failures.append({
                        "case": case, "impl": {"part": pname, "labels": p["labels"]},
                        "expected": "column = decode(label)",
                        "why": (f"{pname}: column labelled {v['first_bad']!r} does not hold what "
                                "the label says" if not v["ok"] else
                                f"{pname}: levels not in sorted / declared order"),
                        "finding": None})
        if "err" in mo:
            res.count("model_skip:" + mo["err"])
            continue
        res.traces += 1
        diffs = designs.compare(obs, mo)
        if diffs:
            res.mismatches.append({"case": case, "diff": diffs[:5]})
    return res
