"""C04 — every design-matrix column holds exactly what its label says."""
import designs
from common import Result, ask, rng_for, known_findings

ASSUMPTIONS = [
    "besides the evaluation model fed with the observed coding decisions, the whole pipeline composed "
    "in Lean (Model/Pipeline.lean: scanner, parser, term algebra, NA step, redundancy analysis, "
    "evaluation) is run on formula + data alone and compared with the real design",
    "the label decoder (Spec.C04.decodeLabel) is evaluated by the Lean driver on the labels and "
    "matrices the implementation returned; columns whose label the statement does not define "
    "(sum-coded factors, columns of a spline/polynomial basis, prop) are counted as skipped",
    "prediction stage: the matrices returned by common/group.evaluate_new_data carry the training "
    "labels and are judged by the same decoder (Spec.C04.checkAt) on the NEW frame's data; a call "
    "atom is read with the transform state of the training frame (center keeps the training mean); "
    "refusals of evaluate_new_data (levels= / ordered boxes on a frame lacking a level, D13) are "
    "counted, not judged (they belong to C06 / C10)",
    "prediction with unseen levels: one more new frame per design (when it uses a categorical "
    "variable) in which some rows of one to three used categorical variables hold a level no training "
    "row has (strings sorting before / between / after the training levels, integers for k; "
    "Categorical columns keep their dtype with the new label declared, or arrive as plain objects), "
    "evaluated under EVAL_UNSEEN_CATEGORIES = 'silent' or 'warning'; judged by the same decoder on the "
    "new frame (v[l] is 1 exactly where v equals l, hence 0 on rows holding an unseen level, also inside "
    "':' products and e|g[l]).  The group part is read term by term there: the training labels of a term "
    "name the first len(labels) columns of its block new[name]; columns appended for new groups carry no "
    "label and are not judged here (C05 / C10 judge them)",
    "term-by-term reading: besides the whole matrix next to the concatenated labels, every design "
    "(training, and every evaluate_new_data result) is read through the slices -- dm.common[name], "
    "dm.group[name], new[name] -- next to term.labels: the block of a term must have exactly as many "
    "columns as the term has labels (none for a zero-column term such as the one-level factor `one` "
    "under reduced coding) and each must hold what its label says (same decoder)",
    "one frame object evaluated repeatedly: for every design with a group-specific term (and a quarter of "
    "the others) a new frame (4-12 rows drawn from the training frame) is given to "
    "common/group.evaluate_new_data, then edited IN PLACE twice (the DataFrame object stays the same) and "
    "evaluated again after each edit: new values (levels / numbers of the training frame) in some or all "
    "rows of one to three used columns -- a grouping variable at the first edit, effect variables, "
    "numeric and categorical; by df[v] = ... or df.iloc[rows, j] = ... -- and / or an in-place "
    "reordering of the rows (sort_values / sort_index with inplace=True, or every column rewritten in "
    "permuted order); every evaluation is judged by the same decoder on the contents the frame has at "
    "that moment",
    "numeric data are small integers / dyadic rationals; entries are compared with relative "
    "tolerance 1e-9 because center() divides by the number of rows",
]
TRUSTED = ["pandas dtype inference, Categorical codes and numpy fancy indexing as modelled in "
           "Model/Matrices.lean"]

CORPUS = [
    "y ~ f:g:h", "y ~ h:f:x", "y ~ 0 + f:h", "y ~ g:f + x", "y ~ co + cu", "y ~ C(k):f",
    "y ~ (x | g)", "y ~ (f | g)", "y ~ (0 + f | g:h)", "y ~ (x + f | h) + f", "yc ~ x", "yc[yes] ~ f",
    "y ~ 0 + (h + z)*x", "y ~ T(f, 'b'):x:h", "y ~ C(f, levels=lv_f)", "y ~ (f:x | C(k))",
    "y ~ co:f", "y ~ (1 | co) + (x | cu)", "y ~ f + g + f:g + x:f", "y ~ (z | k)",
]


def parts_of(obs):
    out = []
    for part in ("response", "common", "group"):
        o = obs.get(part)
        if o is None or o.get("labels") is None:
            continue
        out.append((part, {"labels": o["labels"], "matrix": o["matrix"]}))
    return out


def new_frames(r, df):
    """frames for the prediction stage ("every design" includes the matrices evaluate_new_data
    returns; they carry the training labels): the training frame itself, a row-permuted copy, a
    longer frame made of repeated rows (all three contain every level of the training frame), and
    a random sub-frame (levels may be missing, statistics differ)"""
    n = len(df)
    perm = list(range(n))
    r.shuffle(perm)
    rep = list(range(n)) + [r.randrange(n) for _ in range(r.randrange(1, n + 1))]
    r.shuffle(rep)
    sub = sorted(r.sample(range(n), r.randrange(1, n + 1)))
    r.shuffle(sub)
    first = ("same", df) if r.random() < 0.5 else ("permuted", designs.scramble_index(r, df.iloc[perm]))
    return [first, ("repeated", designs.scramble_index(r, df.iloc[rep])),
            ("subset", designs.scramble_index(r, df.iloc[sub]))]


UNSEEN_VARS = ["f", "g", "h", "cu", "co", "k"]       # categorical columns of the generated frames
UNSEEN_MODES = ("silent", "warning")                  # the policies under which unseen levels evaluate


def unseen_frame(r, df, used):
    """rows of the training frame in which some rows of some USED categorical variables hold a
    level that no training row has (a label sorting before, between or after the training levels;
    an integer for `k`).  String columns stay strings; a Categorical column keeps its dtype with
    the new label declared somewhere among the categories (relative order of the training
    categories kept) or, if unordered, is handed over as plain objects.
    returns (new frame, {variable: [row positions]}) or None when no categorical variable is used"""
    import pandas as pd
    cands = [v for v in UNSEEN_VARS if v in used and v in df.columns]
    if not cands:
        return None
    idx = [r.randrange(len(df)) for _ in range(r.randrange(2, 10))]
    nd = df.iloc[idx].reset_index(drop=True).copy()
    placed = {}
    for v in r.sample(cands, r.randrange(1, min(3, len(cands)) + 1)):
        rows = sorted(r.sample(range(len(nd)), r.randrange(1, max(2, len(nd) // 2 + 1))))
        label = r.choice([99, 0, 5]) if v == "k" else r.choice(["NEW_", "0_", "zz_", "k_"]) + v
        vals = nd[v].tolist()
        for k in rows:
            vals[k] = label
        dt = df[v].dtype
        if isinstance(dt, pd.CategoricalDtype):
            if not dt.ordered and r.random() < 0.5:
                nd[v] = pd.Series(vals, dtype=object)
            else:
                cats = list(dt.categories)
                cats.insert(r.randrange(len(cats) + 1), label)
                nd[v] = pd.Categorical(vals, categories=cats, ordered=bool(dt.ordered))
        else:
            nd[v] = vals
        placed[v] = rows
    return designs.scramble_index(r, nd), placed


def predict_parts(dm, nd, mode=None):
    """evaluate_new_data of the common and the group part; labels as the new objects report them.
    `mode`: the unseen-level policy in force during the evaluation (None = leave the default);
    with a mode, the group part is read term by term: the training labels of a term name the
    first len(labels) columns of its block (columns appended for new groups carry no label)"""
    import warnings
    import formulae
    import numpy as np
    out = []
    old = formulae.config["EVAL_UNSEEN_CATEGORIES"]
    if mode is not None:
        formulae.config["EVAL_UNSEEN_CATEGORIES"] = mode
    try:
        for part in ("common", "group"):
            obj = getattr(dm, part)
            if obj is None:
                continue
            try:
                with warnings.catch_warnings():
                    warnings.simplefilter("ignore")
                    new = obj.evaluate_new_data(nd)
                labels = designs._labels(list(new.terms.values()))
                if labels is None:
                    continue
                matrix = new.design_matrix
                if mode is not None and part == "group":
                    blocks, labels = [], []
                    for name, t in new.terms.items():
                        labs = list(t.labels)
                        block = np.asarray(new[name])
                        blocks.append(block[:, :len(labs)])
                        labels.extend(labs)
                    matrix = np.column_stack(blocks) if blocks else matrix
                out.append((part, {"labels": labels, "matrix": fast_mat(matrix)}))
                # the same matrix read term by term through the slices (new[name])
                out.extend(term_blocks(new, part, exact=not (mode is not None and part == "group")))
            except Exception as e:  # noqa  (refusals on new data belong to C06 / C10)
                out.append((part, {"err": type(e).__name__}))
    finally:
        formulae.config["EVAL_UNSEEN_CATEGORIES"] = old
    return out


_FRAC = {}


def fast_mat(a):
    """designs.mat with the exact fraction of every distinct entry computed once (same output)"""
    import numpy as np
    a = np.asarray(a)
    if a.ndim == 1:
        a = a[:, None]
    out = []
    for row in a.tolist():
        r = []
        for v in row:
            try:
                r.append(_FRAC[v])
            except KeyError:
                f = designs.frac(v)
                if f is not None:
                    _FRAC[v] = f
                r.append(f)
        out.append(r)
    return out


def bad_text(first_bad):
    if first_bad is not None and first_bad.startswith("number of labels"):
        return "the number of labels differs from the number of columns of the (sub-)matrix"
    return f"column labelled {first_bad!r} does not hold what the label says"


def term_blocks(obj, part, exact=True):
    """the matrix read term by term THROUGH THE SLICES (`obj[name]`, the access the library offers
    for pairing names with columns) next to `term.labels`: one part per term, whose block must
    have exactly the term's labels' columns (a term with no label owns no column), each holding
    what its label says.  `exact=False` (group part evaluated with unseen levels): only the
    first len(labels) columns of the block carry a label (columns appended for new groups)"""
    import numpy as np
    out = []
    for name, t in obj.terms.items():
        labs = designs._labels([t])
        if labs is None:
            continue
        try:
            block = np.asarray(obj[name])
        except Exception as e:  # noqa
            out.append((f"{part}[{name}]", {"err": type(e).__name__}))
            continue
        if block.ndim == 1:
            block = block[:, None]
        if not exact:
            block = block[:, :len(labs)]
        out.append((f"{part}[{name}]", {"labels": list(labs), "matrix": fast_mat(block)}))
    return out


def grouping_vars(dm):
    out = []
    if dm.group is not None:
        for t in dm.group.terms.values():
            for v in t.factor.var_names:
                if v not in out:
                    out.append(v)
    return out


def set_column(r, nd, df, v, rows, vals):
    """write `vals` into the rows `rows` (positions) of column `v` of the frame object `nd`,
    IN PLACE (the frame object stays the same): whole-column assignment or positional setting"""
    import pandas as pd
    cur = nd[v].tolist()
    for k, x in zip(rows, vals):
        cur[k] = x
    dt = df[v].dtype
    if r.random() < 0.5 and not isinstance(dt, pd.CategoricalDtype):
        nd.iloc[rows, nd.columns.get_loc(v)] = vals
        return "iloc"
    if isinstance(dt, pd.CategoricalDtype):
        nd[v] = pd.Categorical(cur, dtype=dt)
    else:
        nd[v] = pd.array(cur, dtype=dt)
    return "setitem"


def inplace_edit(r, nd, df, used, grouping, force_group):
    """one in-place edit of the frame object `nd` (a frame that has been evaluated before and
    will be evaluated again): new values (levels / numbers of the training frame, so that nothing
    is unseen) in some rows of one to three USED columns -- a grouping variable first when
    `force_group` --, an in-place reordering of the rows, or both.  Returns a description."""
    n = len(nd)
    kind = r.choice(["values", "values", "reorder", "both"])
    done = []
    if kind in ("values", "both"):
        cands = [v for v in used if v in nd.columns and v in df.columns]
        gv = [v for v in grouping if v in cands]
        chosen = []
        if gv and (force_group or r.random() < 0.5):
            chosen.append(r.choice(gv))
        for v in r.sample(cands, min(len(cands), r.randrange(1, 4))):
            if v not in chosen and len(chosen) < 3:
                chosen.append(v)
        for v in chosen:
            pool = df[v].tolist()
            if r.random() < 0.4:
                rows = list(range(n))
            else:
                rows = sorted(r.sample(range(n), r.randrange(1, n + 1)))
            if r.random() < 0.3:                 # a permutation of the column's current values
                cur = nd[v].tolist()
                vals = [cur[k] for k in rows]
                r.shuffle(vals)
            else:
                vals = [r.choice(pool) for _ in rows]
            how = set_column(r, nd, df, v, rows, vals)
            done.append(f"{v}:{how}:{len(rows)}")
    if kind in ("reorder", "both"):
        how = r.choice(["sort_values", "sort_index", "columns"])
        if how == "sort_values":
            by = r.choice([c for c in ("x", "z", "y", "k", "f", "g", "h") if c in nd.columns])
            nd.sort_values(by=by, ascending=r.random() < 0.5, inplace=True, kind="stable")
            done.append(f"rows:sort_values({by})")
        elif how == "sort_index":
            nd.sort_index(ascending=r.random() < 0.5, inplace=True, kind="stable")
            done.append("rows:sort_index")
        else:                                    # every column rewritten in a permuted row order
            perm = list(range(n))
            r.shuffle(perm)
            for c in list(nd.columns):
                col = nd[c]
                nd[c] = col.array.take(perm)
            done.append("rows:permuted")
    return done


def explore(tier, seed, res=None, replay=None):
    res = res or Result()
    res.rule = ("generated (formula, frame) designs: main effects, interactions of arity <= 3 in "
                "random factor order over str / Categorical / ordered Categorical / integer-via-C "
                "columns with unequal level counts, group-specific terms; non-trivial = a design "
                "with an interaction or a group-specific term; distinct by formula.  Prediction stage: "
                "common.evaluate_new_data / group.evaluate_new_data of every design on the training "
                "frame itself, a row-permuted copy, a longer frame of repeated rows (all levels "
                "present) and a random sub-frame, judged by the same label decoder on the new frame's "
                "data (call atoms keep their training-time transform state); plus a frame in which "
                "some rows of used categorical variables hold levels unseen at training, evaluated "
                "under the 'silent' / 'warning' policy (labelled columns judged, appended new-group "
                "columns not); plus one frame object evaluated, edited in place (values of used grouping "
                "/ effect columns, row order) and evaluated again, twice, each time judged on its "
                "contents at that moment.  Every matrix is also read term by term through the slices "
                "(dm.common[name], dm.group[name], new[name]) next to term.labels (zero-column terms "
                "of the one-level factor `one` included)")
    n_cases = 600 if tier == "quick" else 9000
    cases = []
    if replay is not None:
        cases = [(replay["formula"], replay.get("seed_path", 0))]
    else:
        for f in CORPUS:
            cases.append((f, len(cases)))
        for _ in range(n_cases):
            cases.append((None, len(cases)))
    reqs_spec, reqs_model, reqs_pipe, owners = [], [], [], []
    reqs_new, owners_new = [], []
    for f, path in cases:
        r = rng_for(seed, "c04", path)
        df = designs.gen_frame(r)
        generated = f is None or (replay is not None and bool(replay.get("generated")))
        if generated:
            # (a replay of a generated case draws the same numbers, so that the frames that follow
            # in the case's stream -- disturbing frame, new frames -- are the ones of the run)
            g = designs.gen_formula(r, extra=(r.random() < 0.3))
        formula = f or g
        res.evaluations += 1
        # a second design from the same formula text on another frame (other rows, other levels
        # present) is built before this one is inspected
        other = designs.gen_frame(r, complete=False)
        obs, req = designs.observe(formula, df, designs.NAMES, disturb=other)
        case = {"formula": formula, "seed_path": path, "generated": generated}
        if req is None:
            res.count("impl_error:" + obs["err"])
            continue
        parts = parts_of(obs)
        # the blocks of the terms read through the slices (dm.common[name], dm.group[name])
        for part in ("common", "group"):
            obj = getattr(obs["_dm"], part)
            if obj is not None:
                parts.extend((pn, p) for pn, p in term_blocks(obj, part) if "err" not in p)
        reqs_spec.append({"op": "c04_spec", "formula": formula, "frame": req["frame"],
                          "names": req["names"], "parts": [p for _, p in parts]})
        reqs_model.append(req)
        # the whole pipeline in Lean (no coding decisions taken from the implementation)
        reqs_pipe.append({"op": "pipeline", "formula": formula, "frame": designs.frame_json(df),
                          "names": designs.names_json(designs.NAMES), "na_action": "drop"})
        owners.append((case, obs, parts))
        # prediction stage: the matrices evaluate_new_data returns carry the same labels
        frames = [(kind, nd, None, None) for kind, nd in new_frames(r, df)]
        # a new frame in which some rows hold levels unseen at training time, under a policy that
        # evaluates them: a column labelled v[l] is 1 exactly where v equals l, so it is 0 there
        try:
            used = set(obs["_dm"].model.var_names)
        except Exception:  # noqa
            used = set()
        un = unseen_frame(r, df, used)
        if un is not None:
            mode = r.choice(UNSEEN_MODES)
            frames.append(("unseen_" + mode, un[0], mode, un[1]))
        # one frame OBJECT evaluated, edited in place (values of used columns -- grouping and
        # effect variables --, order of the rows) and evaluated again: every evaluation is judged on
        # the contents the frame has at that moment
        grouping = grouping_vars(obs["_dm"])
        if grouping or r.random() < 0.25:
            idx = [r.randrange(len(df)) for _ in range(r.randrange(4, 13))]
            live = designs.scramble_index(r, df.iloc[idx]).copy()
            frames.append(("inplace_0", live, None, None))
            for step in (1, 2):
                frames.append((f"inplace_{step}", live, None, ("edit", step == 1)))
        for kind, nd, mode, placed in frames:
            edits = None
            if isinstance(placed, tuple):
                edits = inplace_edit(r, nd, df, sorted(used), grouping, placed[1])
                placed = None
            pparts = predict_parts(obs["_dm"], nd, mode)
            good = []
            for pname, p in pparts:
                if "err" in p:
                    res.count(f"predict_impl_error:{kind}:{p['err']}")
                else:
                    good.append((pname, p))
            if not good:
                continue
            reqs_new.append({"op": "c04_spec", "formula": formula, "frame": designs.frame_json(nd),
                             "train_frame": req["frame"], "names": req["names"],
                             "parts": [p for _, p in good]})
            pcase = dict(case, stage="predict", new_frame=kind)
            if edits is not None:
                pcase["inplace_edits"] = edits
            if placed is not None:
                pcase["unseen_rows"] = placed
                pcase["new_frame_columns"] = {v: [str(x) for x in nd[v].tolist()] for v in placed}
            owners_new.append((pcase, good))
        if ":" in formula.split("~")[1] or "|" in formula:
            res.nontrivial.add(formula)
        if len(res.samples) < 6:
            res.samples.append({"formula": formula,
                                "labels": (obs.get("common") or {}).get("labels")})
    spec = ask(reqs_spec)
    model = ask(reqs_model)
    pipe = ask(reqs_pipe)
    spec_new = ask(reqs_new)
    for (case, parts), sp in zip(owners_new, spec_new):
        if "err" in sp:
            res.count("predict_spec_skip:" + sp["err"])
            continue
        for (pname, p), v in zip(parts, sp["parts"]):
            if "err" in v:
                res.count("predict_part_skip:" + v["err"] + ":" + str(v.get("what"))[:30])
                continue
            res.count("predict_columns_judged:" + case["new_frame"], v["judged"])
            res.count("predict_columns_skipped", v["skipped"])
            if not v["ok"] or not v["level_order_ok"]:
                res.failures.append({
                    "case": case, "impl": {"part": pname, "labels": p["labels"]},
                    "expected": "column of the evaluate_new_data matrix = decode(label) on the new frame",
                    "why": (f"{pname}.evaluate_new_data on the {case['new_frame']} frame: "
                            + bad_text(v["first_bad"]) if not v["ok"] else
                            f"{pname}: levels not in sorted / declared order"),
                    "finding": None})
    for (case, obs, _), po in zip(owners, pipe):
        if "err" in po:
            res.count("pipeline_skip:" + po["err"] + ":" + str(po.get("what"))[:24])
            continue
        res.count("pipeline_compared")
        diffs = designs.compare(obs, po)
        if diffs:
            res.mismatches.append({"case": case, "diff": ["pipeline:" + d for d in diffs[:5]]})
    for (case, obs, parts), sp, mo in zip(owners, spec, model):
        if "err" in sp:
            res.count("spec_skip:" + sp["err"])
        else:
            for (pname, p), v in zip(parts, sp["parts"]):
                if "err" in v:
                    res.count("spec_part_skip:" + v["err"] + ":" + str(v.get("what"))[:30])
                    continue
                res.count("columns_judged", v["judged"])
                res.count("columns_skipped", v["skipped"])
                if not v["ok"] or not v["level_order_ok"]:
                    res.failures.append({
                        "case": case, "impl": {"part": pname, "labels": p["labels"]},
                        "expected": "column = decode(label)",
                        "why": (f"{pname}: " + bad_text(v["first_bad"]) if not v["ok"] else
                                f"{pname}: levels not in sorted / declared order"),
                        "finding": None})
        if "err" in mo:
            res.count("model_skip:" + mo["err"])
            continue
        res.traces += 1
        diffs = designs.compare(obs, mo)
        if diffs:
            res.mismatches.append({"case": case, "diff": diffs[:5]})
    return res
