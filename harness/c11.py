"""C11 — name resolution order and evaluation environment.

The configuration space of the statement is finite and is enumerated exhaustively in both tiers:
all 2^5 subsets of {data column, built-in registry, caller local, caller global, extra_namespace}
that define a name  x  role {argument, callee}  x  name form (plain / dotted / backquoted, plus the
syntactic positions a name can take in a call term)  x  env depth 0..3 through four nested callers
x  frame kind (real function frames with fast locals / `exec` frames with dict locals)  x  decoys
(the non-selected frames define the name too, or not); the constructed callers may live in modules
whose names look like the library's (`formulae_tools`, `formulaeX`, `app.formulae`, ...).

Every scope binds the name to a distinguishable object (a constant vector with a scope-specific
code, a function returning such a vector and recording its tag, a module-like object whose leaf
attribute is such a function), so the winner is observable in the design matrix and through the
recording observer `obs__`.

The real implementation (`formulae.design_matrices`) is run in-process; the Lean driver evaluates
on the same configuration (a) the model `Env.resolveArg/resolveCallee` under the wiring
regenerated from the source, (b) `Spec.C11.expected`, the reading of the English statement.
"""
import contextlib
import inspect
import io
import itertools
import json
import types

import numpy as np
import pandas as pd

from common import Result, ask, rng_for

ASSUMPTIONS = [
    "CPython frame contents are taken as given: the harness tells the model which names each "
    "caller frame binds (by construction of the callers); that `f_locals`/`f_globals` of those "
    "frames contain exactly that is CPython behaviour, checked only through this correspondence",
    "the test name is registered in / removed from the live TRANSFORMS (even cases) or ENCODINGS "
    "(odd cases) registry around each call to realise 'the built-in scope defines the name' with "
    "a distinguishable value; real registry keys are covered by the separate shadowing cases",
    "exception classes are recorded but not compared (the statement names none); 'raises' is "
    "compared",
    "frames of the harness itself above the four constructed callers are reported to the model "
    "as binding none of the test names (verified at run time by inspecting them)",
    "prediction stage: for every configuration of the statement's space (kind `main`) and every "
    "real-registry-key case (kind `builtin`) whose design was built, the part holding the term "
    "(common; group for the group form; the response only when it is a proportion — the library "
    "refuses to evaluate any other response on new data) is evaluated again with "
    "`evaluate_new_data(frame of the case)`, called from outside the constructed callers while the "
    "registries are in the state of the design-time call; the winner is observed as at design time "
    "(observer / recorded test-function calls / for a real built-in: the new matrix equals that of "
    "the formula with no user definition at all) and must be the scope Spec.C11.expected names, and "
    "the model's; stateful built-ins (center, scale, bs, ...) are not looked up again by the library "
    "(their instance is kept by the call), for them this stage observes the baseline matrix only",
    "negative `env` (frames of design_matrices / capture themselves) is outside the statement's "
    "quantifier; a handful of cases check the model's integer arithmetic only",
    "module of the callers: the constructed caller frames may carry a module name (`__name__` in their "
    "globals; reported to the model as one more harness-internal global).  Names used: "
    "formulae_tools, formulaeX, formulae2, formulae_, myformulae, formulae_ext.helpers, "
    "tests.test_formulae, app.formulae, Formulae, formula, __main__, bambi.backend, user_code -- only "
    "names a user module can have (`formulae` and `formulae.<sub>`, the library's own, are excluded by "
    "an assertion).  Kind `module_name` enumerates every name x which callers carry it (all / the "
    "selected one / innermost up to the selected one / the innermost / all but the selected one) x env "
    "depth 0..3 x frame kind (func / exec, module level for arguments) x {locals+globals, globals, "
    "nothing} bound in the selected caller, decoys in all others, for an argument and a dotted callee; "
    "in addition half of ALL other configurations (drawn from rng_for(seed, 'c11', 'modules', index)) "
    "give each of their four callers a name drawn from that list or none.  Spec.C11.expected and the "
    "model do not depend on the module's name",
]
TRUSTED = ["CPython: inspect.currentframe / f_back / f_locals / f_globals, exec with separate "
           "globals and locals dicts"]

N_ROWS = 3
SCOPES = "DBLGX"
SCOPE_CODE = {"D": 1.0, "B": 2.0, "L": 3.0, "G": 4.0, "X": 5.0}
N_FRAMES = 4


SPECIAL_VALUES = {"none": None, "zero": 0, "empty": "", "false": False}

# `__name__` of the module a constructed caller lives in: names a USER module can legitimately have
# (never `formulae` itself or `formulae.<sub>`, which are the library's own modules).  The statement
# selects the frame by `env` alone: the name of the caller's module is no part of it.
MODULE_NAMES = ["formulae_tools", "formulaeX", "formulae2", "formulae_", "myformulae",
                "formulae_ext.helpers", "tests.test_formulae", "app.formulae", "Formulae", "formula",
                "__main__", "bambi.backend"]
PLAIN_MODULE = "user_code"
MODULE_PLACEMENTS = ("all", "selected", "upto_selected", "innermost", "not_selected")


def place_modules(name, placement, k):
    """`__name__` of the four constructed callers (innermost first)"""
    carries = {"all": lambda j: True, "selected": lambda j: j == k, "upto_selected": lambda j: j <= k,
               "innermost": lambda j: j == 0, "not_selected": lambda j: j != k}[placement]
    return [name if carries(j) else PLAIN_MODULE for j in range(N_FRAMES)]


def legitimate_user_module(name):
    return name is None or not (name == "formulae" or name.startswith("formulae."))


def decoy_tag(which, j):
    return f"{which}@{j}"


def tag_code(tag):
    if tag in SCOPE_CODE:
        return SCOPE_CODE[tag]
    if "@" in tag:
        which, j = tag.split("@")
        return 10.0 * (int(j) + 1) + SCOPE_CODE[which]
    if tag.startswith("E"):          # namespaces of an Environment instance: E0, E1, …
        return 100.0 + int(tag[1:])
    if tag == "PREV":                # bound by the extra_namespace of an EARLIER call (env_reuse)
        return 9.0
    raise ValueError(tag)


CODE_TAG = {}
for _t in list(SCOPE_CODE) + [decoy_tag(w, j) for w in "LG" for j in range(N_FRAMES)] + \
        [f"E{i}" for i in range(8)] + ["PREV"]:
    CODE_TAG[tag_code(_t)] = _t

ARG_FORMS = {  # form -> (formula template, name, identifier?, var_names)
    "plain": ("y ~ obs__({n})", "zz", True),
    "kw": ("y ~ obs__(v={n})", "zz", True),
    "op": ("y ~ obs__({n} + 0)", "zz", True),
    "nested": ("y ~ obs__(idn__({n}))", "zz", True),
    "response": ("obs__({n}) ~ 1", "zz", True),
    "group": ("y ~ (obs__({n}) | g)", "zz", True),
    "bq": ("y ~ obs__(`{n}`)", "zz", True),
    "bq_space": ("y ~ obs__(`{n}`)", "z z", False),
    "dotted": ("y ~ obs__({n})", "zq.w", False),
}
CALLEE_FORMS = {  # form -> (formula template, dotted name)
    "plain": ("y ~ {n}(x)", "zz"),
    "dotted2": ("y ~ {n}(x)", "mq.fn"),
    "dotted3": ("y ~ {n}(x)", "mq.s.fn"),
    "dotted4": ("y ~ {n}(x)", "mq.s.t.fn"),
    "inner": ("y ~ obs__({n}(x))", "zz"),
    "response": ("{n}(x) ~ 1", "zz"),
}

# real registry keys: formula in which the key is the callee
CALLEE_TEMPLATE = {"p": "{n}(x, n) ~ 1", "prop": "{n}(x, n) ~ 1", "proportion": "{n}(x, n) ~ 1",
                   "bs": "y ~ {n}(x, df=4)"}
QUICK_BUILTINS = ["center", "scale", "C", "I", "Treatment", "Sum", "bs", "p"]


# ------------------------------------------------------------------------------------------------
# objects bound by the scopes
# ------------------------------------------------------------------------------------------------
class World:
    """Per-case registry of the objects the scopes bind, with their tags (the model's `Val`)."""

    def __init__(self):
        self.by_id = {}
        self.keep = []
        self.seen = []      # objects received by the observer
        self.calls = []     # tags of the test functions that were called
        self.call_args = []  # their positional arguments
        self.by_value = {}  # (type name, value) -> tag, for ints/strings of library frames
        self.special = None  # (value, tag): the one scope that binds the name to None / 0 / "" / False

    def remember(self, obj, tag):
        self.by_id[id(obj)] = tag
        self.keep.append(obj)
        return obj

    def vec(self, tag):
        return np.full(N_ROWS, tag_code(tag))

    def fn(self, tag):
        code = tag_code(tag)
        calls, call_args = self.calls, self.call_args

        def test_function(*args, **kwargs):
            calls.append(tag)
            call_args.append(args)
            return np.full(N_ROWS, code)
        return self.remember(test_function, tag)

    def module(self, tag, path, leaf=True, missing=None):
        """Module-like object for the dotted name `path` (list of attribute names after the head);
        `missing`: index in `path` of an attribute that is absent.  -> (object, model json)"""
        if not path:
            f = self.fn(tag)
            return f, {"t": tag}
        if missing == 0:
            return self.remember(types.SimpleNamespace(), tag + ":m"), {"t": tag + ":m"}
        sub, subj = self.module(tag, path[1:], leaf, None if missing is None else missing - 1)
        m = types.SimpleNamespace(**{path[0]: sub})
        return self.remember(m, tag + ":m" * len(path)), {"t": tag + ":m" * len(path),
                                                          "a": [[path[0], subj]]}

    def classify(self, v):
        if self.special is not None and type(v) is type(self.special[0]) and (
                v is self.special[0] or v == self.special[0]):
            return self.special[1]
        if isinstance(v, (np.ndarray, pd.Series)):
            try:
                return CODE_TAG.get(float(np.asarray(v).ravel()[0]), "unknown:array")
            except Exception:  # noqa
                return "unknown:array"
        if id(v) in self.by_id:
            return self.by_id[id(v)]
        if isinstance(v, (int, str)) and (type(v).__name__, v) in self.by_value:
            return self.by_value[(type(v).__name__, v)]
        return "unknown:" + type(v).__name__


# ------------------------------------------------------------------------------------------------
# call chains: four nested callers with chosen f_locals / f_globals
# ------------------------------------------------------------------------------------------------
_FUNC_CACHE = {}
_STEP = """
    if _c11_state['chain']:
        if _c11_state['chain'][0][0] == 'func':
            _c11_state['chain'].pop(0)[1]()
        else:
            exec(*_c11_state['chain'].pop(0)[1])
    else:
        _c11_state['out'] = _c11_state['call'][0](*_c11_state['call'][1], **_c11_state['call'][2])
"""
_EXEC_CODE = compile("if True:" + _STEP, "<c11-exec-frame>", "exec")


def _func_code(names):
    key = tuple(names)
    if key not in _FUNC_CACHE:
        src = "def _c11_caller():\n"
        for n in names:
            assert n.isidentifier(), n
            src += f"    {n} = _c11_mine[{n!r}]\n"
        src += _STEP
        _FUNC_CACHE[key] = compile(src, "<c11-func-frame>", "exec")
    return _FUNC_CACHE[key]


def run_chain(frames, call):
    """frames: innermost first, each {"kind": "func"|"exec"|"module", "locals": {name: obj},
    "globals": {name: obj}}.  The outermost frame is started from here; the innermost one makes
    `call = (function, args, kwargs)`.  Returns (result, n_harness_frames)."""
    state = {"chain": [], "call": call, "out": None}
    entries = []
    for fr in frames:
        g = {"__builtins__": __builtins__, "_c11_state": state}
        if fr.get("module") is not None:
            g["__name__"] = fr["module"]          # the module this caller lives in
        g.update(fr["globals"])
        if fr["kind"] == "func":
            g["_c11_mine"] = dict(fr["locals"])
            exec(_func_code(sorted(fr["locals"])), g)
            entries.append(("func", g.pop("_c11_caller")))
        elif fr["kind"] == "module":      # module level: f_locals is f_globals
            g.update(fr["locals"])
            entries.append(("exec", (_EXEC_CODE, g, g)))
        else:
            entries.append(("exec", (_EXEC_CODE, g, dict(fr["locals"]))))
    outer_first = entries[::-1]
    state["chain"] = outer_first[1:]
    # frames above the outermost constructed caller: this function and its callers
    f = inspect.currentframe()
    n_above = 0
    while f is not None:
        n_above += 1
        f = f.f_back
    del f
    if outer_first[0][0] == "func":
        outer_first[0][1]()
    else:
        exec(*outer_first[0][1])
    return state["out"], n_above


def frame_model(fr):
    """What the model is told about one constructed frame."""
    loc = [[n, j] for n, (_, j) in fr["jlocals"].items()]
    glo = [[n, j] for n, (_, j) in fr["jglobals"].items()]
    internal_g = [["__builtins__", {"t": "py:builtins"}], ["_c11_state", {"t": "h"}]]
    if fr.get("module") is not None:
        internal_g = internal_g + [["__name__", {"t": "h"}]]
    if fr["kind"] == "func":
        return {"locals": loc, "globals": glo + internal_g + [["_c11_mine", {"t": "h"}]]}
    if fr["kind"] == "module":
        both = loc + glo + internal_g
        return {"locals": both, "globals": both}
    return {"locals": loc, "globals": glo + internal_g}


CAPTURE_FRAME = {"locals": [[n, {"t": "capture:" + n}] for n in
                            ["cls", "env", "reference", "depth", "frame"]], "globals": []}
DM_FRAME = {"locals": [[n, {"t": "dm:" + n}] for n in
                       ["formula", "data", "na_action", "env", "extra_namespace"]], "globals": []}


# ------------------------------------------------------------------------------------------------
# one case
# ------------------------------------------------------------------------------------------------
def base_data():
    return {"y": [1.0, 2.0, 4.0], "x": [1.0, 2.0, 3.0], "n": [9.0, 9.0, 9.0], "g": ["a", "b", "a"]}


def build(desc):
    """desc -> dict(formula, data, frames, env, extra, builtin_entries, request, world, …)."""
    w = World()
    role = desc["role"]
    kind = desc["kind"]
    subset = desc.get("subset", "")
    k = desc.get("k", 0)
    fkind = desc.get("frames", "func")
    decoys = desc.get("decoys", False)
    form = desc.get("form", "plain")
    real = desc.get("builtin")          # a real registry key under test, or None
    missing = desc.get("missing")       # {"scope": "L", "at": i}: that scope's module lacks attr i
    if real is not None:
        name = real
        if role == "arg":
            template = "y ~ C(g, {n})" if form == "encoding" else "y ~ obs__({n})"
        else:
            template = CALLEE_TEMPLATE.get(real, "y ~ {n}(x)")
    elif role == "arg":
        template, name, _ = ARG_FORMS[form]
    else:
        template, name = CALLEE_FORMS[form]
    if desc.get("name"):
        name = desc["name"]
    formula = template.format(n=name)
    segments = name.split(".") if role == "callee" else [name]
    head = segments[0]
    path = segments[1:]
    head_object = desc.get("bind_head_object", False)
    if head_object:
        # argument `zq.w` while the scopes bind `zq` to an object with attribute `w`: the name of
        # the argument is the literal string "zq.w", which nothing binds
        head = name.split(".")[0]
        path = name.split(".")[1:]

    special = desc.get("special")      # {"scope": tag, "value": "none"|"zero"|"empty"|"false"}

    def value(tag):
        """-> (python object, model json) a scope binds the (head of the) name to"""
        if special and special["scope"] == tag and role == "arg":
            # a legitimate binding whose value is None / falsy: it is still a binding
            v = SPECIAL_VALUES[special["value"]]
            w.special = (v, tag)
            return v, {"t": tag}
        if role == "arg" and not head_object:
            return w.vec(tag), {"t": tag}
        miss = missing["at"] if missing and missing["scope"] == tag else None
        return w.module(tag, path, missing=miss)

    cols = base_data()
    jdata = [[c, {"t": "col:" + c}] for c in cols]
    if "D" in subset:
        names = [head] if head == name else [head, name]
        for c in names:
            cols[c] = [SCOPE_CODE["D"]] * N_ROWS
            jdata.append([c, {"t": "D"}])
    data = pd.DataFrame(cols)

    builtin_entries = {}
    jbuiltins = [["obs__", {"t": "h:obs"}], ["idn__", {"t": "h:idn"}]]
    if "B" in subset and real is None:
        o, j = value("B")
        builtin_entries[head] = o
        jbuiltins.append([head, j])

    extra = {}
    jextra = []
    if "X" in subset:
        o, j = value("X")
        extra[head] = o
        jextra.append([head, j])
    if desc.get("extra_none") and not extra:
        extra_arg, jextra_arg = None, None
    else:
        if not extra:
            extra["unrelated__"] = 0
            jextra.append(["unrelated__", {"t": "h"}])
        extra_arg, jextra_arg = extra, jextra

    frames = []
    modules = desc.get("modules") or [None] * N_FRAMES
    assert all(legitimate_user_module(m) for m in modules), modules
    for j in range(N_FRAMES):
        fr = {"kind": fkind if isinstance(fkind, str) else fkind[j], "locals": {}, "globals": {},
              "jlocals": {}, "jglobals": {}, "module": modules[j]}
        sel = (j == k) or desc.get("all_frames_like_selected", False)
        for which, dst in (("L", "locals"), ("G", "globals")):
            tag = None
            if sel and which in subset:
                tag = which
            elif not sel and decoys:
                tag = decoy_tag(which, j)
            if tag is not None:
                o, jv = value(tag)
                fr[dst][head] = o
                fr["j" + dst][head] = (o, jv)
        if fr["kind"] == "module" and head in fr["locals"]:
            # one dict: the local binding is the global binding
            fr["globals"].pop(head, None)
            fr["jglobals"].pop(head, None)
        frames.append(fr)

    env = desc.get("env", {"int": k})
    env_obj = None
    jenv = env
    if "int" in env:
        env_obj = env["int"]
        if env.get("as_bool"):
            env_obj = bool(env_obj)
            jenv = {"int": int(env_obj)}
    elif "environment" in env:
        from formulae.environment import Environment, VarLookupDict

        def mk(spec):       # spec: list of ("dict", tag|None) / ("vld", [spec…])
            objs, js = [], []
            for kind_, what in spec:
                if kind_ == "dict":
                    if what is None:
                        objs.append({"other__": 1})
                        js.append({"dict": [["other__", {"t": "h"}]]})
                    else:
                        o, j = value(what)
                        objs.append({head: o})
                        js.append({"dict": [[head, j]]})
                else:
                    o, j = mk(what)
                    objs.append(VarLookupDict(o))
                    js.append({"vld": [{"dict": []}] + j})
            return objs, js
        objs, js = mk(env["environment"])
        env_obj = Environment(objs)
        jenv = {"environment": js}
    else:
        env_obj = {"str": "0", "float": 1.5, "none": None}[env["other"]]
        jenv = "other"

    if role == "arg":
        var_names = sorted({name} | ({"y"} if form != "response" else set())
                           | ({"g"} if form in ("group", "encoding") else set()))
    else:
        var_names = sorted({"x"} | ({"y"} if not formula.startswith(name) else set())
                           | ({"n"} if "(x, n)" in formula else set()))

    request = {"op": "c11", "role": role, "name": name, "segments": segments, "data": jdata,
               "var_names": var_names, "builtins": jbuiltins, "real_builtins": True,
               "env": jenv, "extra": jextra_arg}
    return dict(desc=desc, world=w, formula=formula, data=data, frames=frames, env=env_obj,
                extra=extra_arg, builtin_entries=builtin_entries, request=request, name=name,
                head=head, role=role, real=real, var_names=var_names, form=form)


def _matrices(dm):
    out = []
    for part in (dm.response, dm.common, dm.group):
        if part is None:
            out.append(None)
        else:
            m = part.design_matrix
            m = m.toarray() if hasattr(m, "toarray") else np.asarray(m)
            out.append(np.round(m.astype(float), 9).tolist())
    return out


_BASELINE = {}


def baseline(cfg):
    """Outcome of the formula with the real built-in and no user definition at all."""
    from formulae import design_matrices
    key = (cfg["formula"],)
    if key not in _BASELINE:
        data = pd.DataFrame(base_data())
        try:
            with contextlib.redirect_stdout(io.StringIO()):
                _BASELINE[key] = ("ok", _matrices(design_matrices(cfg["formula"], data)))
        except Exception as e:  # noqa
            _BASELINE[key] = ("error", type(e).__name__)
    return _BASELINE[key]


PREDICTION_KINDS = ("main", "builtin")


def term_part(cfg, dm):
    """the matrix object of the design that holds the term with the name under test"""
    formula = cfg["formula"]
    if formula.split("~")[0].strip() not in ("y", ""):
        # (the library evaluates a response on new data only when it is a proportion:
        # `ResponseMatrix.evaluate_new_data` refuses every other kind by design)
        if getattr(dm.response, "kind", None) != "proportion":
            return "response", None
        return "response", dm.response
    if cfg["form"] == "group":
        return "group", dm.group
    return "common", dm.common


def _part_matrix(obj):
    m = getattr(obj, "design_matrix", obj)      # (the response part returns a bare array)
    m = m.toarray() if hasattr(m, "toarray") else np.asarray(m)
    return np.round(np.asarray(m, dtype=float), 9).tolist()


_BASELINE_NEW = {}


def baseline_new(cfg):
    """`evaluate_new_data` of the term's part, for the formula with the real built-in and no user
    definition at all (design and new frame: the plain base data)"""
    from formulae import design_matrices
    key = (cfg["formula"], cfg["form"])
    if key not in _BASELINE_NEW:
        data = pd.DataFrame(base_data())
        try:
            with contextlib.redirect_stdout(io.StringIO()):
                dm = design_matrices(cfg["formula"], data)
                _, obj = term_part(cfg, dm)
                _BASELINE_NEW[key] = ("ok", _part_matrix(obj.evaluate_new_data(data)))
        except Exception as e:  # noqa
            _BASELINE_NEW[key] = ("error", type(e).__name__)
    return _BASELINE_NEW[key]


def predict(cfg, dm, out):
    """Prediction stage: the design exists; its term is evaluated again on new data (the frame of the
    case) from OUTSIDE the constructed callers.  The name must resolve as at design time: the
    winner is observed in the same way (observer / recorded test-function calls / for a real
    built-in: the new matrix equals the one of the formula with no user definition at all)."""
    w = cfg["world"]
    del w.seen[:], w.calls[:], w.call_args[:]
    which, obj = term_part(cfg, dm)
    if obj is None:
        return
    out["new_part"] = which
    try:
        with contextlib.redirect_stdout(io.StringIO()):
            new = obj.evaluate_new_data(cfg["data"].copy())
    except Exception as e:  # noqa
        base = baseline_new(cfg) if cfg["real"] is not None else None
        if base is not None and base == ("error", type(e).__name__) and not w.calls:
            out["new_ok"] = "builtin:" + cfg["real"]       # raises exactly as without any user name
            out["new_via"] = "same-exception-as-baseline"
        else:
            out["new_err"] = type(e).__name__
        return
    if cfg["real"] is not None and (cfg["role"] == "callee" or cfg["form"] == "encoding"):
        if w.calls:
            out["new_ok"] = w.calls[-1]
        elif baseline_new(cfg) == ("ok", _part_matrix(new)):
            out["new_ok"] = "builtin:" + cfg["real"]
        else:
            out["new_ok"] = "unknown:differs-from-baseline"
    elif cfg["role"] == "arg":
        out["new_ok"] = w.classify(w.seen[-1]) if w.seen else "unknown:observer-not-called"
        predict_late_column(cfg, obj, out)
    else:
        out["new_ok"] = w.calls[-1] if w.calls else "unknown:no-test-function-called"


def predict_late_column(cfg, obj, out):
    """The name was resolved OUTSIDE the data frame at design time (no such column then); the new
    frame has a column of that name.  "Looked up first among the data-frame columns": the frame of
    this evaluation is the new one, so the column wins (tenth seeded wave, C11_O: the new frame
    was cut down to the design-time columns)."""
    w = cfg["world"]
    name = cfg["name"]
    if cfg["form"] not in ("plain", "kw", "op", "nested", "group", "bq", "bq_space") or "D" in cfg["desc"].get("subset", "") \
            or name in cfg["data"].columns or cfg["head"] != name:
        return
    late = cfg["data"].copy()
    late[name] = [SCOPE_CODE["D"]] * len(late)
    del w.seen[:], w.calls[:], w.call_args[:]
    try:
        with contextlib.redirect_stdout(io.StringIO()):
            obj.evaluate_new_data(late)
    except Exception as e:  # noqa
        out["late_err"] = type(e).__name__
        return
    out["late_ok"] = w.classify(w.seen[-1]) if w.seen else "unknown:observer-not-called"


def run_impl(cfg, idx=0):
    """Run the real implementation on the case. -> canonical outcome dict."""
    from formulae import design_matrices, model_description
    from formulae.transforms import TRANSFORMS
    from formulae.categorical import ENCODINGS
    w = cfg["world"]

    def obs(v=None):
        w.seen.append(v)
        if isinstance(v, (np.ndarray, pd.Series)):
            return np.asarray(v, dtype=float)
        return np.zeros(N_ROWS)

    def idn(v):
        return v

    registry = ENCODINGS if idx % 2 else TRANSFORMS
    added = {"obs__": obs, "idn__": idn}
    saved_t = dict(TRANSFORMS)
    saved_e = dict(ENCODINGS)
    out = {}
    try:
        TRANSFORMS.update(added)
        registry.update(cfg["builtin_entries"])
        live = {**TRANSFORMS, **ENCODINGS}
        if cfg["real"] is not None:
            w.remember(live[cfg["real"]], "builtin:" + cfg["real"])
        if isinstance(cfg["env"], int) and cfg["env"] < 0:
            w.remember(cfg["formula"], "dm:formula")
            w.by_value[("str", "drop")] = "dm:na_action"
            w.by_value[("int", 1)] = "capture:reference"
            w.by_value[("int", int(cfg["env"]) + 1)] = "capture:depth"
        try:
            out["var_names"] = sorted(model_description(cfg["formula"]).var_names)
        except Exception as e:  # noqa
            out["var_names"] = "error:" + type(e).__name__
        if cfg["desc"].get("reuse"):
            # the same Environment object was already used by an earlier call whose
            # extra_namespace bound the name: nothing of that call may be visible now
            prev = w.fn("PREV") if cfg["role"] == "callee" else w.vec("PREV")
            try:
                with contextlib.redirect_stdout(io.StringIO()):
                    design_matrices(cfg["formula"], cfg["data"], env=cfg["env"],
                                    extra_namespace={cfg["head"]: prev, "unrelated_prev__": 1})
            except Exception:  # noqa
                pass
            del w.seen[:], w.calls[:], w.call_args[:]
        call = (design_matrices, (cfg["formula"], cfg["data"]),
                {"env": cfg["env"], "extra_namespace": cfg["extra"], "na_action": "drop"})
        try:
            # (the library prints a line on some exceptions: keep the check's output clean)
            with contextlib.redirect_stdout(io.StringIO()):
                dm, n_above = run_chain(cfg["frames"], call)
            out["n_above"] = n_above
        except Exception as e:  # noqa
            out["err"] = "error"
            out["cls"] = type(e).__name__
            f = inspect.currentframe()
            n = 0
            while f is not None:
                n += 1
                f = f.f_back
            del f
            out["n_above"] = n + 1      # run_chain's own frame
            return out
        # winner
        if cfg["real"] is not None and (cfg["role"] == "callee" or cfg["form"] == "encoding"):
            base = baseline(cfg)
            if w.calls:
                out["ok"] = w.calls[-1]
            elif base == ("ok", _matrices(dm)):
                out["ok"] = "builtin:" + cfg["real"]
            else:
                out["ok"] = "unknown:differs-from-baseline"
        elif cfg["role"] == "arg":
            out["ok"] = w.classify(w.seen[-1]) if w.seen else "unknown:observer-not-called"
            out["n_obs"] = len(w.seen)
        else:
            out["ok"] = w.calls[-1] if w.calls else "unknown:no-test-function-called"
            out["n_calls"] = len(w.calls)
        # cross-check with the design matrix where the term's column is the winner's vector
        if cfg["real"] is None and cfg["desc"]["kind"] not in ("negative_env", "special_value") and cfg["form"] in ("plain", "kw", "op", "nested", "bq", "bq_space",
                                                   "dotted", "dotted2", "dotted3", "dotted4"):
            terms = [t for t in dm.common.terms if t != "Intercept"]
            col = np.asarray(dm.common[terms[0]]).ravel()
            out["column"] = CODE_TAG.get(float(col[0]), "unknown:column")
        # prediction stage (the registries are still in the state of the design-time call)
        if cfg["desc"]["kind"] in PREDICTION_KINDS:
            predict(cfg, dm, out)
    finally:
        TRANSFORMS.clear()
        TRANSFORMS.update(saved_t)
        ENCODINGS.clear()
        ENCODINGS.update(saved_e)
    return out


def baseline_error_outcome(cfg, out):
    """Real built-in as callee whose baseline itself raises (e.g. `Sum(x)`): the call raises the
    same way iff the built-in was the callee and no user function was called."""
    base = baseline(cfg)
    if base[0] == "error" and out.get("err") and not cfg["world"].calls \
            and out.get("cls") == base[1]:
        return {"ok": "builtin:" + cfg["real"], "via": "same-exception-as-baseline",
                "cls": out.get("cls"), "n_above": out["n_above"], "var_names": out.get("var_names")}
    return out


# ------------------------------------------------------------------------------------------------
# the enumeration
# ------------------------------------------------------------------------------------------------
def subsets(letters):
    for r in range(len(letters) + 1):
        for c in itertools.combinations(letters, r):
            yield "".join(c)


def enumerate_cases(tier, builtins_keys, seed=0):
    cases = _enumerate_cases(tier, builtins_keys)
    # every configuration above is also run with its callers living in named modules: half of them
    # keep callers without any `__name__` (as before), the others draw one name per caller
    for i, c in enumerate(cases):
        r = rng_for(seed, "c11", "modules", i)
        if r.random() < 0.5:
            c["modules"] = [r.choice(MODULE_NAMES + [PLAIN_MODULE, None]) for _ in range(N_FRAMES)]
    # (11) the module a caller lives in is no part of the selection: every module name x which of the
    # callers carry it x env depth x frame kind, with decoy bindings in all non-selected callers
    seen = set()
    for role, form in (("arg", "plain"), ("callee", "dotted2")):
        for name in MODULE_NAMES:
            for placement in MODULE_PLACEMENTS:
                for k in range(N_FRAMES):
                    mods = place_modules(name, placement, k)
                    combos = [(fk, s) for fk in ("func", "exec") for s in ("LG", "G", "")]
                    if role == "arg":
                        combos.append(("module", "L"))
                    for fk, s in combos:
                        key = (role, tuple(mods), k, fk, s)
                        if key in seen:
                            continue
                        seen.add(key)
                        cases.append({"kind": "module_name", "role": role, "form": form, "subset": s,
                                      "k": k, "frames": fk, "decoys": True, "modules": mods})
    return cases


def _enumerate_cases(tier, builtins_keys):
    cases = []
    # (1) the statement's configuration space
    for role, forms in (("arg", ARG_FORMS), ("callee", CALLEE_FORMS)):
        for form in forms:
            ident = ARG_FORMS[form][2] if role == "arg" else True
            kinds = ["func", "exec"] if ident else ["exec"]
            for fk in kinds:
                for decoys in (False, True):
                    for k in range(N_FRAMES):
                        for s in subsets(SCOPES):
                            cases.append({"kind": "main", "role": role, "form": form, "subset": s,
                                          "k": k, "frames": fk, "decoys": decoys,
                                          "extra_none": (k + len(s)) % 2 == 0})
    # (2) real registry keys: user scopes cannot shadow them, a data column can (arguments)
    keys = builtins_keys if tier == "thorough" else [b for b in QUICK_BUILTINS if b in builtins_keys]
    depths = range(N_FRAMES) if tier == "thorough" else (0, 2)
    for b in keys:
        for role in ("arg", "callee"):
            for k in depths:
                for s in subsets("DLGX"):
                    cases.append({"kind": "builtin", "role": role, "form": "plain", "builtin": b,
                                  "subset": s, "k": k, "frames": "func", "decoys": True})
    for b in ("Treatment", "Sum"):
        if b in builtins_keys:
            for k in depths:
                for s in subsets("LGX"):
                    cases.append({"kind": "builtin", "role": "arg", "form": "encoding", "builtin": b,
                                  "subset": s, "k": k, "frames": "func", "decoys": True})
    # (3) dotted callee: the first scope binding the head wins even if its object lacks the attribute
    for form in ("dotted2", "dotted3", "dotted4"):
        depth_path = len(CALLEE_FORMS[form][1].split(".")) - 1
        for first, second in itertools.combinations("BLGX", 2):
            for at in range(depth_path):
                cases.append({"kind": "missing_attr", "role": "callee", "form": form,
                              "subset": first + second, "k": 1, "frames": "func", "decoys": False,
                              "missing": {"scope": first, "at": at}})
    for s in subsets("BLGX"):
        cases.append({"kind": "dotted_arg_object", "role": "arg", "form": "dotted", "subset": s,
                      "k": 1, "frames": "func", "decoys": False, "bind_head_object": True})
    # (4) module-level callers (f_locals is f_globals) and mixed frame kinds
    for role, form in (("arg", "plain"), ("callee", "dotted2")):
        for k in range(N_FRAMES):
            for s in ("", "L", "LX", "BL", "DL", "X"):
                cases.append({"kind": "module_level", "role": role, "form": form, "subset": s, "k": k,
                              "frames": "module", "decoys": True})
            for s in subsets("LGX"):
                cases.append({"kind": "mixed_frames", "role": role, "form": form, "subset": s, "k": k,
                              "frames": ["func", "exec", "module", "func"], "decoys": True})
    # (5) the same name as callee and as argument of one call
    for s in subsets(SCOPES):
        cases.append({"kind": "same_name", "role": "callee", "form": "plain", "subset": s, "k": 0,
                      "frames": "func", "decoys": False, "same_name": True})
    # (6) env: deeper than the constructed callers, too deep, not an integer, an Environment
    for s in ("", "X", "L"):
        for rel in ("first_harness", "last_frame", "one_too_deep", "two_too_deep", "far_too_deep"):
            cases.append({"kind": "deep", "role": "arg", "form": "plain", "subset": s, "rel": rel,
                          "frames": "func", "decoys": True})
    for other in ("str", "float", "none"):
        cases.append({"kind": "env_type", "role": "arg", "form": "plain", "subset": "LGX", "k": 0,
                      "frames": "func", "decoys": True, "env": {"other": other}})
    cases.append({"kind": "env_bool", "role": "arg", "form": "plain", "subset": "LG", "k": 1,
                  "frames": "func", "decoys": True, "env": {"int": 1, "as_bool": True}})
    for role, form in (("arg", "plain"), ("callee", "plain"), ("callee", "dotted3")):
        for n in range(0, 5):
            for defined in subsets("".join(str(i) for i in range(n))):
                for s in ("", "X", "B", "D", "BX", "DBX"):
                    spec = [("dict", f"E{i}" if str(i) in defined else None) for i in range(n)]
                    cases.append({"kind": "env_instance", "role": role, "form": form, "subset": s,
                                  "k": 0, "frames": "func", "decoys": True,
                                  "env": {"environment": spec}})
        for s in ("", "X", "B"):
            nested = [("vld", [("dict", None), ("dict", "E1")]), ("dict", "E2"),
                      ("vld", [("vld", [("dict", "E3")])])]
            cases.append({"kind": "env_instance_nested", "role": role, "form": form, "subset": s,
                          "k": 0, "frames": "func", "decoys": True, "env": {"environment": nested}})
            nested2 = [("vld", [("dict", None), ("vld", [])]), ("dict", "E5"), ("dict", "E6")]
            cases.append({"kind": "env_instance_nested", "role": role, "form": form, "subset": s,
                          "k": 0, "frames": "func", "decoys": True, "env": {"environment": nested2}})
    # (9) one Environment object passed to two calls with different extra_namespace dicts
    for role, form in (("arg", "plain"), ("callee", "plain"), ("callee", "dotted2")):
        for n in (1, 2):
            for defined in subsets("".join(str(i) for i in range(n))):
                for s in ("", "X", "B", "D"):
                    spec = [("dict", f"E{i}" if str(i) in defined else None) for i in range(n)]
                    cases.append({"kind": "env_reuse", "role": role, "form": form, "subset": s,
                                  "k": 0, "frames": "func", "decoys": True, "reuse": True,
                                  "extra_none": s == "" and n == 2,
                                  "env": {"environment": spec}})
    # (10) names that are also Python builtins: the interpreter's builtins are not a scope
    for nm in ("abs", "max", "id", "round"):
        for role in ("arg", "callee"):
            for k in (0, 1):
                for s in ("", "X", "L", "G", "GX"):
                    cases.append({"kind": "python_builtin_name", "role": role, "form": "plain",
                                  "subset": s, "k": k, "frames": "func" if k == 0 else "exec",
                                  "decoys": False, "name": nm})
    # (8) a scope binds the name to None / 0 / "" / False: it is a binding like any other
    for val in SPECIAL_VALUES:
        for k in (0, 1, 2):
            for s in subsets("LGX"):
                for at in s:
                    for fk in ("func", "exec"):
                        cases.append({"kind": "special_value", "role": "arg", "form": "plain",
                                      "subset": s, "k": k, "frames": fk, "decoys": k == 2,
                                      "special": {"scope": at, "value": val}})
    # (7) negative env (outside the statement): frames of design_matrices / capture themselves
    for e in (-1, -2, -7):
        for nm in ("formula", "na_action", "reference", "depth", "zz"):
            for s in ("", "X"):
                cases.append({"kind": "negative_env", "role": "arg", "form": "plain", "subset": s,
                              "k": 0, "frames": "func", "decoys": True, "env": {"int": e},
                              "name": nm})
    return cases


def harness_frames_clean(names):
    """The frames of the harness (from here upwards) bind none of the test names."""
    f = inspect.currentframe()
    bad = []
    while f is not None:
        for n in names:
            if n in f.f_locals or n in f.f_globals:
                bad.append((f.f_code.co_name, n))
        f = f.f_back
    del f
    return bad


def explore(tier, seed, res=None, replay=None):
    res = res or Result()
    res.rule = ("one case = one configuration (which of data / registry / selected caller's locals / "
                "its globals / extra_namespace bind the name, role, syntactic form, env, frame kind, "
                "decoy bindings in the other callers); non-trivial = at least two scopes of the "
                "configuration (decoys included) bind the name, or none does, or the env is too "
                "deep / not an integer; distinct by configuration; the configurations of the "
                "statement's space and the real-registry-key cases are resolved twice: by "
                "design_matrices and by evaluate_new_data on the design; the callers live in modules "
                "with user-legitimate names incl. ones that start with / contain 'formulae' (kind "
                "`module_name`: every name x placement x depth x frame kind; half of all other "
                "configurations with drawn names)")
    tables = ask([{"op": "c11_tables"}])[0]
    builtins_keys = tables["builtins_keys"]
    from formulae.transforms import TRANSFORMS
    from formulae.categorical import ENCODINGS
    live_keys = sorted({**TRANSFORMS, **ENCODINGS})
    if live_keys != builtins_keys:
        res.mismatches.append({"case": {"kind": "tables"}, "impl": live_keys, "model": builtins_keys})
    if replay is not None:
        descs = [replay["desc"] if "desc" in replay else replay]
    else:
        descs = enumerate_cases(tier, builtins_keys, seed)
        res.exhaustive = True
    dirty = harness_frames_clean(["zz", "mq", "z z", "zq.w"])
    if dirty:
        res.notes.append(f"harness frames bind test names {dirty}: 'deep' cases skipped")
        descs = [d for d in descs if d["kind"] != "deep"]

    cfgs, outs, reqs = [], [], []
    n_above_probe = None
    for idx, desc in enumerate(descs):
        desc = dict(desc)
        if desc["kind"] == "deep":
            # depth of the real stack above the constructed callers is only known at run time:
            # probe it with a harmless call through the same path
            if n_above_probe is None:
                probe = build({"kind": "probe", "role": "arg", "form": "plain", "subset": "D",
                               "k": 0, "frames": "func"})
                n_above_probe = run_impl(probe, 0)["n_above"]
            desc["k"] = {"first_harness": N_FRAMES, "last_frame": N_FRAMES + n_above_probe - 1,
                         "one_too_deep": N_FRAMES + n_above_probe,
                         "two_too_deep": N_FRAMES + n_above_probe + 1,
                         "far_too_deep": N_FRAMES + n_above_probe + 7}[desc["rel"]]
        cfg = build(desc)
        if desc.get("same_name"):
            cfg["formula"] = "y ~ zz(zz)"
            cfg["var_names"] = ["y", "zz"]
            cfg["request"]["var_names"] = ["y", "zz"]
        out = run_impl(cfg, idx)
        if cfg["real"] is not None and cfg["role"] == "callee":
            out = baseline_error_outcome(cfg, out)
        stack = [CAPTURE_FRAME, DM_FRAME] + [frame_model(fr) for fr in cfg["frames"]] + \
            [{"locals": [], "globals": []}] * out["n_above"]
        cfg["request"]["stack"] = stack
        cfgs.append(cfg)
        outs.append(out)
        reqs.append(cfg["request"])
        if desc.get("same_name"):
            # second question on the same run: what did the *argument* `zz` resolve to?
            w = cfg["world"]
            out2 = dict(out)
            if "ok" in out:
                out2["ok"] = (w.classify(w.call_args[-1][0]) if w.call_args and w.call_args[-1]
                              else "unknown:no-argument")
            out2.pop("column", None)
            arg_req = dict(cfg["request"])
            arg_req.update({"role": "arg", "segments": ["zz"]})
            cfg2 = dict(cfg, role="arg", desc=dict(desc, question="argument"))
            if "ok" not in out:
                # the callee lookup raised first; the argument was never evaluated
                continue
            cfgs.append(cfg2)
            outs.append(out2)
            reqs.append(arg_req)

    answers = ask(reqs) if reqs else []

    for cfg, out, ans in zip(cfgs, outs, answers):
        desc = cfg["desc"]
        res.evaluations += 1
        res.traces += 1
        case = {"desc": desc, "formula": cfg["formula"]}
        model, spec = ans["model"], ans["spec"]
        impl_view = out.get("ok") if "ok" in out else "error"
        model_view = model["ok"]["t"] if "ok" in model else "error"
        res.count("kind:" + desc["kind"])
        res.count("role:" + cfg["role"])
        res.count("form:" + cfg["form"])
        res.count("impl:" + (impl_view if impl_view == "error" or impl_view in SCOPE_CODE
                             else impl_view.split(":")[0].split("@")[0] + "…"))
        if impl_view == "error":
            res.count("impl_error:" + out.get("cls", "?"))
            if "err" in model and model["err"] != out.get("cls"):
                res.count("error_class_differs_from_model:" + model["err"] + "/" + out.get("cls", "?"))
        if ans["model"] != ans["model_documented"]:
            res.count("generated_wiring_differs_from_documented")
        # (a literal inside a call contributes the name "" to var_names: harmless, dropped here)
        if isinstance(out.get("var_names"), list):
            out["var_names"] = [v for v in out["var_names"] if v != ""]
        if out.get("var_names") != cfg["var_names"]:
            res.mismatches.append({"case": case, "impl": {"var_names": out.get("var_names")},
                                   "model": {"var_names": cfg["var_names"]}})
        if "column" in out and out["column"] != out.get("ok"):
            res.mismatches.append({"case": case, "impl": out,
                                   "model": "design-matrix column and observer disagree"})
        if impl_view != model_view:
            res.mismatches.append({"case": case, "impl": out, "model": model})
        if spec is not None:
            spec_view = spec["ok"]["t"] if "ok" in spec else "error"
            if impl_view != spec_view:
                if spec_view == "error":
                    why = (f"a name the statement leaves undefined resolved to {impl_view} instead of "
                           "raising")
                elif impl_view == "error":
                    why = f"raised {out.get('cls')} although the statement resolves the name to {spec_view}"
                else:
                    why = f"resolved to {impl_view}, the documented order gives {spec_view}"
                res.failures.append({"case": case, "impl": out, "expected": spec, "why": why,
                                     "finding": None})
        if ("new_ok" in out or "new_err" in out) and spec is not None and impl_view != "error":
            # the same term evaluated on new data: the name resolves as the statement says (as at
            # design time)
            res.count("prediction-stage resolutions (evaluate_new_data after design_matrices)")
            spec_view = spec["ok"]["t"] if "ok" in spec else "error"
            new_view = out.get("new_ok", "error")
            if new_view != model_view:
                res.mismatches.append({"case": dict(case, stage="evaluate_new_data"), "impl": out,
                                       "model": model})
            if new_view != spec_view:
                res.count("prediction-stage resolutions that differ from the documented order")
                res.failures.append({
                    "case": dict(case, stage="evaluate_new_data", part=out.get("new_part")),
                    "impl": out, "expected": spec, "finding": None,
                    "why": (f"design_matrices resolved the name to {impl_view}; evaluate_new_data on the "
                            f"same design " + (f"raised {out.get('new_err')}" if new_view == "error"
                                               else f"resolved it to {new_view}")
                            + f", the documented order gives {spec_view}")})
        if "late_ok" in out or "late_err" in out:
            res.count("prediction-stage resolutions with a column the design-time frame lacked")
            late_view = out.get("late_ok", "error")
            if late_view != "D":
                res.failures.append({
                    "case": dict(case, stage="evaluate_new_data-late-column"),
                    "impl": out, "expected": {"ok": {"t": "D"}}, "finding": None,
                    "why": (f"the new frame has a column {cfg['name']!r} (the design-time frame had "
                            f"none and the name came from {impl_view}); evaluate_new_data "
                            + (f"raised {out.get('late_err')}" if late_view == "error"
                               else f"resolved the name to {late_view}")
                            + ", data-frame columns come first")})
        if desc.get("reuse") and impl_view == "PREV":
            # (the statement's order is given for integer `env`; whatever the Environment object
            # holds, a value that only an EARLIER call's extra_namespace bound is in none of the
            # scopes of this call: "a name defined in none of these raises instead of resolving to
            # something else")
            res.failures.append({"case": case, "impl": out, "expected": model, "finding": None,
                                 "why": "resolved to the value bound by the extra_namespace of an "
                                        "earlier call that used the same Environment object"})
        n_def = len(desc.get("subset", "")) + (2 * (N_FRAMES - 1) if desc.get("decoys") else 0)
        if n_def >= 2 or n_def == 0 or desc["kind"] in ("deep", "env_type"):
            res.nontrivial.add(json.dumps(desc, sort_keys=True))
        if len(res.samples) < 8 and res.evaluations % 397 == 1:
            res.samples.append({"desc": desc, "formula": cfg["formula"], "impl": out, "model": model,
                                "spec": spec})
    return res
