"""Translator part for C11 (written by the C11 work package; imported by extract_tables.generate)."""
import ast
import os
import sys

from extract_tables import _src, _strip_doc, _methods, _self_call, REPO  # noqa: F401

# ------------------------------------------------------------------------------------------------
# C11: wiring of name resolution (environment.py, matrices.py, terms/call.py, terms/call_resolver.py,
# terms/variable.py) + the keys of the live TRANSFORMS / ENCODINGS registries
# ------------------------------------------------------------------------------------------------
def extract_c11():
    """Lean text block with the C11 wiring tables.  Self-contained (uses only `ast`, `_src`)."""
    why = []

    def bad(msg):
        why.append(msg)

    def functions(tree):
        out = {}
        for node in ast.walk(tree):
            if isinstance(node, ast.ClassDef):
                for n in node.body:
                    if isinstance(n, ast.FunctionDef):
                        out[node.name + "." + n.name] = n
        for n in tree.body:
            if isinstance(n, ast.FunctionDef):
                out[n.name] = n
        return out

    def is_name(node, ident):
        return isinstance(node, ast.Name) and node.id == ident

    def is_attr(node, base, attr):
        return isinstance(node, ast.Attribute) and node.attr == attr and is_name(node.value, base)

    def handler_is(h, exc):
        return h.type is not None and is_name(h.type, exc)

    def lean_strs(xs):
        return "[" + ", ".join('"%s"' % x for x in xs) + "]"

    def lean_bool(b):
        return "true" if b else "false"

    trees = {}
    for key, rel in [("env", "formulae/environment.py"), ("mat", "formulae/matrices.py"),
                     ("call", "formulae/terms/call.py"),
                     ("res", "formulae/terms/call_resolver.py"),
                     ("var", "formulae/terms/variable.py")]:
        try:
            trees[key] = functions(_src(rel))
        except Exception as e:  # noqa
            bad(f"cannot parse {rel}: {e}")
            trees[key] = {}

    # -- environment.py: VarLookupDict.__init__  `self._dicts = [{}] + list(dicts)`
    leading = False
    fn = trees["env"].get("VarLookupDict.__init__")
    found = False
    for st in (fn.body if fn else []):
        if (isinstance(st, ast.Assign) and len(st.targets) == 1
                and is_attr(st.targets[0], "self", "_dicts")):
            v = st.value

            def is_list_dicts(x):
                return (isinstance(x, ast.Call) and is_name(x.func, "list") and len(x.args) == 1
                        and is_name(x.args[0], "dicts"))
            if (isinstance(v, ast.BinOp) and isinstance(v.op, ast.Add)
                    and isinstance(v.left, ast.List) and len(v.left.elts) == 1
                    and isinstance(v.left.elts[0], ast.Dict) and not v.left.elts[0].keys
                    and is_list_dicts(v.right)):
                leading, found = True, True
            elif is_list_dicts(v):
                leading, found = False, True
    if not found:
        bad("VarLookupDict.__init__: `self._dicts = [{}] + list(dicts)` not recognised")

    # -- VarLookupDict.__getitem__: first match in list order, KeyError otherwise
    fn = trees["env"].get("VarLookupDict.__getitem__")
    body = _strip_doc(fn.body) if fn else []
    ok_get = False
    if (len(body) == 2 and isinstance(body[0], ast.For) and is_attr(body[0].iter, "self", "_dicts")
            and isinstance(body[0].target, ast.Name) and not body[0].orelse
            and len(body[0].body) == 1 and isinstance(body[0].body[0], ast.Try)
            and isinstance(body[1], ast.Raise) and isinstance(body[1].exc, ast.Call)
            and is_name(body[1].exc.func, "KeyError")):
        tr = body[0].body[0]
        d = body[0].target.id
        if (len(tr.body) == 1 and isinstance(tr.body[0], ast.Return)
                and isinstance(tr.body[0].value, ast.Subscript)
                and is_name(tr.body[0].value.value, d) and is_name(tr.body[0].value.slice, "key")
                and len(tr.handlers) == 1 and handler_is(tr.handlers[0], "KeyError")
                and len(tr.handlers[0].body) == 1 and isinstance(tr.handlers[0].body[0], ast.Pass)
                and not tr.orelse and not tr.finalbody):
            ok_get = True
    if not ok_get:
        bad("VarLookupDict.__getitem__: not `for d in self._dicts: try: return d[key] except "
            "KeyError: pass` + `raise KeyError(key)`")

    # -- Environment.namespace / with_outer_namespace
    fn = trees["env"].get("Environment.namespace")
    body = _strip_doc(fn.body) if fn else []
    if not (len(body) == 1 and isinstance(body[0], ast.Return)
            and isinstance(body[0].value, ast.Call) and is_name(body[0].value.func, "VarLookupDict")
            and len(body[0].value.args) == 1
            and is_attr(body[0].value.args[0], "self", "_namespaces")):
        bad("Environment.namespace: not `return VarLookupDict(self._namespaces)`")
    fn = trees["env"].get("Environment.__init__")
    body = _strip_doc(fn.body) if fn else []
    if not (len(body) == 1 and isinstance(body[0], ast.Assign)
            and is_attr(body[0].targets[0], "self", "_namespaces")
            and isinstance(body[0].value, ast.Call) and is_name(body[0].value.func, "list")
            and len(body[0].value.args) == 1 and is_name(body[0].value.args[0], "namespaces")):
        bad("Environment.__init__: not `self._namespaces = list(namespaces)`")
    appended = True
    fn = trees["env"].get("Environment.with_outer_namespace")
    body = _strip_doc(fn.body) if fn else []
    ok_outer = False
    if (len(body) == 1 and isinstance(body[0], ast.Return) and isinstance(body[0].value, ast.Call)
            and len(body[0].value.args) == 1 and isinstance(body[0].value.args[0], ast.BinOp)
            and isinstance(body[0].value.args[0].op, ast.Add)):
        b = body[0].value.args[0]

        def is_outer_list(x):
            return (isinstance(x, ast.List) and len(x.elts) == 1
                    and is_name(x.elts[0], "outer_namespace"))
        if is_attr(b.left, "self", "_namespaces") and is_outer_list(b.right):
            appended, ok_outer = True, True
        elif is_outer_list(b.left) and is_attr(b.right, "self", "_namespaces"):
            appended, ok_outer = False, True
    if not ok_outer:
        bad("Environment.with_outer_namespace: not `self._namespaces + [outer_namespace]`")

    # -- Environment.capture: depth = env + reference; for _ in range(depth + c); cls([frame.a, frame.b])
    frame_scopes, loop_extra = [], 0
    fn = trees["env"].get("Environment.capture")
    ok_cap = False
    if fn is not None:
        has_depth = any(isinstance(n, ast.Assign) and is_name(n.targets[0], "depth")
                        and isinstance(n.value, ast.BinOp) and isinstance(n.value.op, ast.Add)
                        and {getattr(n.value.left, "id", None), getattr(n.value.right, "id", None)}
                        == {"env", "reference"} for n in ast.walk(fn))
        loops = [n for n in ast.walk(fn) if isinstance(n, ast.For)]
        rets = [n for n in ast.walk(fn) if isinstance(n, ast.Return) and isinstance(n.value, ast.Call)
                and is_name(n.value.func, "cls")]
        if has_depth and len(loops) == 1 and len(rets) == 1:
            it = loops[0].iter
            lp = loops[0].body
            if (isinstance(it, ast.Call) and is_name(it.func, "range") and len(it.args) == 1):
                a = it.args[0]
                if is_name(a, "depth"):
                    loop_extra, ok_rng = 0, True
                elif (isinstance(a, ast.BinOp) and isinstance(a.op, ast.Add)
                      and is_name(a.left, "depth") and isinstance(a.right, ast.Constant)
                      and isinstance(a.right.value, int) and a.right.value >= 0):
                    loop_extra, ok_rng = a.right.value, True
                else:
                    ok_rng = False
                # loop body: `if frame is None: raise ValueError(...)`; `frame = frame.f_back`
                ok_body = (len(lp) == 2 and isinstance(lp[0], ast.If)
                           and isinstance(lp[0].test, ast.Compare)
                           and is_name(lp[0].test.left, "frame")
                           and len(lp[0].test.ops) == 1 and isinstance(lp[0].test.ops[0], ast.Is)
                           and isinstance(lp[0].test.comparators[0], ast.Constant)
                           and lp[0].test.comparators[0].value is None
                           and len(lp[0].body) == 1 and isinstance(lp[0].body[0], ast.Raise)
                           and isinstance(lp[1], ast.Assign) and is_name(lp[1].targets[0], "frame")
                           and is_attr(lp[1].value, "frame", "f_back"))
                arg = rets[0].value.args
                if (len(arg) == 1 and isinstance(arg[0], ast.List)
                        and all(isinstance(e, ast.Attribute) and is_name(e.value, "frame")
                                for e in arg[0].elts)):
                    frame_scopes = [e.attr for e in arg[0].elts]
                    ok_cap = ok_rng and ok_body
    if not ok_cap:
        bad("Environment.capture: loop / `cls([frame.f_locals, frame.f_globals])` not recognised")

    # -- matrices.design_matrices: Environment.capture(env, reference=c); with_outer_namespace(extra_namespace)
    reference = 0
    fn = trees["mat"].get("design_matrices")
    ok_dm = False
    if fn is not None:
        stmts = [n for n in fn.body if isinstance(n, ast.Assign) and is_name(n.targets[0], "env")]
        if (len(stmts) == 2 and isinstance(stmts[0].value, ast.Call)
                and is_attr(stmts[0].value.func, "Environment", "capture")
                and len(stmts[0].value.args) >= 1 and is_name(stmts[0].value.args[0], "env")):
            c = stmts[0].value
            ref = None
            if len(c.args) == 2:
                ref = c.args[1]
            for kw in c.keywords:
                if kw.arg == "reference":
                    ref = kw.value
            if ref is None:                     # not passed: the default of `capture`
                d = trees["env"].get("Environment.capture")
                got = False
                if d is not None and d.args.defaults:
                    names = [a.arg for a in d.args.args][-len(d.args.defaults):]
                    for n, dv in zip(names, d.args.defaults):
                        if n == "reference" and isinstance(dv, ast.Constant):
                            reference, got = dv.value, True
            else:
                got = (isinstance(ref, ast.Constant) and isinstance(ref.value, int)
                       and not isinstance(ref.value, bool) and ref.value >= 0)
                reference = ref.value if got else 0
            w = stmts[1].value
            ok_w = (isinstance(w, ast.Call) and is_attr(w.func, "env", "with_outer_namespace")
                    and len(w.args) == 1 and is_name(w.args[0], "extra_namespace"))
            ok_or = any(isinstance(n, ast.Assign) and is_name(n.targets[0], "extra_namespace")
                        and isinstance(n.value, ast.BoolOp) and isinstance(n.value.op, ast.Or)
                        and is_name(n.value.values[0], "extra_namespace")
                        and isinstance(n.value.values[1], ast.Dict) and not n.value.values[1].keys
                        for n in fn.body)
            ok_dm = got and ok_w and ok_or
    if not ok_dm:
        bad("design_matrices: `Environment.capture(env, reference=…)` / "
            "`env.with_outer_namespace(extra_namespace)` not recognised")

    # -- call.py Call.set_type: Environment([{**TRANSFORMS, **ENCODINGS}]).with_outer_namespace(env.namespace)
    call_order, merge = [], []
    fn = trees["call"].get("Call.set_type")
    ok_call = False
    if fn is not None:
        def classify(x):
            if (isinstance(x, ast.Dict) and x.keys and all(k is None for k in x.keys)
                    and all(isinstance(v, ast.Name) and v.id in ("TRANSFORMS", "ENCODINGS")
                            for v in x.values)):
                merge.extend(v.id for v in x.values)
                return "builtins"
            if is_attr(x, "env", "namespace"):
                return "outer"
            return "?"

        inner = {}      # variable -> list of classified namespaces
        final = None
        for st in fn.body:
            if not isinstance(st, ast.Assign) or len(st.targets) != 1:
                continue
            v = st.value
            if (isinstance(v, ast.Call) and is_name(v.func, "Environment") and len(v.args) == 1
                    and isinstance(v.args[0], ast.List) and isinstance(st.targets[0], ast.Name)):
                inner[st.targets[0].id] = [classify(e) for e in v.args[0].elts]
            elif (is_attr(st.targets[0], "self", "env") and isinstance(v, ast.Call)
                  and isinstance(v.func, ast.Attribute) and v.func.attr == "with_outer_namespace"
                  and isinstance(v.func.value, ast.Name) and v.func.value.id in inner
                  and len(v.args) == 1):
                base = inner[v.func.value.id]
                outer = classify(v.args[0])
                final = base + [outer] if appended else [outer] + base
        evals = [n for n in ast.walk(fn) if isinstance(n, ast.Call)
                 and isinstance(n.func, ast.Attribute) and n.func.attr == "eval"
                 and is_attr(n.func.value, "self", "call")]
        ok_eval = (len(evals) == 1 and len(evals[0].args) == 2
                   and is_name(evals[0].args[0], "data_mask")
                   and is_attr(evals[0].args[1], "self", "env"))
        if final is not None and "?" not in final and ok_eval:
            call_order, ok_call = final, True
    if not ok_call:
        bad("Call.set_type: call environment not recognised")

    # -- call_resolver.py LazyVariable.eval: try data_mask[self.name] except KeyError: try env.namespace[self.name]
    lazy_order = []
    fn = trees["res"].get("LazyVariable.eval")
    body = _strip_doc(fn.body) if fn else []

    def source_of(sub):
        if isinstance(sub, ast.Subscript) and is_attr(sub.slice, "self", "name"):
            if is_name(sub.value, "data_mask"):
                return "data"
            if is_attr(sub.value, "env", "namespace"):
                return "env"
        return None

    def walk_try(tr):
        """-> list of sources or None"""
        if not (isinstance(tr, ast.Try) and len(tr.body) == 1 and isinstance(tr.body[0], ast.Assign)
                and is_name(tr.body[0].targets[0], "result") and len(tr.handlers) == 1
                and handler_is(tr.handlers[0], "KeyError") and not tr.orelse and not tr.finalbody):
            return None
        s0 = source_of(tr.body[0].value)
        if s0 is None:
            return None
        hb = tr.handlers[0].body
        if len(hb) == 1 and isinstance(hb[0], ast.Raise):
            return [s0]
        if len(hb) == 1 and isinstance(hb[0], ast.Try):
            rest = walk_try(hb[0])
            return None if rest is None else [s0] + rest
        return None

    ok_lazy = False
    if len(body) == 2 and isinstance(body[1], ast.Return) and is_name(body[1].value, "result"):
        order = walk_try(body[0])
        if order:
            lazy_order, ok_lazy = order, True
    if not ok_lazy:
        bad("LazyVariable.eval: not `try data_mask[...] except KeyError: try env.namespace[...]`")

    # -- get_function_from_module / LazyCall.eval: callee looked up in env.namespace only
    fn = trees["res"].get("get_function_from_module")
    ok_callee = False
    if fn is not None:
        subs = [n for n in ast.walk(fn) if isinstance(n, ast.Subscript)
                and not (isinstance(n.value, ast.Name) and n.value.id in ("names",
                                                                           "inner_modules_names"))]
        split = any(isinstance(n, ast.Call) and is_attr(n.func, "name", "split")
                    and len(n.args) == 1 and isinstance(n.args[0], ast.Constant)
                    and n.args[0].value == "." for n in ast.walk(fn))
        ok_callee = (bool(subs) and all(is_attr(n.value, "env", "namespace") for n in subs)
                     and split and [a.arg for a in fn.args.args] == ["name", "env"])
    fn = trees["res"].get("LazyCall.eval")
    ok_lc = False
    if fn is not None:
        ok_lc = any(isinstance(n, ast.Assign) and is_name(n.targets[0], "callee")
                    and isinstance(n.value, ast.Call)
                    and is_name(n.value.func, "get_function_from_module")
                    and len(n.value.args) == 2 and is_attr(n.value.args[0], "self", "callee")
                    and is_name(n.value.args[1], "env") for n in fn.body)
    if not (ok_callee and ok_lc):
        bad("LazyCall.eval / get_function_from_module: callee not looked up in env.namespace only")

    # -- variable.py Variable.set_type: `x = data_mask[self.name]`
    fn = trees["var"].get("Variable.set_type")
    body = _strip_doc(fn.body) if fn else []
    if not (body and isinstance(body[0], ast.Assign) and isinstance(body[0].value, ast.Subscript)
            and is_name(body[0].value.value, "data_mask")
            and is_attr(body[0].value.slice, "self", "name")
            and [a.arg for a in fn.args.args] == ["self", "data_mask"]):
        bad("Variable.set_type: not `x = data_mask[self.name]`")

    # -- live registries
    keys = []
    try:
        import importlib
        tr = importlib.import_module("formulae.transforms")
        cat = importlib.import_module("formulae.categorical")
        keys = sorted(str(k) for k in {**tr.TRANSFORMS, **cat.ENCODINGS})
        if any('"' in k or "\\" in k for k in keys):
            bad("registry key with a quote/backslash")
            keys = [k for k in keys if '"' not in k and "\\" not in k]
    except Exception as e:  # noqa
        bad(f"cannot import the registries: {e!r}")

    lines = ["-- C11: wiring of name resolution (environment.py, matrices.py, terms/call.py,",
             "-- terms/call_resolver.py, terms/variable.py) and the keys of the live registries",
             f"def captureReference : Nat := {reference}",
             f"def captureLoopExtra : Nat := {loop_extra}",
             f"def frameScopes : List String := {lean_strs(frame_scopes)}",
             f"def callEnvOrder : List String := {lean_strs(call_order)}",
             f"def lazyVariableOrder : List String := {lean_strs(lazy_order)}",
             f"def varLookupLeadingEmpty : Bool := {lean_bool(leading)}",
             f"def outerNamespaceAppended : Bool := {lean_bool(appended)}",
             f"def builtinsMergeOrder : List String := {lean_strs(merge)}",
             f"def builtinsKeys : List String := {lean_strs(keys)}",
             f"def envShapeOk : Bool := {lean_bool(not why)}"]
    lines += [f"-- shape: {w}" for w in why]
    return "\n".join(lines) + "\n"


