"""Shared machinery of the checks: obligations (translator, lake build, axiom audit, hygiene grep),
the Lean driver, known findings, verdict, replay and evidence files."""
import fcntl
import logging
import hashlib
import json
import os
import random
import re
import subprocess
import sys
import time

HERE = os.path.dirname(os.path.abspath(__file__))
VERIF = os.path.normpath(os.path.join(HERE, ".."))
LEAN = os.path.join(VERIF, "lean")
REPO = os.environ.get("VERIF_REPO", "/repo")
DRIVER = os.path.join(LEAN, ".lake", "build", "bin", "driver")
ALLOWED_AXIOMS = {"propext", "Classical.choice", "Quot.sound"}
LEAN_ENV = dict(os.environ)


def quiet_formulae():
    """formulae configures its logger on import; silence it afterwards."""
    import warnings
    try:
        import formulae  # noqa
    except Exception:  # noqa
        pass
    logging.getLogger("formulae").setLevel(logging.CRITICAL)
    warnings.filterwarnings("ignore")


sys.path.insert(0, HERE)
if REPO not in sys.path:
    sys.path.insert(0, REPO)


# ------------------------------------------------------------------------------------------------
# obligations
# ------------------------------------------------------------------------------------------------
class Lock:
    def __init__(self, name="build"):
        self.path = os.path.join(LEAN, f".{name}.lock")

    def __enter__(self):
        self.f = open(self.path, "w")
        fcntl.flock(self.f, fcntl.LOCK_EX)
        return self

    def __exit__(self, *a):
        fcntl.flock(self.f, fcntl.LOCK_UN)
        self.f.close()


def run(cmd, cwd=None, timeout=3600, inp=None):
    p = subprocess.run(cmd, cwd=cwd, stdout=subprocess.PIPE, stderr=subprocess.STDOUT,
                       input=inp, timeout=timeout, text=True, env=LEAN_ENV)
    return p.returncode, p.stdout


def regen_tables():
    import extract_tables
    try:
        info = extract_tables.main()
        return True, info
    except Exception as e:  # translator crash = broken obligation
        return False, {"error": repr(e)}


def lake_build(targets, timeout=3000):
    with Lock():
        rc, out = run(["lake", "build"] + list(targets), cwd=LEAN, timeout=timeout)
    return rc == 0, out


def audit(prop):
    """`#print axioms` of every property theorem of `prop`; returns (ok, [(theorem, [axioms])], log)."""
    path = os.path.join("FormulaeModel", "Audit", f"{prop}.lean")
    if not os.path.exists(os.path.join(LEAN, path)):
        return False, [], f"{path} missing"
    with Lock():
        rc, out = run(["lake", "env", "lean", path], cwd=LEAN, timeout=1800)
    thms = []
    text = out.replace("\n  ", " ")
    for m in re.finditer(r"'([^']+)' depends on axioms: \[([^\]]*)\]", text):
        thms.append((m.group(1), [a.strip() for a in m.group(2).split(",") if a.strip()]))
    for m in re.finditer(r"'([^']+)' does not depend on any axioms", text):
        thms.append((m.group(1), []))
    ok = rc == 0 and bool(thms) and all(set(ax) <= ALLOWED_AXIOMS for _, ax in thms)
    return ok, thms, out


_HYG = re.compile(r"\bsorry\b|\badmit\b|^\s*axiom\s|native_decide|bv_decide|implemented_by|"
                  r"\bunsafe\s|maxHeartbeats\s+0\b")


def strip_comments(text):
    text = re.sub(r"/-.*?-/", lambda m: "\n" * m.group(0).count("\n"), text, flags=re.S)
    return "\n".join(line.split("--")[0] for line in text.split("\n"))


def hygiene():
    hits = []
    for root, _, files in os.walk(LEAN):
        if ".lake" in root:
            continue
        for fn in files:
            if fn.endswith(".lean"):
                p = os.path.join(root, fn)
                with open(p) as f:
                    body = strip_comments(f.read())
                for i, line in enumerate(body.split("\n"), 1):
                    if _HYG.search(line) and "partial def" not in line:
                        hits.append(f"{os.path.relpath(p, LEAN)}:{i}: {line.strip()}")
    return not hits, hits


def obligations(prop, extra_targets=()):
    """Regenerate tables, build the model, the driver, the tie and the property's theorems,
    audit axioms, hygiene grep.  Returns a dict; `ok` is the conjunction."""
    t0 = time.time()
    ob = {"broken": []}
    ok_t, info = regen_tables()
    ob["tables"] = info
    if not ok_t:
        ob["broken"].append("translator: " + info.get("error", "failed"))
    ok_d, log_d = lake_build(["driver"])
    ob["driver_ok"] = ok_d
    if not ok_d:
        ob["broken"].append("lake build driver (model does not compile against the regenerated "
                            "tables)")
        ob["driver_log"] = log_d[-3000:]
    targets = ["FormulaeModel.Properties.Tie", f"FormulaeModel.Properties.{prop}"] + list(
        extra_targets)
    if prop in ("C04", "C13"):  # their audits also list the bridge between the two coding models
        targets.append("FormulaeModel.Properties.Bridge")
    ok_b, log_b = lake_build(targets)
    ob["build_ok"] = ok_b
    if not ok_b:
        errs = [l for l in log_b.split("\n") if l.startswith("error:") or " error: " in l]
        ob["broken"].append("lake build " + " ".join(targets) + ": " + "; ".join(errs[:6]))
        ob["build_log"] = log_b[-3000:]
    thms = []
    if ok_b:
        ok_a, thms, log_a = audit(prop)
        if not ok_a:
            ob["broken"].append("axiom audit: " + log_a[-600:])
    ob["theorems"] = thms
    ok_h, hits = hygiene()
    if not ok_h:
        ob["broken"].append("hygiene: " + "; ".join(hits[:5]))
    ob["ok"] = not ob["broken"]
    ob["wall_s"] = round(time.time() - t0, 2)
    return ob


def leanchecker(prop):
    with Lock():
        mods = [f"FormulaeModel.Properties.{prop}"] + (
            ["FormulaeModel.Properties.Bridge"] if prop in ("C04", "C13") else [])
        rc, out = run(["lake", "env", "leanchecker"] + mods, cwd=LEAN,
                      timeout=3000)
    return rc == 0, out[-2000:]


# ------------------------------------------------------------------------------------------------
# driver
# ------------------------------------------------------------------------------------------------
def driver_available():
    return os.path.exists(DRIVER)


def ask(requests, chunk=200000):
    """Run the Lean driver on a list of request objects; returns the list of responses."""
    out = []
    for i in range(0, len(requests), chunk):
        data = "\n".join(json.dumps(r, ensure_ascii=True) for r in requests[i:i + chunk]) + "\n"
        p = subprocess.run([DRIVER], input=data, stdout=subprocess.PIPE, stderr=subprocess.PIPE,
                           text=True)
        lines = p.stdout.split("\n")
        if lines and lines[-1] == "":
            lines.pop()
        if p.returncode != 0 or len(lines) != len(requests[i:i + chunk]):
            raise RuntimeError(f"driver failed rc={p.returncode} lines={len(lines)} "
                               f"expected={len(requests[i:i + chunk])}: {p.stderr[-500:]}")
        out.extend(json.loads(l) for l in lines)
    return out


# ------------------------------------------------------------------------------------------------
# known findings, replay, evidence, verdict
# ------------------------------------------------------------------------------------------------
def known_findings(prop):
    path = os.path.join(VERIF, "known_findings.json")
    if not os.path.exists(path):
        return []
    with open(path) as f:
        data = json.load(f)
    return [k for k in data if k.get("property") == prop and k.get("status") == "open"]


def write_replay(prop, payload):
    d = os.path.join(VERIF, "replays")
    os.makedirs(d, exist_ok=True)
    h = hashlib.sha1(json.dumps(payload, sort_keys=True, default=str).encode()).hexdigest()[:12]
    rel = os.path.join("replays", f"{prop}-{h}.json")
    payload = dict(payload)
    payload["how_to_replay"] = f"./check {prop} --replay {rel}"
    with open(os.path.join(VERIF, rel), "w") as f:
        json.dump(payload, f, indent=1, default=str)
    return rel


class Result:
    """What one exploration of a property produced."""

    def __init__(self):
        self.evaluations = 0
        self.nontrivial = set()         # canonical keys of distinct non-trivial cases
        self.rule = ""
        self.samples = []
        self.mismatches = []            # model != impl           [{case, impl, model}]
        self.failures = []              # Spec.holds = false      [{case, impl, why, class}]
        self.known_hit = {}             # finding id -> count
        self.distribution = {}
        self.exhaustive = False
        self.notes = []
        self.traces = 0                 # cases compared impl vs model

    def count(self, key, n=1):
        self.distribution[key] = self.distribution.get(key, 0) + n


def finish(prop, tier, seed, ob, res, t0, assumptions, trusted_extra=(), level="proof"):
    """Verdict + evidence + output lines. Returns the exit code."""
    kf = known_findings(prop)
    open_ids = {k["id"]: k for k in kf}
    unknown_fail = [f for f in res.failures if f.get("finding") not in open_ids]
    violations = 0
    code = 0
    lines = []
    if unknown_fail:
        f = min(unknown_fail, key=lambda x: len(json.dumps(x.get('case'), default=str)))
        rel = write_replay(prop, {"property": prop, "seed": seed, "tier": tier,
                                  "kind": "failing-input", "case": f.get("case"),
                                  "impl": f.get("impl"), "expected": f.get("expected"),
                                  "why": f.get("why"), "spec_holds": False,
                                  "broken": ob["broken"],
                                  "other_failures": len(unknown_fail) - 1})
        lines.append(f"VIOLATION property={prop} replay={rel}")
        violations = len(unknown_fail)
        code = 1
    elif ob["broken"] or res.mismatches:
        broken = list(ob["broken"])
        if res.mismatches:
            broken.append(f"correspondence: {len(res.mismatches)} case(s) where the model and the "
                          "implementation differ")
        rel = write_replay(prop, {"property": prop, "seed": seed, "tier": tier,
                                  "kind": "no-failing-input-found", "broken": broken,
                                  "mismatch": res.mismatches[:3],
                                  "searched": res.evaluations})
        lines.append(f"VIOLATION property={prop} replay={rel} no-failing-input-found")
        violations = 1
        code = 1
    else:
        for k in kf:
            n = res.known_hit.get(k["id"], 0)
            lines.append(f"KNOWN-FINDING: property={prop} {k['id']} {k['what']} "
                         f"(witness {json.dumps(k['witness'])}; hit {n}x in this run)")
    thms = ob.get("theorems", [])
    axioms = sorted({a for _, ax in thms for a in ax})
    cov = {
        "obligations": max(len(thms), 1) if ob["ok"] else len(thms) + len(ob["broken"]),
        "discharged": len(thms) if ob["ok"] else 0,
        "checker_cmd": f"cd lean && lake build FormulaeModel.Properties.Tie "
                       f"FormulaeModel.Properties.{prop} && lake env lean "
                       f"FormulaeModel/Audit/{prop}.lean",
        "trusted_base": ["Lean 4.33.0 kernel", "axioms: " + (", ".join(axioms) or "none"),
                         "harness/extract_tables.py (translator)",
                         "correspondence harness + Lean driver JSON protocol"] + list(trusted_extra),
        "theorems": [t for t, _ in thms],
        "evaluations": res.evaluations,
        "programs": max(res.traces, 1),
        "disagreements_checked": len(res.mismatches) + len(res.failures),
        "distinct_nontrivial": len(res.nontrivial),
        "rule": res.rule,
        "samples": res.samples[:8],
        "traces_validated_against_impl": res.traces,
        "exhaustive": res.exhaustive,
        "input_distribution": res.distribution,
        "correspondence_mismatches": len(res.mismatches),
        "spec_failures": len(res.failures),
        "known_findings_hit": res.known_hit,
        "obligations_broken": ob["broken"],
        "notes": res.notes,
    }
    ev = {"property_id": prop, "tier": tier, "seed": seed, "level": level, "coverage": cov,
          "assumptions": assumptions, "wall_s": round(time.time() - t0, 2),
          "violations": violations}
    os.makedirs(os.path.join(VERIF, "evidence"), exist_ok=True)
    with open(os.path.join(VERIF, "evidence", f"{prop}.json"), "w") as f:
        json.dump(ev, f, indent=1, default=str)
    for l in lines:
        print(l)
    print(f"{prop} {tier} seed={seed}: theorems={len(thms)} obligations_ok={ob['ok']} "
          f"evaluations={res.evaluations} nontrivial={len(res.nontrivial)} "
          f"mismatches={len(res.mismatches)} spec_failures={len(res.failures)} "
          f"known_hits={sum(res.known_hit.values())} wall={ev['wall_s']}s exit={code}")
    sys.stdout.flush()
    return code


def rng_for(seed, *path):
    return random.Random(hashlib.sha256(repr((seed,) + path).encode()).digest())
