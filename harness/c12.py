"""C12 — call terms evaluate like the Python expression they spell.

Three observers on every case (the text of one call term, e.g. ``f(17, -x ** 2, k=z)``):

* implementation:  ``design_matrices('y ~ 0 + <call> + …', data, extra_namespace=NS)``: the term name
  (``dm.common.terms``), its column(s) (``dm.common.design_matrix``) and the arguments the recording
  callees actually received (positional / keyword, types, values);
* Python:          ``eval(<call>)`` over the same names (the oracle of the statement), plus Python's
  ``ast`` of the text and of the term name (the oracle for "the name spells the same call");
* Lean model:      name, lazy tree (as fully parenthesised Python text, evaluated by Python: the value
  the model predicts whatever the value domain), exact rational value where the value domain of
  `Model/Lazy.lean` covers it, `pyEval` of `Spec/C12.lean`, and the guard predicates
  (`PyAlphabet`, `PyCompatible`, `PyStratified`, `GroupingInert`, `nameCollision`).

Callees are the recording functions `f`, `g` and dotted attribute paths `tk.v2.scalers.unit`
(1-4 dots) through module-like objects whose levels bind the same attribute names to different
recording functions (`build_mods`); the Lean driver gets the object graph and does the lookup itself.

Failures of the specification on the implementation's output are classified KF-C12-D15 /
KF-C12-D16 only when the Lean guard puts the case in that class *and* the implementation's output
equals the model's prediction; anything else is reported as a violation.
"""
import ast
import itertools
import math
import warnings
from fractions import Fraction

import numpy as np
import pandas as pd

from common import Result, ask, rng_for

ASSUMPTIONS = [
    "value domain of the Lean model: exact rational scalars / columns, booleans, strings, None; "
    "outside it (non-integral exponents, division of a column by zero, string arithmetic, "
    "boolean-column arithmetic, |exponent| > 64, magnitudes beyond 2^1000) the model's *tree* is "
    "still compared: Python evaluates the model's fully parenthesised text",
    "columns are float64 with dyadic values, scalars small ints / dyadic decimals; values are compared "
    "with relative tolerance 1e-9 (bit-identical results are counted separately), nan == nan, "
    "numpy warnings (overflow, invalid) are silenced on both sides",
    "int vs float of Python scalars is observed in the recorded arguments (impl vs Python) but "
    "not modelled in Lean (one `num` kind)",
    "Python's reading of a text is Python's own `eval` / `ast.parse` (CPython 3.12); texts Python "
    "rejects (SyntaxError: `f(a=1, x)`, `f(k=1, k=2)`, `f(007)`) are compared with the model only",
    "identifiers are plain names of the environment (no Python keywords, no dotted variables); "
    "callees are plain names or dotted attribute paths `a.b.c.f` (1-4 dots) through module-like "
    "objects (types.ModuleType / SimpleNamespace / classes) bound in the namespace, every level of "
    "which re-uses the same attribute names for different recording functions; the Lean model gets "
    "the object graph as a flat table keyed by attribute path (objects are reachable by one path "
    "only: no aliasing of sub-objects) and performs the lookup itself; "
    "brackets `x[a]`, back-quoted names, `|`, `:`, `~`, `//`, `%` are outside the statement's "
    "alphabet and appear only in the model-vs-implementation stream",
    "exception classes are compared only as CallResolverError / AttributeError vs the model's "
    "error branch; otherwise error vs no error",
    "prediction stage: only call terms whose design-time value equals Python's are followed to new "
    "data; a text of the KF-C12-D15 class whose two readings coincide on the training frame may "
    "differ on a new frame: it is classified as that finding exactly as at design time (Lean guard "
    "PyAlphabet and not PyCompatible, and the implementation's output equals Python's evaluation of "
    "the model's tree over the frame's columns at that moment); frames have 2-7 rows of dyadic float64 values, default or string "
    "index; the group-specific path is observed through `(0 + <call> | q)` with every group of the "
    "new frame seen in training (the entry of each row in the column of its group = the call's value)",
    "String-level injectivity of the name normalisation (equal names => equal token sequences) is "
    "checked here against Python's ast, not proved in Lean",
]
TRUSTED = ["CPython 3.12 `eval`/`ast` as the definition of Python's grammar and operators",
           "numpy / pandas arithmetic on float64 columns (modelled as exact rationals)"]

N = 4
X = [1.0, 2.0, 3.0, 4.0]
Z = [2.0, 0.5, 4.0, 1.0]
C = 3
BATCH = 40

BIN_OPS = ["+", "-", "*", "/", "**", "==", "!=", "<=", "<", ">=", ">"]
CMP = {"==", "!=", "<=", "<", ">=", ">"}
UN_OPS = ["+", "-"]
LEAVES = ["x", "z", "2", "0.5", "g(x)"]

# ------------------------------------------------------------------------------------------------
# recording callees (mirrored by fnF / fnG / fnI of Driver/C12.lean)
# ------------------------------------------------------------------------------------------------
LOG = []


def canon(v):
    """Canonical, JSON-able view of a Python value (type tag + content)."""
    if isinstance(v, (pd.Series, np.ndarray)):
        a = np.asarray(v)
        if a.ndim == 0:
            return canon(a.item())
        if a.dtype == bool:
            return ["bvec", [bool(b) for b in a.tolist()]]
        if a.dtype.kind in "iuf":
            return ["vec", [float(t) for t in a.tolist()]]
        return ["obj", repr(a.tolist())]
    if isinstance(v, (bool, np.bool_)):
        return ["bool", bool(v)]
    if isinstance(v, (int, np.integer)):
        return ["int", int(v)]
    if isinstance(v, (float, np.floating)):
        return ["float", float(v)]
    if isinstance(v, str):
        return ["str", v]
    if v is None:
        return ["none"]
    return ["obj", type(v).__name__]


def _numof(v):
    if isinstance(v, (pd.Series, np.ndarray)):
        a = np.asarray(v)
        if a.shape != (N,):
            raise ValueError("shape")
        return a.astype(float)
    if isinstance(v, (bool, np.bool_)):
        return np.full(N, 1.0 if v else 0.0)
    if isinstance(v, (int, float, np.integer, np.floating)):
        return np.full(N, float(v))
    if isinstance(v, str):
        return np.full(N, float(sum(map(ord, v)) % 7 + 1))
    if v is None:
        return np.full(N, -3.0)
    raise TypeError("numof")


def f(*args, **kwargs):
    LOG.append(["f", [canon(a) for a in args], [[k, canon(v)] for k, v in kwargs.items()]])
    out = np.zeros(N)
    for i, a in enumerate(args):
        out = out + (i + 1) * _numof(a)
    for k, v in kwargs.items():
        out = out + (10 + sum(map(ord, k)) % 10) * _numof(v)
    return out


def g(v, k=1):
    LOG.append(["g", [canon(v)], [["k", canon(k)]]])
    return v * 2 + k


# ------------------------------------------------------------------------------------------------
# module-like objects for dotted callees (mirrored by ModEntry / lookupDotted of Driver/C12.lean)
# ------------------------------------------------------------------------------------------------
NS_NAMES = ["v2", "scalers", "core"]       # attributes that are namespaces again
FN_NAMES = ["unit", "rescale"]             # attributes that are recording functions
TOPS = ["tk", "lib"]
MODS = {}            # top-level name -> object
MOD_TABLE = []       # [{"p": [path], "m": [num, den]}?]  for the Lean driver
MOD_FUNS = []        # dotted paths of the functions
MOD_NSS = []         # dotted paths of the namespaces


def make_unit(m):
    """u(v, k=1) = v * m + k, recording which function object received what."""
    def unit(v, k=1):
        LOG.append([f"u{m}", [canon(v)], [["k", canon(k)]]])
        return v * m + k
    unit.__name__ = f"u{m}"
    return unit


def _mk_object(flavour, dotted, attrs):
    import types
    if flavour == "module":
        o = types.ModuleType(dotted)
        for k, v in attrs.items():
            setattr(o, k, v)
        return o
    if flavour == "simple":
        return types.SimpleNamespace(**attrs)
    return type(dotted.split(".")[-1], (), {k: (staticmethod(v) if callable(v) and not isinstance(
        v, type) else v) for k, v in attrs.items()})


def build_mods(rng):
    """`tk`: the complete tree (every namespace has every function name and, down to three levels
    below the top, every namespace name), so every path `tk(.ns){0,3}.fn` exists and the same
    attribute names are bound to different functions at every level.  `lib`: a random sparse tree
    (attributes missing at random), so that a path may fail although a same-named attribute exists
    elsewhere.  Object flavours (module / SimpleNamespace / class) are drawn at random."""
    MODS.clear()
    _PYNS.clear()
    del MOD_TABLE[:], MOD_FUNS[:], MOD_NSS[:]
    mults = list(range(3, 400))
    rng.shuffle(mults)

    def node(path, sparse):
        attrs = {}
        MOD_TABLE.append({"p": list(path)})
        MOD_NSS.append(".".join(path))
        for fn in FN_NAMES:
            if sparse and rng.random() < 0.3:
                continue
            m = mults.pop()
            attrs[fn] = make_unit(m)
            MOD_TABLE.append({"p": list(path) + [fn], "m": [m, 1]})
            MOD_FUNS.append(".".join(path + [fn]))
        if len(path) < 4:
            for ns in NS_NAMES:
                if sparse and rng.random() < 0.35:
                    continue
                attrs[ns] = node(path + [ns], sparse)
        return _mk_object(rng.choice(["module", "simple", "class"]), ".".join(path), attrs)
    MODS["tk"] = node(["tk"], False)
    MODS["lib"] = node(["lib"], True)


def mods_for(text):
    """The object table, for requests whose text mentions one of the objects."""
    return MOD_TABLE if any(t + "." in text or t + "(" in text.replace(" ", "").replace("\t", "")
                            for t in MODS) else None


def random_path(rng):
    """A dotted callee that may or may not exist: top(.ns){0,3}.fn, sometimes a namespace."""
    segs = [rng.choice(TOPS)] + [rng.choice(NS_NAMES) for _ in range(rng.randrange(0, 4))]
    if rng.random() < 0.9:
        segs.append(rng.choice(FN_NAMES))
    return ".".join(segs)


def _data():
    return pd.DataFrame({"y": [1.0, 2.0, 3.0, 4.0], "x": X, "z": Z})


def namespace():
    return {"f": f, "g": g, "c": C, **MODS}


LEAN_VARS = {"x": {"v": [[int(Fraction(t).numerator), int(Fraction(t).denominator)] for t in X]},
             "z": {"v": [[int(Fraction(t).numerator), int(Fraction(t).denominator)] for t in Z]},
             "c": {"n": [C, 1]}}


# ------------------------------------------------------------------------------------------------
# comparison helpers
# ------------------------------------------------------------------------------------------------
def feq(a, b):
    if isinstance(a, float) and isinstance(b, float):
        if math.isnan(a) or math.isnan(b):
            return math.isnan(a) and math.isnan(b)
        if math.isinf(a) or math.isinf(b):
            return a == b
        return abs(a - b) <= 1e-9 * max(1.0, abs(a), abs(b))
    return a == b


def veq(a, b):
    """Equality of canonical views (floats with tolerance, everything else exactly)."""
    if isinstance(a, list) and isinstance(b, list):
        return len(a) == len(b) and all(veq(p, q) for p, q in zip(a, b))
    if isinstance(a, float) or isinstance(b, float):
        return type(a) is type(b) and feq(a, b)
    return type(a) is type(b) and a == b


def lean_val_eq(lv, cv):
    """Lean value {"n"|"b"|"s"|"none"|"v"|"bv"} vs canonical Python view."""
    def q(p):
        return Fraction(p[0], p[1])

    def close(fr, x):
        if math.isnan(x) or math.isinf(x):
            return False
        return abs(float(fr) - x) <= 1e-9 * max(1.0, abs(x))
    tag = cv[0]
    if "n" in lv:
        return tag in ("int", "float") and close(q(lv["n"]), float(cv[1]))
    if "b" in lv:
        return tag == "bool" and lv["b"] == cv[1]
    if "s" in lv:
        return tag == "str" and lv["s"] == cv[1]
    if "none" in lv:
        return tag == "none"
    if "v" in lv:
        return tag == "vec" and len(lv["v"]) == len(cv[1]) and all(
            close(q(p), x) for p, x in zip(lv["v"], cv[1]))
    if "bv" in lv:
        return tag == "bvec" and lv["bv"] == cv[1]
    return False


# ------------------------------------------------------------------------------------------------
# trees and renderings
# ------------------------------------------------------------------------------------------------
# tree := ("leaf", text) | ("bin", op, l, r) | ("un", op, e) | ("call", name, [args], [(kw, e)])
#         | ("par", e)   (an explicit redundant grouping)
PY_LVL = {"cmp": 0, "+": 1, "-": 1, "*": 2, "/": 2, "un": 3, "**": 4, "atom": 5}
F_LVL = {"cmp": 1, "+": 2, "-": 2, "*": 3, "/": 3, "**": 5, "un": 6, "atom": 7}


def _lvl(t, table):
    if t[0] == "bin":
        return table["cmp"] if t[1] in CMP else table[t[1]]
    if t[0] == "un":
        return table["un"]
    return table["atom"]


def render(t, mode):
    """mode: 'py' minimal parentheses by Python's grammar (the text means the tree in Python),
    'formula' minimal parentheses by the formula grammar (the text means the tree for formulae),
    'full' every operator operand parenthesised.  Returns a token list."""
    k = t[0]
    if k == "leaf":
        return [t[1]]
    if k == "par":
        return ["("] + render(t[1], mode) + [")"]
    if k == "call":
        out = [t[1], "("]
        parts = [render(a, mode) for a in t[2]] + [[kw, "="] + render(v, mode) for kw, v in t[3]]
        for i, p in enumerate(parts):
            out += ([","] if i else []) + p
        return out + [")"]

    def wrap(sub, need_py, need_f):
        toks = render(sub, mode)
        if mode == "full":
            par = sub[0] in ("bin", "un")
        elif mode == "py":
            par = _lvl(sub, PY_LVL) < need_py
        else:
            par = _lvl(sub, F_LVL) < need_f
        return ["("] + toks + [")"] if par else toks
    if k == "un":
        # Python: factor: ('+'|'-') factor ; formula: unary: (+|-) unary
        return [t[1]] + wrap(t[2], 3, 6)
    op, l, r = t[1], t[2], t[3]
    if op in CMP:
        # Python: a chain is not this binary tree, both operands must be sums
        return wrap(l, 1, 1) + [op] + wrap(r, 1, 2)
    if op in "+-":
        return wrap(l, 1, 2) + [op] + wrap(r, 2, 3)
    if op in "*/":
        return wrap(l, 2, 3) + [op] + wrap(r, 3, 5)   # formula: right operand above `:` level
    # **: Python primary ** factor ; formula: unary-level ** unary-level, left-assoc
    return wrap(l, 5, 5) + [op] + wrap(r, 3, 6)


WORDY = set("abcdefghijklmnopqrstuvwxyzABCDEFGHIJKLMNOPQRSTUVWXYZ0123456789._")
PAIRS = {("*", "*"), ("/", "/"), ("=", "="), ("!", "="), ("<", "="), (">", "=")}


def join(tokens, rng=None):
    """Token list -> text. Without rng: no spaces except where adjacency would merge lexemes;
    with rng: random admissible whitespace."""
    out = []
    for i, t in enumerate(tokens):
        if i:
            a, b = tokens[i - 1][-1], t[0]
            need = (a in WORDY and b in WORDY) or (a, b) in PAIRS
            if rng is None:
                out.append(" " if need else "")
            else:
                n = rng.choice([0, 0, 1, 1, 2])
                if need and n == 0:
                    n = 1
                out.append("".join(rng.choice("  \t") for _ in range(n)))
        out.append(t)
    return "".join(out)


def small_trees(max_ops, leaves, bins, uns):
    """All operator trees with at most `max_ops` operators."""
    by_ops = {0: [("leaf", s) for s in leaves]}
    for n in range(1, max_ops + 1):
        cur = []
        for u in uns:
            for e in by_ops[n - 1]:
                cur.append(("un", u, e))
        for a in range(n):
            b = n - 1 - a
            for op in bins:
                for l in by_ops[a]:
                    for r in by_ops[b]:
                        cur.append(("bin", op, l, r))
        by_ops[n] = cur
    return [t for n in range(max_ops + 1) for t in by_ops[n]]


NUMS = ["2", "3", "0.5", ".5", "1.50", "2.0", "10", "0.25", "1", "0"]
STRS = ["'a'", '"a"', "'b c'", '"x+z"', "''", "'b  c'", "'p\tq'", '"two   blanks "']
PYLITS = ["True", "False", "None"]


def gen_tree(rng, depth, allow_misc=True):
    r = rng.random()
    if depth <= 0 or r < 0.22:
        k = rng.random()
        if k < 0.45:
            return ("leaf", rng.choice(["x", "z", "c"]))
        if k < 0.75 or not allow_misc:
            return ("leaf", rng.choice(NUMS))
        if k < 0.87:
            return ("leaf", rng.choice(STRS))
        return ("leaf", rng.choice(PYLITS))
    if r < 0.66:
        op = rng.choice(BIN_OPS if rng.random() < 0.7 else ["+", "-", "*", "/", "**", "<"])
        return ("bin", op, gen_tree(rng, depth - 1, allow_misc), gen_tree(rng, depth - 1, allow_misc))
    if r < 0.78:
        return ("un", rng.choice(UN_OPS), gen_tree(rng, depth - 1, allow_misc))
    if r < 0.92:
        if MOD_FUNS and rng.random() < 0.3:
            # a dotted callee through the module-like objects (an existing function mostly)
            path = rng.choice(MOD_FUNS) if rng.random() < 0.85 else random_path(rng)
            kws = [("k", gen_tree(rng, depth - 2, False))] if rng.random() < 0.4 else []
            return ("call", path, [gen_tree(rng, depth - 1, False)], kws)
        if rng.random() < 0.6:
            kws = [("k", gen_tree(rng, depth - 2, False))] if rng.random() < 0.4 else []
            return ("call", "g", [gen_tree(rng, depth - 1, False)], kws)
        npos = rng.choice([0, 1, 1, 2, 3])
        kws = []
        for kw in rng.sample(["k", "m", "w2"], rng.choice([0, 0, 1, 2])):
            kws.append((kw, gen_tree(rng, depth - 2, allow_misc)))
        return ("call", "f", [gen_tree(rng, depth - 1, allow_misc) for _ in range(npos)], kws)
    return ("par", gen_tree(rng, depth - 1, allow_misc))


def add_parens(t, rng, p=0.25):
    """Insert redundant grouping nodes at random places."""
    k = t[0]
    if k == "leaf":
        out = t
    elif k == "bin":
        out = ("bin", t[1], add_parens(t[2], rng, p), add_parens(t[3], rng, p))
    elif k == "un":
        out = ("un", t[1], add_parens(t[2], rng, p))
    elif k == "par":
        out = ("par", add_parens(t[1], rng, p))
    else:
        out = ("call", t[1], [add_parens(a, rng, p) for a in t[2]],
               [(kw, add_parens(v, rng, p)) for kw, v in t[3]])
    if rng.random() < p:
        out = ("par", out)
    return out


# ------------------------------------------------------------------------------------------------
# observers
# ------------------------------------------------------------------------------------------------
def _split_log(log, indices):
    """The stream of recorded calls of one formula, cut after every `f` entry whose first
    positional argument is an int that is the index of a case of this batch.  (A nested `f(0)` /
    `f(2, x)` whose literal is not an index of the batch is an ordinary recorded call; one whose
    literal is an index of the batch gives that index two segments, which `impl_batch` notices and
    answers by evaluating the batch case by case.)"""
    out, cur = {}, []
    for ent in log:
        cur.append(ent)
        if ent[0] == "f" and ent[1] and ent[1][0][0] == "int" and ent[1][0][1] in indices:
            out.setdefault(ent[1][0][1], []).append(cur)
            cur = []
    return out, cur


def _column(dm, name):
    sl = dm.common.slices[name]
    return canon(np.asarray(dm.common.design_matrix)[:, sl].reshape(N, -1)[:, 0]) \
        if (sl.stop - sl.start) == 1 else ["obj", "multi-column"]


def impl_batch(cases):
    """cases: list of (j, text) with text = 'f(j, …)'.  Returns {j: observation}."""
    from formulae import design_matrices
    res = {}
    formula = "y ~ 0 + " + " + ".join(t for _, t in cases)
    del LOG[:]
    try:
        with warnings.catch_warnings(), np.errstate(all="ignore"):
            warnings.simplefilter("ignore")
            dm = design_matrices(formula, _data(), extra_namespace=namespace())
        logs, rest = _split_log(list(LOG), {j for j, _ in cases})
        names = list(dm.common.terms)
        if len(names) != len(cases) or rest or any(len(v) != 1 for v in logs.values()):
            raise RuntimeError("batch shape")
        for (j, _), name in zip(cases, names):
            if not name.startswith(f"f({j}") or len(logs.get(j, [])) != 1:
                raise RuntimeError("batch attribution")
            res[j] = {"name": name, "value": _column(dm, name), "log": logs[j][0]}
        return res
    except Exception:  # noqa: some case fails (or attribution failed): one by one
        for j, t in cases:
            res[j] = impl_single(t)
        return res


def impl_single(text):
    """One call term on its own: resolution (model_description) then evaluation."""
    from formulae import design_matrices, model_description
    del LOG[:]
    try:
        md = model_description("y ~ 0 + " + text)
        names = [t.name for t in md.common_terms]
    except Exception as e:  # noqa
        return {"error": "resolve", "cls": type(e).__name__}
    try:
        with warnings.catch_warnings(), np.errstate(all="ignore"):
            warnings.simplefilter("ignore")
            dm = design_matrices("y ~ 0 + " + text, _data(), extra_namespace=namespace())
    except Exception as e:  # noqa
        return {"error": "eval", "cls": type(e).__name__, "name": names[0] if len(names) == 1 else names}
    names = list(dm.common.terms) if dm.common is not None else []
    if len(names) != 1 or dm.group is not None:
        return {"error": "terms", "cls": "not one common term", "names": names}
    return {"name": names[0], "value": _column(dm, names[0]), "log": list(LOG)}


_PYNS = {}


def _py_namespace():
    """The names of the formula environment, for Python's own eval: the columns as the Series the
    data mask hands out, the callees, `I` of formulae.transforms."""
    if not _PYNS:
        from formulae.transforms import TRANSFORMS
        d = _data()
        _PYNS.update(namespace())
        _PYNS.update({"x": d["x"], "z": d["z"], "I": TRANSFORMS["I"]})
    return dict(_PYNS)


def py_eval(text):
    """Python's own reading of the text over the same names."""
    try:
        with warnings.catch_warnings():
            warnings.simplefilter("ignore")
            code = compile(text, "<c12>", "eval")
    except SyntaxError:
        return {"syntax_error": True}
    except Exception as e:  # noqa (ValueError for null bytes etc.)
        return {"syntax_error": True, "cls": type(e).__name__}
    ns = _py_namespace()
    del LOG[:]
    try:
        with warnings.catch_warnings(), np.errstate(all="ignore"):
            warnings.simplefilter("ignore")
            v = eval(code, {"__builtins__": {}}, ns)
    except Exception as e:  # noqa
        return {"error": "eval", "cls": type(e).__name__}
    return {"value": canon(v), "log": list(LOG)}


def same_call(a, b):
    """Do two texts spell the same Python call (same ast, same string-literal spellings)?"""
    try:
        ta, tb = ast.parse(a, mode="eval"), ast.parse(b, mode="eval")
    except SyntaxError:
        return None
    return ast.dump(ta) == ast.dump(tb) and _strings(a) == _strings(b)


def _strings(text):
    import io
    import tokenize
    try:
        return [t.string for t in tokenize.generate_tokens(io.StringIO(text).readline)
                if t.type == tokenize.STRING]
    except Exception:  # noqa
        return None


def obs_equal(a, b):
    """Two evaluations agree: both fail, or same value and same recorded calls."""
    if ("error" in a) or ("error" in b):
        return ("error" in a) and ("error" in b)
    return veq(a["value"], b["value"]) and veq(a["log"], b["log"])


# ------------------------------------------------------------------------------------------------
# one case through all observers
# ------------------------------------------------------------------------------------------------
RESOLVE_ERR = {"binary_kind": "CallResolverError", "unary_kind": "CallResolverError",
               "callee_not_variable": "AttributeError", "assign_visited": "AttributeError",
               "symbol": "KeyError"}


def judge(res, case, io, lean, kind):
    """Compare implementation / model / Python for one case; fills `res`."""
    text = case["s"]
    res.evaluations += 1
    res.count("kind:" + kind)
    if "err" in lean and lean["err"].startswith("scan:non_ascii"):
        res.count("skipped:non_ascii")
        return
    res.traces += 1
    guards = lean.get("guards", {})
    # ---- model vs implementation -------------------------------------------------------------
    m_resolves = "name" in lean
    i_resolves = "name" in io
    mism = None
    pred = None
    if "err" in lean:                      # model: scan/parse error or not a call
        if i_resolves:
            mism = "model rejects the text, implementation builds a term"
    elif not m_resolves:                   # model: resolution error
        tag = lean["res_err"].split(":")[0]
        if tag == "unmodelled_literal":
            res.count("skipped:unmodelled_literal")
            return
        if io.get("error") != "resolve":
            mism = "model: resolution error, implementation: none"
        elif RESOLVE_ERR.get(tag) != io.get("cls"):
            mism = f"resolution error class: model {tag}, implementation {io.get('cls')}"
    else:
        if io.get("error") == "resolve":
            mism = "implementation fails to resolve, model resolves"
        else:
            iname = io.get("name")
            if iname != lean["name"]:
                mism = "term name differs from the model's"
            pred = py_eval(lean["paren"])      # the model's tree with Python's operators
            if case.get("whole") and io.get("error") == "eval" and "value" in pred and \
                    pred["value"][0] not in ("vec", "bvec"):
                # a call term whose value is not a column is refused by `Call.set_type`; the
                # statement is about terms that exist
                res.count("skipped:not_a_column")
                return
            if "syntax_error" in pred:
                pred = None
                res.count("model_text_not_python")
            elif not obs_equal(pred, io):
                mism = mism or "value / recorded arguments differ from the model's tree"
            lv = lean["value"]
            if "ok" in lv:
                if "value" not in io or not lean_val_eq(lv["ok"], io["value"]):
                    mism = mism or "value differs from the model's exact value"
                res.count("lean_value:exact")
            elif lv["err"] == "unsupported":
                res.count("lean_value:unsupported")
            else:
                res.count("lean_value:error")
                if "error" not in io:
                    mism = mism or f"model predicts an evaluation error ({lv['err']})"
    if mism:
        res.mismatches.append({"case": case, "impl": io, "model": lean, "why": mism})
    # ---- specification on the implementation's output -----------------------------------------
    pytext = _unbrace(text)                # `{e}` is to be read as `I(e)`
    py = py_eval(pytext)
    if "syntax_error" in py:
        res.count("python:syntax_error")
        return
    res.count("python:" + ("error" if "error" in py else "value"))
    if guards and not guards.get("py_alphabet"):
        # Python accepts the text but it is outside the statement's alphabet (`x[a]` is a
        # subscript, `{x}` inside a call a set display, …): model vs implementation only
        res.count("outside_alphabet:" + kind)
        return
    if i_resolves or "error" in io:
        # the Lean reading of Python must agree with Python itself where it claims to be Python's tree
        if guards.get("py_stratified") and "py_value" in lean:
            pv = lean["py_value"]
            if "ok" in pv:
                if "value" not in py or not lean_val_eq(pv["ok"], py["value"]):
                    res.mismatches.append({"case": case, "impl": py, "model": pv,
                                           "why": "Spec.pyEval differs from Python's eval"})
            elif pv["err"] not in ("unsupported",) and "error" not in py:
                res.mismatches.append({"case": case, "impl": py, "model": pv,
                                       "why": "Spec.pyEval fails where Python evaluates"})
    why = None
    finding = None
    if io.get("error") == "resolve":
        if "error" not in py and guards.get("py_alphabet", False):
            why = "Python evaluates the text, the implementation refuses it"
    elif not obs_equal(py, io):
        why = "value / received arguments differ from Python's evaluation of the same text"
        in_class = guards.get("py_alphabet") and not guards.get("py_compatible")
        if in_class and mism is None and pred is not None and obs_equal(pred, io):
            finding = "KF-C12-D15"
    if why is None and i_resolves:
        # the name must spell the same call, in normal form
        sc = same_call(io["name"], pytext)
        if sc is False:
            why = "the term name spells a different Python call than the source text"
            if guards.get("py_alphabet") and mism is None:
                if not guards.get("grouping_inert"):
                    # a grouping that mattered was dropped: the name is that of another call
                    finding = "KF-C12-D16"
                elif not guards.get("ungrouped_py_compatible"):
                    # the grouping is inert for the formula grammar, but the unparenthesised name
                    # is read differently by Python (`(x < z) < 3` is named `x < z < 3`)
                    finding = "KF-C12-D15"
        elif lean.get("spec_name_ok") is False:
            why = "the term name is not the single-space normal form of the source tokens"
    if why:
        res.failures.append({"case": case, "impl": io, "expected": py, "why": why,
                             "finding": finding})
        if finding:
            res.known_hit[finding] = res.known_hit.get(finding, 0) + 1
    if i_resolves:
        key = lean.get("ast") or text
        res.nontrivial.add(key)
    if guards:
        res.count("guard:py_compatible=" + str(bool(guards.get("py_compatible"))))
        res.count("guard:grouping_inert=" + str(bool(guards.get("grouping_inert"))))
    if len(res.samples) < 8 and kind in ("random", "d15") and i_resolves and res.evaluations % 7 == 0:
        res.samples.append({"s": text, "name": io.get("name"), "value": io.get("value")})


def run_cases(res, texts, kind):
    """texts: argument texts (without the `f(j, ` prefix); evaluated in batches."""
    cases = [(j, f"f({j}, {t})" if t.strip() else f"f({j})") for j, t in enumerate(texts)]
    impl = {}
    for i in range(0, len(cases), BATCH):
        impl.update(impl_batch(cases[i:i + BATCH]))
    reqs = [{"op": "c12", "s": t, "n": N, "vars": LEAN_VARS, "impl_name": impl[j].get("name")
             if isinstance(impl[j].get("name"), str) else None} for j, t in cases]
    for r in reqs:
        if r["impl_name"] is None:
            del r["impl_name"]
        if mods_for(r["s"]):
            r["mods"] = mods_for(r["s"])
    lean = ask(reqs)
    for (j, t), lo in zip(cases, lean):
        judge(res, {"s": t, "kind": kind}, impl[j], lo, kind)


def run_whole(res, texts, kind):
    """texts: complete call terms (`{…}`, `I(…)`, malformed calls …), one formula each."""
    impl = [impl_single(t) for t in texts]
    reqs = []
    for t, io in zip(texts, impl):
        r = {"op": "c12", "s": t, "n": N, "vars": LEAN_VARS}
        if isinstance(io.get("name"), str):
            r["impl_name"] = io["name"]
        if mods_for(t):
            r["mods"] = mods_for(t)
        reqs.append(r)
    lean = ask(reqs)
    for t, io, lo in zip(texts, impl, lean):
        judge(res, {"s": t, "kind": kind, "whole": True}, io, lo, kind)


def run_pairs(res, pairs, kind):
    """pairs of call texts in one formula: textual variants must be one term, different calls two."""
    from formulae import design_matrices
    lean = ask([{"op": "c12_pair", "a": a, "b": b} for a, b in pairs])
    for (a, b), lo in zip(pairs, lean):
        res.evaluations += 1
        res.count("kind:" + kind)
        case = {"a": a, "b": b, "kind": kind}
        sc = same_call(_unbrace(a), _unbrace(b))      # {e} is to be read as I(e)
        try:
            with warnings.catch_warnings(), np.errstate(all="ignore"):
                warnings.simplefilter("ignore")
                dm = design_matrices(f"y ~ 0 + {a} + {b}", _data(), extra_namespace=namespace())
            names = list(dm.common.terms) if dm.common is not None else []
            io = {"terms": names, "columns": int(np.asarray(dm.common.design_matrix).shape[1])
                  if dm.common is not None else 0}
        except Exception as e:  # noqa
            io = {"error": type(e).__name__}
        if "err" in lo or sc is None:
            res.count("pair:skipped")
            continue
        res.traces += 1
        if "terms" in io:
            # the model: one term iff `__eq__` identifies the lazy trees (the first one is kept);
            # two terms with one name share a dict key in CommonEffectsMatrix
            if lo["py_eq"] or lo["name_a"] == lo["name_b"]:
                model_terms = [lo["name_a"]]
            else:
                model_terms = [lo["name_a"], lo["name_b"]]
            if io["terms"] != model_terms:
                res.mismatches.append({"case": case, "impl": io, "model": lo,
                                       "why": "number / names of terms differ from the model"})
            want = 1 if sc else 2
            if len(io["terms"]) != want:
                finding = None
                if want == 2 and lo["alphabet"] and io["terms"] == model_terms:
                    if lo["collision"]:
                        finding = "KF-C12-D16"
                    elif lo["literal_merge"]:
                        finding = "KF-C12-D27"
                    elif lo["same_lazy"] and not lo["ungrouped_compatible"]:
                        # one lazy tree for the formula grammar, two readings for Python
                        # (`f((x < z) < 3)` and `f(x < z < 3)`)
                        finding = "KF-C12-D15"
                if finding:
                    res.known_hit[finding] = res.known_hit.get(finding, 0) + 1
                res.failures.append({
                    "case": case, "impl": io, "expected": {"terms": want},
                    "why": "different calls collapse into one term" if want == 2
                    else "textual variants of one call are two terms", "finding": finding})
            res.nontrivial.add(("pair", a, b))


# ------------------------------------------------------------------------------------------------
# prediction: the value of a call term on NEW data
# ------------------------------------------------------------------------------------------------
class rows:
    """the recording callee `f` builds columns of the module-level length N: set it for a frame"""

    def __init__(self, n):
        self.n = n

    def __enter__(self):
        global N
        self.old, N = N, self.n

    def __exit__(self, *a):
        global N
        N = self.old


GROUPS = ["p", "q", "p", "q"]        # the grouping column of the training frame (prediction stage)


def _dyadic(rng, n, lo=-4, hi=9):
    return [rng.randrange(lo, hi) / 2 for _ in range(n)]


def py_eval_on(text, frame):
    """Python's own evaluation of the text over the columns the frame holds NOW"""
    try:
        with warnings.catch_warnings():
            warnings.simplefilter("ignore")
            code = compile(text, "<c12>", "eval")
    except Exception as e:  # noqa (SyntaxError: not a Python expression)
        return {"error": "syntax", "cls": type(e).__name__}
    ns = dict(namespace())
    from formulae.transforms import TRANSFORMS
    ns.update({"x": frame["x"], "z": frame["z"], "I": TRANSFORMS["I"]})
    del LOG[:]
    try:
        with warnings.catch_warnings(), np.errstate(all="ignore"), rows(len(frame)):
            warnings.simplefilter("ignore")
            v = eval(code, {"__builtins__": {}}, ns)
    except Exception as e:  # noqa
        return {"error": "eval", "cls": type(e).__name__}
    return {"value": canon(v), "log": list(LOG)}


def impl_eval_on(dm, part, frame):
    """the call term's column through `<part>.evaluate_new_data(frame)` and what the callees saw"""
    del LOG[:]
    try:
        with warnings.catch_warnings(), np.errstate(all="ignore"), rows(len(frame)):
            warnings.simplefilter("ignore")
            new = getattr(dm, part).evaluate_new_data(frame)
        m = np.asarray(new.design_matrix, dtype=float)
        if part == "common":
            if m.ndim != 2 or m.shape != (len(frame), 1):
                return {"error": "shape", "cls": str(m.shape)}
            col = m[:, 0]
        else:
            # (0 + call | q): one column per group; row i holds the call's value in the column of its
            # group (the other entries are value * 0: zero, or nan when the value is not finite, so
            # the entry is picked, not summed)
            groups = [str(g_) for g_ in list(dm.group.terms.values())[0].groups]
            if m.ndim != 2 or m.shape != (len(frame), len(groups)):
                return {"error": "shape", "cls": str(m.shape)}
            col = np.array([m[i_, groups.index(str(q_))] for i_, q_ in enumerate(frame["q"].tolist())])
        return {"value": canon(col), "log": list(LOG)}
    except Exception as e:  # noqa
        return {"error": "eval", "cls": type(e).__name__}


EDITS = ["column x", "column z", "cell x", "cell z", "both columns", "values x"]


def edit_in_place(rng, frame, how):
    """edit the frame object in place (same object, same length)"""
    n = len(frame)
    if how == "column x":
        frame["x"] = _dyadic(rng, n)
    elif how == "column z":
        frame["z"] = _dyadic(rng, n, 1, 9)
    elif how == "cell x":
        frame.loc[frame.index[rng.randrange(n)], "x"] = rng.randrange(10, 30) / 2
    elif how == "cell z":
        frame.iloc[rng.randrange(n), list(frame.columns).index("z")] = rng.randrange(10, 30) / 4
    elif how == "both columns":
        frame[["x", "z"]] = np.column_stack([_dyadic(rng, n), _dyadic(rng, n, 1, 9)])
    else:
        frame["x"] = frame["x"].to_numpy() * 2 + 1


def predict_case(res, text, seed, path):
    """One call term: build the design, then evaluate it on a new frame, on the same frame object
    after in-place edits, on the same object once more, on a fresh copy and on another frame; each
    value must be Python's eval of the same text over the frame's columns at that moment, and the
    callees must have been called with what Python passes them."""
    from formulae import design_matrices
    rng = rng_for(seed, "c12", "predict", path)
    pytext = _unbrace(text)
    part = "group" if rng.random() < 0.25 else "common"
    train = _data()
    train["q"] = GROUPS
    formula = ("y ~ 0 + " + text) if part == "common" else f"y ~ 0 + (0 + {text} | q)"
    # design time: the property has to hold there (what stages 1-6 judge); only then is the
    # prediction path looked at
    try:
        del LOG[:]
        with warnings.catch_warnings(), np.errstate(all="ignore"):
            warnings.simplefilter("ignore")
            dm = design_matrices(formula, train, extra_namespace=namespace())
    except Exception:  # noqa
        res.count("predict:skipped (no design)")
        return
    at_design = impl_eval_on(dm, part, train)
    if "value" not in at_design or not obs_equal(py_eval_on(pytext, train), at_design):
        res.count("predict:skipped (differs from Python on the training frame: stages 1-6)")
        return
    n = rng.choice([2, 3, 4, 4, 5, 7])
    new = pd.DataFrame({"x": _dyadic(rng, n), "z": _dyadic(rng, n, 1, 9),
                        "q": [rng.choice("pq") for _ in range(n)]})
    if rng.random() < 0.3:
        new.index = [f"r{i}" for i in range(n)]
    steps = [("new frame", None)]
    for how in rng.sample(EDITS, rng.randrange(1, 4)):
        steps.append(("same object after in-place edit: " + how, how))
    steps.append(("same object again, no edit", None))
    steps.append(("fresh copy of the frame", "copy"))
    steps.append(("another frame", "other"))
    frame = new
    records = []
    for i, (label, how) in enumerate(steps):
        if how == "copy":
            frame = frame.copy(deep=True)
        elif how == "other":
            m = rng.choice([2, 3, 4, 6])
            frame = pd.DataFrame({"x": _dyadic(rng, m), "z": _dyadic(rng, m, 1, 9),
                                  "q": [rng.choice("pq") for _ in range(m)]})
        elif how is not None:
            edit_in_place(rng, frame, how)
        io = impl_eval_on(dm, part, frame)
        py = py_eval_on(pytext, frame)
        res.evaluations += 1
        res.count("predict:" + label.split(":")[0])
        # the Lean model over the columns the frame holds now: exact value, guard predicates and
        # the model's tree as fully parenthesised Python text
        cols = {c: {"v": [[int(Fraction(t).numerator), int(Fraction(t).denominator)]
                          for t in frame[c].tolist()]} for c in ("x", "z")}
        rq = {"op": "c12", "s": text, "n": len(frame), "vars": dict(cols, c={"n": [C, 1]})}
        if mods_for(text):
            rq["mods"] = mods_for(text)
        records.append({
            "case": {"s": text, "kind": "predict", "path": path, "part": part, "step": i,
                     "steps": [l for l, _ in steps[:i + 1]],
                     "frame_now": {c: frame[c].tolist() for c in ("x", "z")}},
            "label": label, "io": io, "py": py, "rq": rq, "frame": frame.copy(deep=True)})
    return records


def run_predict(res, texts, seed, start=0):
    todo = []
    for j, t in enumerate(texts):
        todo += predict_case(res, t, seed, start + j) or []
    # one batch for the Lean model; then the verdicts
    for rec, lo in zip(todo, ask([r["rq"] for r in todo]) if todo else []):
        case, io, py = rec["case"], rec["io"], rec["py"]
        part, label = case["part"], rec["label"]
        guards = lo.get("guards", {})
        lv = lo.get("value") or {}
        mism = None
        if "ok" in lv and "value" in io and io["value"][0] == "vec":
            res.traces += 1
            if not lean_val_eq(lv["ok"], io["value"]):
                mism = "value on new data differs from the model's exact value"
                res.mismatches.append({"case": case, "impl": io, "model": lv, "why": mism})
        if obs_equal(py, io):
            if "value" in io:
                res.nontrivial.add(("predict", case["s"], part, label))
            continue
        # the value differs from Python's: the KF-C12-D15 class (the formula grammar read as Python
        # arithmetic) only if the Lean guard puts the text there AND the implementation did what
        # the model's tree says over the columns of this frame
        finding = None
        in_class = guards.get("py_alphabet") and not guards.get("py_compatible")
        if in_class and mism is None and "paren" in lo:
            pred = py_eval_on(lo["paren"], rec["frame"])
            if obs_equal(pred, io):
                finding = "KF-C12-D15"
                res.known_hit[finding] = res.known_hit.get(finding, 0) + 1
        res.failures.append({
            "case": case, "impl": io, "expected": py, "finding": finding,
            "why": f"{part}.evaluate_new_data ({label}): value / received arguments differ from "
                   "Python's evaluation of the same text over the frame's current columns"})

# ------------------------------------------------------------------------------------------------
def explore(tier, seed, res=None, replay=None):
    res = res or Result()
    res.rule = ("call terms f(<expr>) over columns x, z (dyadic float64), scalar c, literals, "
                "recording callees f, g and dotted callees a.b.c.fn (1-4 dots) through module-like "
                "objects whose levels re-use the same attribute names for different recording "
                "functions (complete tree `tk`, random sparse tree `lib`); non-trivial = the "
                "implementation builds a term; distinct by the parsed tree (Lean sexp); prediction "
                "stage: a sample of these call terms (as a common term, and as the effect of a "
                "group-specific term) evaluated through evaluate_new_data on a new frame, on the same "
                "frame object after in-place edits (column / cell assignments), on the same object "
                "again, on a fresh copy and on another frame, each compared with Python's eval over "
                "the frame's columns at that moment and with what the recording callees received")
    # the module-like objects depend on the seed only (a replay rebuilds the same objects)
    build_mods(rng_for(seed, "c12", "mods"))
    if replay is not None:
        if replay.get("kind") == "predict":
            run_predict(res, [replay["s"]], seed, replay.get("path", 0))
        elif "a" in replay:
            run_pairs(res, [(replay["a"], replay["b"])], replay.get("kind", "replay"))
        elif replay.get("whole"):
            run_whole(res, [replay["s"]], "replay")
        else:
            run_whole(res, [replay["s"]], "replay")
        return res
    quick = tier == "quick"
    rng = rng_for(seed, "c12", "gen")

    # 1. exhaustive small operator trees, three parenthesisations
    trees = small_trees(2, LEAVES, BIN_OPS, UN_OPS)
    texts, seen = [], set()
    n_full = 0
    for i, t in enumerate(trees):
        for mode in ("py", "formula", "full"):
            if mode == "full" and quick and (i + seed) % 8:
                continue
            s = join(render(t, mode))
            if s not in seen:
                seen.add(s)
                texts.append(s)
                n_full += mode == "full"
    res.exhaustive = True
    res.notes.append(f"exhaustive: {len(trees)} operator trees with <= 2 operators over {LEAVES}; "
                     f"{len(texts)} distinct texts ({n_full} fully parenthesised variants"
                     + (", 1/8 sample of them in the quick tier)" if quick else ")"))
    run_cases(res, texts, "small")
    if not quick:
        trees3 = small_trees(3, ["x", "2", "g(x)"], ["<", "+", "-", "*", "/", "**"], ["-"])
        texts3, seen3 = [], set(seen)
        for t in trees3:
            for mode in ("py", "formula"):
                s = join(render(t, mode))
                if s not in seen3:
                    seen3.add(s)
                    texts3.append(s)
        res.notes.append(f"exhaustive: {len(trees3)} trees with <= 3 operators over a reduced alphabet, "
                         f"{len(texts3)} further texts")
        run_cases(res, texts3, "small3")

    # 2. random deeper trees, random whitespace, redundant parentheses, literals, keywords, calls
    n_rand = 2000 if quick else 100000
    depth = 4 if quick else 6
    rtexts = []
    for i in range(n_rand):
        t = gen_tree(rng, rng.randrange(1, depth + 1))
        mode = rng.choice(["py", "py", "formula", "full"])
        if rng.random() < 0.4:
            t = add_parens(t, rng)
        toks = render(t, mode)
        extra = []
        for _ in range(rng.choice([0, 0, 0, 1, 2])):          # further positional arguments
            extra += [","] + render(gen_tree(rng, 2), mode)
        for kw in rng.sample(["k", "m"], rng.choice([0, 0, 0, 1, 2])):
            extra += [",", kw, "="] + render(gen_tree(rng, 2), mode)
        rtexts.append(join(toks + extra, rng))
    run_cases(res, rtexts, "random")

    # 3. the D15 class on purpose (scalars and columns)
    d15 = []
    for a in ["x", "c", "2", "g(x)", "(x + 1)"]:
        for b in ["2", "c", "z", "-1"]:
            d15 += [f"-{a} ** {b}", f"+{a}**{b}", f"2 ** {a} ** {b}", f"{a} ** {b} ** 2",
                    f"{a} < {b} < 3", f"1 < {a} <= {b}", f"{a} == {b} == True",
                    f"-{a} ** {b} ** 2", f"c < {a} < {b} < 5"]
    run_cases(res, sorted(set(d15)), "d15")

    # 4. {e} is I(e); whole-term forms; malformed / non-Python forms (model vs implementation)
    whole = []
    brace_pairs = []
    for i in range(60 if quick else 600):
        t = ("bin", rng.choice(["+", "-", "*", "<"]), gen_tree(rng, rng.randrange(1, 4), allow_misc=False),
             ("leaf", rng.choice(["x", "z"])))
        inner = join(render(t, rng.choice(["py", "formula"])), rng)
        whole += ["{" + inner + "}", "I(" + inner + ")"]
        brace_pairs.append(("{" + inner + "}", "I(" + inner + ")"))
    whole += ["{x + 1}", "I(x + 1)", "{x / z}", "{ x }", "{(x + z) * 2}", "{k = x}", "{x < z}"]
    run_whole(res, whole, "brace")
    malformed = ["f(a = 1, x)", "f(x, k = 1, k = 2)", "f(k = 1, x, k = z, m = 2, k = 3)", "f(x)(z)",
                 "(f)(x)", "f((k = 2))", "f(x | z)", "f(x : z)", "f(x // z)", "f(x % z)", "f(007)",
                 "f(x, 00.50)", "f(x[a])", "f(`x`)", "f({x})", "f({x}, {z + 1})", "f()", "f(x,)",
                 "f(,x)", "f(x z)", "f(x +)", "f(- -x)", "f(+-+x)", "f(x - -z)", "f(x--z)", "f(x ** -z)",
                 "f(x ** - - z)", "f('a' == \"a\")", "f('it\"s)", "f(2(x))", "g(x)(z)", "f(x)[a]",
                 "f(a.b)", "f(x, k = z < 2)", "f(x < z, k = 2)", "f(!x)", "f(x != z)",
                 "f(x = z)", "f(x == z)", "f(1 = x)", "f(g(x) = 2)", "f(~x)", "f(0.00001)", "f(1e3)",
                 "f(12345678901234567890)", "f(123456789.123456789)", "f(.5.5)", "f(1.)", "f(1..2)"]
    run_whole(res, malformed, "malformed")

    # 6. dotted callees: every function of the object trees (callee depth 1-4), as an argument of
    #    f and as a term of its own; random (possibly missing) paths; namespaces called; dotted
    #    calls inside dotted calls; keyword / expression arguments
    dotted = []
    for pth in MOD_FUNS:
        dotted.append(f"{pth}({rng.choice(['x', 'z', 'x + c', 'z * 2', '-x'])})")
    for i in range(150 if quick else 3000):
        pth = rng.choice(MOD_FUNS) if rng.random() < 0.6 else random_path(rng)
        arg = join(render(gen_tree(rng, rng.randrange(0, 3), allow_misc=False), "py"), rng)
        kw = f", k={rng.choice(['2', 'z', 'c', '0.5', 'x - 1'])}" if rng.random() < 0.3 else ""
        dotted.append(f"{pth}({arg}{kw})")
    for pth in MOD_NSS[:: (7 if quick else 1)]:
        dotted.append(f"{pth}(x)")                       # a namespace is not callable
    dotted = sorted(set(dotted))
    run_cases(res, dotted, "dotted")
    col = [t for t in dotted if "x" in t or "z" in t]
    run_whole(res, rng.sample(col, min(len(col), 60 if quick else 600)), "dotted_whole")

    # 5. one term or two?  textual variants / different calls / the D16 class
    pairs = list(brace_pairs[: (30 if quick else 300)])
    for i in range(40 if quick else 400):
        # two dotted callees applied to one argument: different paths are different calls
        a, b = rng.choice(MOD_FUNS), rng.choice(MOD_FUNS)
        if rng.random() < 0.5:
            b = ".".join([a.split(".")[0]] + a.split(".")[2:]) if a.count(".") >= 2 else b
        pairs.append((f"{a}(x)", f"{b}( x )"))
    for i in range(150 if quick else 3000):
        t = gen_tree(rng, rng.randrange(1, 4))
        a = "f(" + join(render(t, "py"), rng) + ")"
        kind = rng.randrange(4)
        if kind == 0:      # same tree, other spelling
            b = "f(" + join(render(add_parens(t, rng, 0.4), "py"), rng) + ")"
        elif kind == 1:    # the same tokens without any grouping parentheses
            b = "f(" + join([k for k in _strip_groups(render(t, "py"))], rng) + ")"
        elif kind == 2:    # the fully parenthesised spelling against the formula-minimal one
            a = "f(" + join(render(t, "full"), rng) + ")"
            b = "f(" + join(render(t, "formula"), rng) + ")"
        else:              # another tree
            b = "f(" + join(render(gen_tree(rng, rng.randrange(1, 4)), "py"), rng) + ")"
        pairs.append((a, b))
    pairs += [("f((x+z)*2)", "f(x+z*2)"), ("f(x-(z-1))", "f(x-z-1)"), ("f(2/(x*z))", "f(2/x*z)"),
              ("f('a')", 'f("a")'), ("f(1.50)", "f(1.5)"), ("f(2)", "f(2.0)"), ("f(x,k=1)", "f(x, k = 1)"),
              ("f(-(x+z))", "f(-x+z)"), ("f(-(x**2))", "f(-x**2)"), ("f((x<z)<3)", "f(x<z<3)"),
              ("f(1)", "f(True)"), ("f(0)", "f(False)"), ("f(x, 1.0)", "f(x, True)"),
              ("f(x, '1')", "f(x, 1)"), ("f(0.5)", "f(.5)"), ("f(2)", "f(2.50)"),
              # calls that differ only in a keyword's value / name / an argument position
              ("f(x, k=2)", "f(x, k=3)"), ("f(x, k=z)", "f(x, k=x)"), ("f(x, k=2)", "f(x, m=2)"),
              ("f(x, k=2, m=3)", "f(x, k=3, m=2)"), ("f(x, z)", "f(z, x)"), ("f(x, k=g(x))", "f(x, k=g(z))"),
              ("g(x, k='a')", "g(x, k='b')"), ("f(x, 2)", "f(x, k=2)"), ("f(x)", "g(x)"),
              ("f(x, k=2)", "f(x,k = 2)")]
    run_pairs(res, pairs, "pairs")

    # 7. prediction: call terms through common / group evaluate_new_data on new frames, on the same
    #    frame object after in-place edits, on fresh copies
    rp = rng_for(seed, "c12", "predict-texts")
    n_pred = 140 if quick else 4000
    cand = [f"f({j}, {t})" for j, t in enumerate(rtexts) if ("x" in t or "z" in t)]
    ptexts = rp.sample(cand, min(len(cand), n_pred))
    ptexts += rp.sample(col, min(len(col), 25 if quick else 300))
    ptexts += rp.sample(whole, min(len(whole), 25 if quick else 300))
    ptexts += ["f( x + z,k = 1 )", "g(x)", "g(x, k=z)", "f(x, 'a', k=z * 2)", "{x / z}", "I(x + 1)",
               "f(x ** 2, z)", "f(g(x), g(z, k=2))"]
    run_predict(res, ptexts, seed)
    return res


def _unbrace(t):
    t = t.strip()
    return "I(" + t[1:-1] + ")" if t.startswith("{") and t.endswith("}") else t


def _strip_groups(tokens):
    """Delete grouping parentheses (not call parentheses) from a rendered token list."""
    out, stack = [], []
    for i, t in enumerate(tokens):
        if t == "(":
            is_call = bool(out) and (out[-1][0].isalpha() or out[-1][0] == "_") and \
                out[-1] not in ("True", "False", "None")
            stack.append(is_call)
            if is_call:
                out.append(t)
        elif t == ")":
            if stack.pop():
                out.append(t)
        else:
            out.append(t)
    return out
