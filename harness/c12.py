"""C12 — call terms evaluate like the Python expression they spell.

Three observers on every case (the text of one call term, e.g. ``f(17, -x ** 2, k=z)``):

* implementation:  ``design_matrices('y ~ 0 + <call> + …', data, extra_namespace=NS)``: the term name
  (``dm.common.terms``), its column(s) (``dm.common.design_matrix``) and the arguments the recording
  callees actually received (positional / keyword, types, values);
* Python:          ``eval(<call>)`` over the same names (the oracle of the statement), plus Python's
  ``ast`` of the text and of the term name (the oracle for "the name spells the same call");
* Lean model:      name, lazy tree (as fully parenthesised Python text, evaluated by Python: the value
  the model predicts whatever the value domain), exact rational value where the value domain of
  `Model/Lazy.lean` covers it, `pyEval` of `Spec/C12.lean`, and the guard predicates
  (`PyAlphabet`, `PyCompatible`, `PyStratified`, `GroupingInert`, `nameCollision`).

Callees are the recording functions `f`, `g` and dotted attribute paths `tk.v2.scalers.unit`
(1-4 dots) through module-like objects whose levels bind the same attribute names to different
recording functions (`build_mods`); the Lean driver gets the object graph and does the lookup itself.

Two further stages look at several call terms / several designs at once: pairs of calls in one formula
that differ only in the order or grouping of the operands of `+`, `*`, `==`, `!=` (numeric and string
columns; callee `h`), which must be two terms with the value of their own text each; and one
`Environment` object passed as `env=` to several `design_matrices` calls whose `extra_namespace`
dicts bind the same names to other objects, each design judged over the names of its own call.

A scope stage takes the names of a call from the caller's scopes: `design_matrices` is called from a
frame (a real function / `exec` with separate locals and globals / an explicit `Environment`) whose
locals, globals and `extra_namespace` bind the argument and callee names, the innermost binding mostly
to a falsy object (None, 0, False, '', [], 0.0) with and without an outer binding of the same name;
the design is then evaluated on new frames some of which HAVE a column named like such a name.  Every
value is judged against Python's own `eval` of the same text over the same scopes, the columns of the
frame at hand first.

Failures of the specification on the implementation's output are classified KF-C12-D15 /
KF-C12-D16 only when the Lean guard puts the case in that class *and* the implementation's output
equals the model's prediction; anything else is reported as a violation.
"""
import ast
import itertools
import math
import warnings
from fractions import Fraction

import numpy as np
import pandas as pd

from common import Result, ask, rng_for

ASSUMPTIONS = [
    "value domain of the Lean model: exact rational scalars / columns, booleans, strings, None; "
    "outside it (non-integral exponents, division of a column by zero, string arithmetic, "
    "boolean-column arithmetic, |exponent| > 64, magnitudes beyond 2^1000) the model's *tree* is "
    "still compared: Python evaluates the model's fully parenthesised text",
    "columns are float64 with dyadic values, scalars small ints / dyadic decimals; values are compared "
    "with relative tolerance 1e-9 (bit-identical results are counted separately), nan == nan, "
    "numpy warnings (overflow, invalid) are silenced on both sides",
    "int vs float of Python scalars is observed in the recorded arguments (impl vs Python) but "
    "not modelled in Lean (one `num` kind)",
    "Python's reading of a text is Python's own `eval` / `ast.parse` (CPython 3.12); texts Python "
    "rejects (SyntaxError: `f(a=1, x)`, `f(k=1, k=2)`, `f(007)`) are compared with the model only",
    "identifiers are plain names of the environment (no Python keywords, no dotted variables); "
    "callees are plain names or dotted attribute paths `a.b.c.f` (1-4 dots) through module-like "
    "objects (types.ModuleType / SimpleNamespace / classes) bound in the namespace, every level of "
    "which re-uses the same attribute names for different recording functions; the Lean model gets "
    "the object graph as a flat table keyed by attribute path (objects are reachable by one path "
    "only: no aliasing of sub-objects) and performs the lookup itself; "
    "brackets `x[a]`, back-quoted names, `|`, `:`, `~`, `//`, `%` are outside the statement's "
    "alphabet and appear only in the model-vs-implementation stream",
    "exception classes are compared only as CallResolverError / AttributeError vs the model's "
    "error branch; otherwise error vs no error",
    "prediction stage: only call terms whose design-time value equals Python's are followed to new "
    "data; a text of the KF-C12-D15 class whose two readings coincide on the training frame may "
    "differ on a new frame: it is classified as that finding exactly as at design time (Lean guard "
    "PyAlphabet and not PyCompatible, and the implementation's output equals Python's evaluation of "
    "the model's tree over the frame's columns at that moment); frames have 2-7 rows of dyadic float64 values, default or string "
    "index; the group-specific path is observed through `(0 + <call> | q)` with every group of the "
    "new frame seen in training (the entry of each row in the column of its group = the call's value)",
    "commuting stage: the frame has two further string columns s, t (4 rows, drawn per seed so that "
    "s + t != t + s row-wise somewhere); calls over them go to the recording callee `h` (like `f`, "
    "strings coded order-sensitively), which the Lean model does not evaluate: the number / names of "
    "the terms are compared with the model (`c12_pair`) and with Python's ast, the values and the "
    "received arguments with Python's eval of each term's own source text; operands of the swapped "
    "node are pairwise different texts; comparisons are not nested in comparisons",
    "environment stage: the names bound by the Environment object (loc, base, f, g) and by the "
    "extra_namespace dicts (fa, fb, shift, w) are disjoint and differ from the column names, so "
    "the lookup order data > env > extra_namespace is not exercised; functions are "
    "`lambda v, k=1: v * m + k` with a multiplier per binding (the Lean driver gets them as "
    "top-level entries of its object table), variables small dyadic scalars or float64 columns; "
    "operators + - * / only; the designs of a round are evaluated one after the other in one process",
    "scope stage: Python's lookup over the scopes is `eval(text, G, L)` with L = collections.ChainMap("
    "columns of the frame at hand, formulae's TRANSFORMS + ENCODINGS, the caller's locals), G = the "
    "caller's globals and G['__builtins__'] = the extra_namespace dict (the outermost scope of "
    "Python's own name lookup), i.e. the documented order data > built-in transforms > locals > "
    "globals > extra_namespace; the caller's frame is a function generated with the names as "
    "parameters and the globals dict as its module globals, an `exec` with separate locals / globals "
    "dicts, or `env=Environment([locals, globals])`; argument names shift, w, k0 and callee names fa, "
    "fb are none of the built-in transform names and are never bound to a transform; callee names are "
    "never column names (the callee lookup skips the data, Python's would not); texts use + - * /, one "
    "comparison per argument (grouped when it is a keyword value), nested calls, keywords, no `**`, no "
    "prefix sign, no comparison chain (the region where both grammars agree), so no known-finding "
    "class is accepted there; values bound: None, 0, False, '', [], 0.0, small ints / dyadic floats, "
    "strings, True, a float64 array of 4 entries, a list (the recording callee `f` codes a list by its "
    "length; lists are outside the Lean value domain: such cases are judged against Python only); a "
    "case in which both Python and the implementation fail (None in arithmetic, unbound name, a "
    "non-callable callee) is counted and not followed to new data; the Lean model gets the names "
    "already resolved (first match in the order above) and is compared where it yields a value; new "
    "frames have 2-7 rows, columns x, z, q and dyadic float64 columns named like a subset of the "
    "call's argument names, default or string index",
    "String-level injectivity of the name normalisation (equal names => equal token sequences) is "
    "checked here against Python's ast, not proved in Lean",
]
TRUSTED = ["CPython 3.12 `eval`/`ast` as the definition of Python's grammar and operators",
           "numpy / pandas arithmetic on float64 columns (modelled as exact rationals)"]

N = 4
X = [1.0, 2.0, 3.0, 4.0]
Z = [2.0, 0.5, 4.0, 1.0]
C = 3
BATCH = 40

BIN_OPS = ["+", "-", "*", "/", "**", "==", "!=", "<=", "<", ">=", ">"]
CMP = {"==", "!=", "<=", "<", ">=", ">"}
UN_OPS = ["+", "-"]
LEAVES = ["x", "z", "2", "0.5", "g(x)"]

# ------------------------------------------------------------------------------------------------
# recording callees (mirrored by fnF / fnG / fnI of Driver/C12.lean)
# ------------------------------------------------------------------------------------------------
LOG = []


def canon(v):
    """Canonical, JSON-able view of a Python value (type tag + content)."""
    if isinstance(v, (pd.Series, np.ndarray)):
        a = np.asarray(v)
        if a.ndim == 0:
            return canon(a.item())
        if a.dtype == bool:
            return ["bvec", [bool(b) for b in a.tolist()]]
        if a.dtype.kind in "iuf":
            return ["vec", [float(t) for t in a.tolist()]]
        return ["obj", repr(a.tolist())]
    if isinstance(v, (bool, np.bool_)):
        return ["bool", bool(v)]
    if isinstance(v, (int, np.integer)):
        return ["int", int(v)]
    if isinstance(v, (float, np.floating)):
        return ["float", float(v)]
    if isinstance(v, str):
        return ["str", v]
    if v is None:
        return ["none"]
    if isinstance(v, (list, tuple)):
        return ["list", [canon(e) for e in v]]
    return ["obj", type(v).__name__]


def _numof(v):
    if isinstance(v, (pd.Series, np.ndarray)):
        a = np.asarray(v)
        if a.shape != (N,):
            raise ValueError("shape")
        return a.astype(float)
    if isinstance(v, (bool, np.bool_)):
        return np.full(N, 1.0 if v else 0.0)
    if isinstance(v, (int, float, np.integer, np.floating)):
        return np.full(N, float(v))
    if isinstance(v, str):
        return np.full(N, float(sum(map(ord, v)) % 7 + 1))
    if v is None:
        return np.full(N, -3.0)
    if isinstance(v, (list, tuple)):       # plain Python lists reach a callee only as values of names
        return np.full(N, 11.0 + len(v))   # of the caller's scopes (scope stage; not modelled in Lean)
    raise TypeError("numof")


def f(*args, **kwargs):
    LOG.append(["f", [canon(a) for a in args], [[k, canon(v)] for k, v in kwargs.items()]])
    out = np.zeros(N)
    for i, a in enumerate(args):
        out = out + (i + 1) * _numof(a)
    for k, v in kwargs.items():
        out = out + (10 + sum(map(ord, k)) % 10) * _numof(v)
    return out


def g(v, k=1):
    LOG.append(["g", [canon(v)], [["k", canon(k)]]])
    return v * 2 + k


def _code(v):
    """`_numof` extended to columns of strings: an order-sensitive code of every entry"""
    if isinstance(v, (pd.Series, np.ndarray)):
        a = np.asarray(v)
        if a.shape == (N,) and a.dtype.kind not in "iufb":
            return np.array([float(sum((i + 1) * ord(ch) for i, ch in enumerate(str(e))) % 97)
                             for e in a.tolist()])
    return _numof(v)


def h(*args, **kwargs):
    """`f` for the stages with string columns (not mirrored in Lean: judged against Python's eval)"""
    LOG.append(["h", [canon(a) for a in args], [[k, canon(v)] for k, v in kwargs.items()]])
    out = np.zeros(N)
    for i, a in enumerate(args):
        out = out + (i + 1) * _code(a)
    for k, v in kwargs.items():
        out = out + (10 + sum(map(ord, k)) % 10) * _code(v)
    return out


# ------------------------------------------------------------------------------------------------
# module-like objects for dotted callees (mirrored by ModEntry / lookupDotted of Driver/C12.lean)
# ------------------------------------------------------------------------------------------------
NS_NAMES = ["v2", "scalers", "core"]       # attributes that are namespaces again
FN_NAMES = ["unit", "rescale"]             # attributes that are recording functions
TOPS = ["tk", "lib"]
MODS = {}            # top-level name -> object
MOD_TABLE = []       # [{"p": [path], "m": [num, den]}?]  for the Lean driver
MOD_FUNS = []        # dotted paths of the functions
MOD_NSS = []         # dotted paths of the namespaces


def make_unit(m):
    """u(v, k=1) = v * m + k, recording which function object received what."""
    def unit(v, k=1):
        LOG.append([f"u{m}", [canon(v)], [["k", canon(k)]]])
        return v * m + k
    unit.__name__ = f"u{m}"
    return unit


def _mk_object(flavour, dotted, attrs):
    import types
    if flavour == "module":
        o = types.ModuleType(dotted)
        for k, v in attrs.items():
            setattr(o, k, v)
        return o
    if flavour == "simple":
        return types.SimpleNamespace(**attrs)
    return type(dotted.split(".")[-1], (), {k: (staticmethod(v) if callable(v) and not isinstance(
        v, type) else v) for k, v in attrs.items()})


def build_mods(rng):
    """`tk`: the complete tree (every namespace has every function name and, down to three levels
    below the top, every namespace name), so every path `tk(.ns){0,3}.fn` exists and the same
    attribute names are bound to different functions at every level.  `lib`: a random sparse tree
    (attributes missing at random), so that a path may fail although a same-named attribute exists
    elsewhere.  Object flavours (module / SimpleNamespace / class) are drawn at random."""
    MODS.clear()
    _PYNS.clear()
    del MOD_TABLE[:], MOD_FUNS[:], MOD_NSS[:]
    mults = list(range(3, 400))
    rng.shuffle(mults)

    def node(path, sparse):
        attrs = {}
        MOD_TABLE.append({"p": list(path)})
        MOD_NSS.append(".".join(path))
        for fn in FN_NAMES:
            if sparse and rng.random() < 0.3:
                continue
            m = mults.pop()
            attrs[fn] = make_unit(m)
            MOD_TABLE.append({"p": list(path) + [fn], "m": [m, 1]})
            MOD_FUNS.append(".".join(path + [fn]))
        if len(path) < 4:
            for ns in NS_NAMES:
                if sparse and rng.random() < 0.35:
                    continue
                attrs[ns] = node(path + [ns], sparse)
        return _mk_object(rng.choice(["module", "simple", "class"]), ".".join(path), attrs)
    MODS["tk"] = node(["tk"], False)
    MODS["lib"] = node(["lib"], True)


def mods_for(text):
    """The object table, for requests whose text mentions one of the objects."""
    return MOD_TABLE if any(t + "." in text or t + "(" in text.replace(" ", "").replace("\t", "")
                            for t in MODS) else None


def random_path(rng):
    """A dotted callee that may or may not exist: top(.ns){0,3}.fn, sometimes a namespace."""
    segs = [rng.choice(TOPS)] + [rng.choice(NS_NAMES) for _ in range(rng.randrange(0, 4))]
    if rng.random() < 0.9:
        segs.append(rng.choice(FN_NAMES))
    return ".".join(segs)


def _data():
    return pd.DataFrame({"y": [1.0, 2.0, 3.0, 4.0], "x": X, "z": Z})


def namespace():
    return {"f": f, "g": g, "c": C, **MODS}


LEAN_VARS = {"x": {"v": [[int(Fraction(t).numerator), int(Fraction(t).denominator)] for t in X]},
             "z": {"v": [[int(Fraction(t).numerator), int(Fraction(t).denominator)] for t in Z]},
             "c": {"n": [C, 1]}}


# ------------------------------------------------------------------------------------------------
# comparison helpers
# ------------------------------------------------------------------------------------------------
def feq(a, b):
    if isinstance(a, float) and isinstance(b, float):
        if math.isnan(a) or math.isnan(b):
            return math.isnan(a) and math.isnan(b)
        if math.isinf(a) or math.isinf(b):
            return a == b
        return abs(a - b) <= 1e-9 * max(1.0, abs(a), abs(b))
    return a == b


def veq(a, b):
    """Equality of canonical views (floats with tolerance, everything else exactly)."""
    if isinstance(a, list) and isinstance(b, list):
        return len(a) == len(b) and all(veq(p, q) for p, q in zip(a, b))
    if isinstance(a, float) or isinstance(b, float):
        return type(a) is type(b) and feq(a, b)
    return type(a) is type(b) and a == b


def lean_val_eq(lv, cv):
    """Lean value {"n"|"b"|"s"|"none"|"v"|"bv"} vs canonical Python view."""
    def q(p):
        return Fraction(p[0], p[1])

    def close(fr, x):
        if math.isnan(x) or math.isinf(x):
            return False
        return abs(float(fr) - x) <= 1e-9 * max(1.0, abs(x))
    tag = cv[0]
    if "n" in lv:
        return tag in ("int", "float") and close(q(lv["n"]), float(cv[1]))
    if "b" in lv:
        return tag == "bool" and lv["b"] == cv[1]
    if "s" in lv:
        return tag == "str" and lv["s"] == cv[1]
    if "none" in lv:
        return tag == "none"
    if "v" in lv:
        return tag == "vec" and len(lv["v"]) == len(cv[1]) and all(
            close(q(p), x) for p, x in zip(lv["v"], cv[1]))
    if "bv" in lv:
        return tag == "bvec" and lv["bv"] == cv[1]
    return False


# ------------------------------------------------------------------------------------------------
# trees and renderings
# ------------------------------------------------------------------------------------------------
# tree := ("leaf", text) | ("bin", op, l, r) | ("un", op, e) | ("call", name, [args], [(kw, e)])
#         | ("par", e)   (an explicit redundant grouping)
PY_LVL = {"cmp": 0, "+": 1, "-": 1, "*": 2, "/": 2, "un": 3, "**": 4, "atom": 5}
F_LVL = {"cmp": 1, "+": 2, "-": 2, "*": 3, "/": 3, "**": 5, "un": 6, "atom": 7}


def _lvl(t, table):
    if t[0] == "bin":
        return table["cmp"] if t[1] in CMP else table[t[1]]
    if t[0] == "un":
        return table["un"]
    return table["atom"]


def render(t, mode):
    """mode: 'py' minimal parentheses by Python's grammar (the text means the tree in Python),
    'formula' minimal parentheses by the formula grammar (the text means the tree for formulae),
    'full' every operator operand parenthesised.  Returns a token list."""
    k = t[0]
    if k == "leaf":
        return [t[1]]
    if k == "par":
        return ["("] + render(t[1], mode) + [")"]
    if k == "call":
        out = [t[1], "("]
        parts = [render(a, mode) for a in t[2]] + [[kw, "="] + render(v, mode) for kw, v in t[3]]
        for i, p in enumerate(parts):
            out += ([","] if i else []) + p
        return out + [")"]

    def wrap(sub, need_py, need_f):
        toks = render(sub, mode)
        if mode == "full":
            par = sub[0] in ("bin", "un")
        elif mode == "py":
            par = _lvl(sub, PY_LVL) < need_py
        else:
            par = _lvl(sub, F_LVL) < need_f
        return ["("] + toks + [")"] if par else toks
    if k == "un":
        # Python: factor: ('+'|'-') factor ; formula: unary: (+|-) unary
        return [t[1]] + wrap(t[2], 3, 6)
    op, l, r = t[1], t[2], t[3]
    if op in CMP:
        # Python: a chain is not this binary tree, both operands must be sums
        return wrap(l, 1, 1) + [op] + wrap(r, 1, 2)
    if op in "+-":
        return wrap(l, 1, 2) + [op] + wrap(r, 2, 3)
    if op in "*/":
        return wrap(l, 2, 3) + [op] + wrap(r, 3, 5)   # formula: right operand above `:` level
    # **: Python primary ** factor ; formula: unary-level ** unary-level, left-assoc
    return wrap(l, 5, 5) + [op] + wrap(r, 3, 6)


WORDY = set("abcdefghijklmnopqrstuvwxyzABCDEFGHIJKLMNOPQRSTUVWXYZ0123456789._")
PAIRS = {("*", "*"), ("/", "/"), ("=", "="), ("!", "="), ("<", "="), (">", "=")}


def join(tokens, rng=None):
    """Token list -> text. Without rng: no spaces except where adjacency would merge lexemes;
    with rng: random admissible whitespace."""
    out = []
    for i, t in enumerate(tokens):
        if i:
            a, b = tokens[i - 1][-1], t[0]
            need = (a in WORDY and b in WORDY) or (a, b) in PAIRS
            if rng is None:
                out.append(" " if need else "")
            else:
                n = rng.choice([0, 0, 1, 1, 2])
                if need and n == 0:
                    n = 1
                out.append("".join(rng.choice("  \t") for _ in range(n)))
        out.append(t)
    return "".join(out)


def small_trees(max_ops, leaves, bins, uns):
    """All operator trees with at most `max_ops` operators."""
    by_ops = {0: [("leaf", s) for s in leaves]}
    for n in range(1, max_ops + 1):
        cur = []
        for u in uns:
            for e in by_ops[n - 1]:
                cur.append(("un", u, e))
        for a in range(n):
            b = n - 1 - a
            for op in bins:
                for l in by_ops[a]:
                    for r in by_ops[b]:
                        cur.append(("bin", op, l, r))
        by_ops[n] = cur
    return [t for n in range(max_ops + 1) for t in by_ops[n]]


NUMS = ["2", "3", "0.5", ".5", "1.50", "2.0", "10", "0.25", "1", "0"]
STRS = ["'a'", '"a"', "'b c'", '"x+z"', "''", "'b  c'", "'p\tq'", '"two   blanks "']
PYLITS = ["True", "False", "None"]


def gen_tree(rng, depth, allow_misc=True):
    r = rng.random()
    if depth <= 0 or r < 0.22:
        k = rng.random()
        if k < 0.45:
            return ("leaf", rng.choice(["x", "z", "c"]))
        if k < 0.75 or not allow_misc:
            return ("leaf", rng.choice(NUMS))
        if k < 0.87:
            return ("leaf", rng.choice(STRS))
        return ("leaf", rng.choice(PYLITS))
    if r < 0.66:
        op = rng.choice(BIN_OPS if rng.random() < 0.7 else ["+", "-", "*", "/", "**", "<"])
        return ("bin", op, gen_tree(rng, depth - 1, allow_misc), gen_tree(rng, depth - 1, allow_misc))
    if r < 0.78:
        return ("un", rng.choice(UN_OPS), gen_tree(rng, depth - 1, allow_misc))
    if r < 0.92:
        if MOD_FUNS and rng.random() < 0.3:
            # a dotted callee through the module-like objects (an existing function mostly)
            path = rng.choice(MOD_FUNS) if rng.random() < 0.85 else random_path(rng)
            kws = [("k", gen_tree(rng, depth - 2, False))] if rng.random() < 0.4 else []
            return ("call", path, [gen_tree(rng, depth - 1, False)], kws)
        if rng.random() < 0.6:
            kws = [("k", gen_tree(rng, depth - 2, False))] if rng.random() < 0.4 else []
            return ("call", "g", [gen_tree(rng, depth - 1, False)], kws)
        npos = rng.choice([0, 1, 1, 2, 3])
        kws = []
        for kw in rng.sample(["k", "m", "w2"], rng.choice([0, 0, 1, 2])):
            kws.append((kw, gen_tree(rng, depth - 2, allow_misc)))
        return ("call", "f", [gen_tree(rng, depth - 1, allow_misc) for _ in range(npos)], kws)
    return ("par", gen_tree(rng, depth - 1, allow_misc))


def add_parens(t, rng, p=0.25):
    """Insert redundant grouping nodes at random places."""
    k = t[0]
    if k == "leaf":
        out = t
    elif k == "bin":
        out = ("bin", t[1], add_parens(t[2], rng, p), add_parens(t[3], rng, p))
    elif k == "un":
        out = ("un", t[1], add_parens(t[2], rng, p))
    elif k == "par":
        out = ("par", add_parens(t[1], rng, p))
    else:
        out = ("call", t[1], [add_parens(a, rng, p) for a in t[2]],
               [(kw, add_parens(v, rng, p)) for kw, v in t[3]])
    if rng.random() < p:
        out = ("par", out)
    return out


# ------------------------------------------------------------------------------------------------
# observers
# ------------------------------------------------------------------------------------------------
def _split_log(log, indices):
    """The stream of recorded calls of one formula, cut after every `f` entry whose first
    positional argument is an int that is the index of a case of this batch.  (A nested `f(0)` /
    `f(2, x)` whose literal is not an index of the batch is an ordinary recorded call; one whose
    literal is an index of the batch gives that index two segments, which `impl_batch` notices and
    answers by evaluating the batch case by case.)"""
    out, cur = {}, []
    for ent in log:
        cur.append(ent)
        if ent[0] == "f" and ent[1] and ent[1][0][0] == "int" and ent[1][0][1] in indices:
            out.setdefault(ent[1][0][1], []).append(cur)
            cur = []
    return out, cur


def _column(dm, name):
    sl = dm.common.slices[name]
    return canon(np.asarray(dm.common.design_matrix)[:, sl].reshape(N, -1)[:, 0]) \
        if (sl.stop - sl.start) == 1 else ["obj", "multi-column"]


def impl_batch(cases):
    """cases: list of (j, text) with text = 'f(j, …)'.  Returns {j: observation}."""
    from formulae import design_matrices
    res = {}
    formula = "y ~ 0 + " + " + ".join(t for _, t in cases)
    del LOG[:]
    try:
        with warnings.catch_warnings(), np.errstate(all="ignore"):
            warnings.simplefilter("ignore")
            dm = design_matrices(formula, _data(), extra_namespace=namespace())
        logs, rest = _split_log(list(LOG), {j for j, _ in cases})
        names = list(dm.common.terms)
        if len(names) != len(cases) or rest or any(len(v) != 1 for v in logs.values()):
            raise RuntimeError("batch shape")
        for (j, _), name in zip(cases, names):
            if not name.startswith(f"f({j}") or len(logs.get(j, [])) != 1:
                raise RuntimeError("batch attribution")
            res[j] = {"name": name, "value": _column(dm, name), "log": logs[j][0]}
        return res
    except Exception:  # noqa: some case fails (or attribution failed): one by one
        for j, t in cases:
            res[j] = impl_single(t)
        return res


def impl_single(text, data=None, ns=None, env=None):
    """One call term on its own: resolution (model_description) then evaluation.  `data`, `ns`
    (extra_namespace) and `env` (an Environment object passed as `env=`) default to the frame and
    the names of the other stages."""
    from formulae import design_matrices, model_description
    del LOG[:]
    data = _data() if data is None else data
    ns = namespace() if ns is None else ns
    kw = {} if env is None else {"env": env}
    try:
        md = model_description("y ~ 0 + " + text)
        names = [t.name for t in md.common_terms]
    except Exception as e:  # noqa
        return {"error": "resolve", "cls": type(e).__name__}
    try:
        with warnings.catch_warnings(), np.errstate(all="ignore"):
            warnings.simplefilter("ignore")
            dm = design_matrices("y ~ 0 + " + text, data, extra_namespace=ns, **kw)
    except Exception as e:  # noqa
        return {"error": "eval", "cls": type(e).__name__, "name": names[0] if len(names) == 1 else names}
    names = list(dm.common.terms) if dm.common is not None else []
    if len(names) != 1 or dm.group is not None:
        return {"error": "terms", "cls": "not one common term", "names": names}
    return {"name": names[0], "value": _column(dm, names[0]), "log": list(LOG)}


_PYNS = {}
_PYNS_OWN = []       # innermost `names_of(...)`: the names of one particular design_matrices call


class names_of:
    """Python's eval (`py_eval`) reads its names from `ns` inside this block: the oracle of a case
    whose design_matrices call has its own data / env / extra_namespace"""

    def __init__(self, ns):
        self.ns = ns

    def __enter__(self):
        _PYNS_OWN.append(self.ns)

    def __exit__(self, *a):
        _PYNS_OWN.pop()


def _py_namespace():
    """The names of the formula environment, for Python's own eval: the columns as the Series the
    data mask hands out, the callees, `I` of formulae.transforms."""
    if _PYNS_OWN:
        return dict(_PYNS_OWN[-1])
    if not _PYNS:
        from formulae.transforms import TRANSFORMS
        d = _data()
        _PYNS.update(namespace())
        _PYNS.update({"x": d["x"], "z": d["z"], "I": TRANSFORMS["I"]})
    return dict(_PYNS)


def py_eval(text):
    """Python's own reading of the text over the same names."""
    try:
        with warnings.catch_warnings():
            warnings.simplefilter("ignore")
            code = compile(text, "<c12>", "eval")
    except SyntaxError:
        return {"syntax_error": True}
    except Exception as e:  # noqa (ValueError for null bytes etc.)
        return {"syntax_error": True, "cls": type(e).__name__}
    ns = _py_namespace()
    del LOG[:]
    try:
        with warnings.catch_warnings(), np.errstate(all="ignore"):
            warnings.simplefilter("ignore")
            v = eval(code, {"__builtins__": {}}, ns)
    except Exception as e:  # noqa
        return {"error": "eval", "cls": type(e).__name__}
    return {"value": canon(v), "log": list(LOG)}


def same_call(a, b):
    """Do two texts spell the same Python call (same ast, same string-literal spellings)?"""
    try:
        ta, tb = ast.parse(a, mode="eval"), ast.parse(b, mode="eval")
    except SyntaxError:
        return None
    return ast.dump(ta) == ast.dump(tb) and _strings(a) == _strings(b)


def _strings(text):
    import io
    import tokenize
    try:
        return [t.string for t in tokenize.generate_tokens(io.StringIO(text).readline)
                if t.type == tokenize.STRING]
    except Exception:  # noqa
        return None


def obs_equal(a, b):
    """Two evaluations agree: both fail, or same value and same recorded calls."""
    if ("error" in a) or ("error" in b):
        return ("error" in a) and ("error" in b)
    return veq(a["value"], b["value"]) and veq(a["log"], b["log"])


# ------------------------------------------------------------------------------------------------
# one case through all observers
# ------------------------------------------------------------------------------------------------
RESOLVE_ERR = {"binary_kind": "CallResolverError", "unary_kind": "CallResolverError",
               "callee_not_variable": "AttributeError", "assign_visited": "AttributeError",
               "symbol": "KeyError"}


def judge(res, case, io, lean, kind):
    """Compare implementation / model / Python for one case; fills `res`."""
    text = case["s"]
    res.evaluations += 1
    res.count("kind:" + kind)
    if "err" in lean and lean["err"].startswith("scan:non_ascii"):
        res.count("skipped:non_ascii")
        return
    res.traces += 1
    guards = lean.get("guards", {})
    # ---- model vs implementation -------------------------------------------------------------
    m_resolves = "name" in lean
    i_resolves = "name" in io
    mism = None
    pred = None
    if "err" in lean:                      # model: scan/parse error or not a call
        if i_resolves:
            mism = "model rejects the text, implementation builds a term"
    elif not m_resolves:                   # model: resolution error
        tag = lean["res_err"].split(":")[0]
        if tag == "unmodelled_literal":
            res.count("skipped:unmodelled_literal")
            return
        if io.get("error") != "resolve":
            mism = "model: resolution error, implementation: none"
        elif RESOLVE_ERR.get(tag) != io.get("cls"):
            mism = f"resolution error class: model {tag}, implementation {io.get('cls')}"
    else:
        if io.get("error") == "resolve":
            mism = "implementation fails to resolve, model resolves"
        else:
            iname = io.get("name")
            if iname != lean["name"]:
                mism = "term name differs from the model's"
            pred = py_eval(lean["paren"])      # the model's tree with Python's operators
            if case.get("whole") and io.get("error") == "eval" and "value" in pred and \
                    pred["value"][0] not in ("vec", "bvec"):
                # a call term whose value is not a column is refused by `Call.set_type`; the
                # statement is about terms that exist
                res.count("skipped:not_a_column")
                return
            if "syntax_error" in pred:
                pred = None
                res.count("model_text_not_python")
            elif not obs_equal(pred, io):
                mism = mism or "value / recorded arguments differ from the model's tree"
            lv = lean["value"]
            if "ok" in lv:
                if "value" not in io or not lean_val_eq(lv["ok"], io["value"]):
                    mism = mism or "value differs from the model's exact value"
                res.count("lean_value:exact")
            elif lv["err"] == "unsupported":
                res.count("lean_value:unsupported")
            else:
                res.count("lean_value:error")
                if "error" not in io:
                    mism = mism or f"model predicts an evaluation error ({lv['err']})"
    if mism:
        res.mismatches.append({"case": case, "impl": io, "model": lean, "why": mism})
    # ---- specification on the implementation's output -----------------------------------------
    pytext = _unbrace(text)                # `{e}` is to be read as `I(e)`
    py = py_eval(pytext)
    if "syntax_error" in py:
        res.count("python:syntax_error")
        return
    res.count("python:" + ("error" if "error" in py else "value"))
    if guards and not guards.get("py_alphabet"):
        # Python accepts the text but it is outside the statement's alphabet (`x[a]` is a
        # subscript, `{x}` inside a call a set display, …): model vs implementation only
        res.count("outside_alphabet:" + kind)
        return
    if i_resolves or "error" in io:
        # the Lean reading of Python must agree with Python itself where it claims to be Python's tree
        if guards.get("py_stratified") and "py_value" in lean:
            pv = lean["py_value"]
            if "ok" in pv:
                if "value" not in py or not lean_val_eq(pv["ok"], py["value"]):
                    res.mismatches.append({"case": case, "impl": py, "model": pv,
                                           "why": "Spec.pyEval differs from Python's eval"})
            elif pv["err"] not in ("unsupported",) and "error" not in py:
                res.mismatches.append({"case": case, "impl": py, "model": pv,
                                       "why": "Spec.pyEval fails where Python evaluates"})
    why = None
    finding = None
    if io.get("error") == "resolve":
        if "error" not in py and guards.get("py_alphabet", False):
            why = "Python evaluates the text, the implementation refuses it"
    elif not obs_equal(py, io):
        why = "value / received arguments differ from Python's evaluation of the same text"
        in_class = guards.get("py_alphabet") and not guards.get("py_compatible")
        if in_class and mism is None and pred is not None and obs_equal(pred, io):
            finding = "KF-C12-D15"
    if why is None and i_resolves:
        # the name must spell the same call, in normal form
        sc = same_call(io["name"], pytext)
        if sc is False:
            why = "the term name spells a different Python call than the source text"
            if guards.get("py_alphabet") and mism is None:
                if not guards.get("grouping_inert"):
                    # a grouping that mattered was dropped: the name is that of another call
                    finding = "KF-C12-D16"
                elif not guards.get("ungrouped_py_compatible"):
                    # the grouping is inert for the formula grammar, but the unparenthesised name
                    # is read differently by Python (`(x < z) < 3` is named `x < z < 3`)
                    finding = "KF-C12-D15"
        elif lean.get("spec_name_ok") is False:
            why = "the term name is not the single-space normal form of the source tokens"
    if why:
        res.failures.append({"case": case, "impl": io, "expected": py, "why": why,
                             "finding": finding})
        if finding:
            res.known_hit[finding] = res.known_hit.get(finding, 0) + 1
    if i_resolves:
        key = lean.get("ast") or text
        res.nontrivial.add(key)
    if guards:
        res.count("guard:py_compatible=" + str(bool(guards.get("py_compatible"))))
        res.count("guard:grouping_inert=" + str(bool(guards.get("grouping_inert"))))
    if len(res.samples) < 8 and kind in ("random", "d15") and i_resolves and res.evaluations % 7 == 0:
        res.samples.append({"s": text, "name": io.get("name"), "value": io.get("value")})


def run_cases(res, texts, kind):
    """texts: argument texts (without the `f(j, ` prefix); evaluated in batches."""
    cases = [(j, f"f({j}, {t})" if t.strip() else f"f({j})") for j, t in enumerate(texts)]
    impl = {}
    for i in range(0, len(cases), BATCH):
        impl.update(impl_batch(cases[i:i + BATCH]))
    reqs = [{"op": "c12", "s": t, "n": N, "vars": LEAN_VARS, "impl_name": impl[j].get("name")
             if isinstance(impl[j].get("name"), str) else None} for j, t in cases]
    for r in reqs:
        if r["impl_name"] is None:
            del r["impl_name"]
        if mods_for(r["s"]):
            r["mods"] = mods_for(r["s"])
    lean = ask(reqs)
    for (j, t), lo in zip(cases, lean):
        judge(res, {"s": t, "kind": kind}, impl[j], lo, kind)


def run_whole(res, texts, kind):
    """texts: complete call terms (`{…}`, `I(…)`, malformed calls …), one formula each."""
    impl = [impl_single(t) for t in texts]
    reqs = []
    for t, io in zip(texts, impl):
        r = {"op": "c12", "s": t, "n": N, "vars": LEAN_VARS}
        if isinstance(io.get("name"), str):
            r["impl_name"] = io["name"]
        if mods_for(t):
            r["mods"] = mods_for(t)
        reqs.append(r)
    lean = ask(reqs)
    for t, io, lo in zip(texts, impl, lean):
        judge(res, {"s": t, "kind": kind, "whole": True}, io, lo, kind)


def run_pairs(res, pairs, kind, cols=None):
    """pairs of call texts in one formula: textual variants must be one term, different calls two.
    With `cols` (further columns of the frame, e.g. string columns; the callee `h` is then bound
    too) every term that is built must moreover hold the value Python gives for its own source
    text, and the callees must have received what Python passes them, call after call."""
    from formulae import design_matrices
    lean = ask([{"op": "c12_pair", "a": a, "b": b} for a, b in pairs])
    data, ns = _data(), namespace()
    pyns = None
    if cols is not None:
        from formulae.transforms import TRANSFORMS
        for c_, v_ in cols.items():
            data[c_] = list(v_)
        ns["h"] = h
        pyns = dict(ns, I=TRANSFORMS["I"], **{c_: data[c_] for c_ in data.columns if c_ != "y"})
    for (a, b), lo in zip(pairs, lean):
        res.evaluations += 1
        res.count("kind:" + kind)
        case = {"a": a, "b": b, "kind": kind}
        if cols is not None:
            case["cols"] = {c_: list(v_) for c_, v_ in cols.items()}
        sc = same_call(_unbrace(a), _unbrace(b))      # {e} is to be read as I(e)
        try:
            del LOG[:]
            with warnings.catch_warnings(), np.errstate(all="ignore"):
                warnings.simplefilter("ignore")
                dm = design_matrices(f"y ~ 0 + {a} + {b}", data, extra_namespace=ns)
            names = list(dm.common.terms) if dm.common is not None else []
            io = {"terms": names, "columns": int(np.asarray(dm.common.design_matrix).shape[1])
                  if dm.common is not None else 0}
            if cols is not None:
                io["values"] = [_column(dm, n_) for n_ in names]
                io["log"] = list(LOG)
        except Exception as e:  # noqa
            io = {"error": type(e).__name__}
        if "err" in lo or sc is None:
            res.count("pair:skipped")
            continue
        if cols is not None:
            # each call term evaluates like the Python expression it spells (its own source text)
            with names_of(pyns):
                pys = [py_eval(_unbrace(t_)) for t_ in ((a,) if sc else (a, b))]
            if any("syntax_error" in p_ for p_ in pys):
                res.count("pair:python syntax error")
            elif any("error" in p_ for p_ in pys):
                res.count("pair:python error")
                if "terms" in io:
                    res.failures.append({"case": case, "impl": io, "expected": pys, "finding": None,
                                         "why": "Python fails to evaluate one of the calls, the "
                                                "implementation builds the terms"})
            elif "terms" not in io:
                res.failures.append({"case": case, "impl": io, "expected": pys, "finding": None,
                                     "why": "Python evaluates both calls, the implementation fails"})
            elif len(io["terms"]) == len(pys):
                want_obs = {"value": [p_["value"] for p_ in pys],
                            "log": [e_ for p_ in pys for e_ in p_["log"]]}
                if not obs_equal(want_obs, {"value": io["values"], "log": io["log"]}):
                    res.failures.append({
                        "case": case, "impl": io, "expected": want_obs, "finding": None,
                        "why": "a term's value / the arguments the callees received differ from "
                               "Python's evaluation of the term's own text"})
                res.count("pair:values compared")
        res.traces += 1
        if "terms" in io:
            # the model: one term iff `__eq__` identifies the lazy trees (the first one is kept);
            # two terms with one name share a dict key in CommonEffectsMatrix
            if lo["py_eq"] or lo["name_a"] == lo["name_b"]:
                model_terms = [lo["name_a"]]
            else:
                model_terms = [lo["name_a"], lo["name_b"]]
            if io["terms"] != model_terms:
                res.mismatches.append({"case": case, "impl": io, "model": lo,
                                       "why": "number / names of terms differ from the model"})
            want = 1 if sc else 2
            if len(io["terms"]) != want:
                finding = None
                if want == 2 and lo["alphabet"] and io["terms"] == model_terms:
                    if lo["collision"]:
                        finding = "KF-C12-D16"
                    elif lo["literal_merge"]:
                        finding = "KF-C12-D27"
                    elif lo["same_lazy"] and not lo["ungrouped_compatible"]:
                        # one lazy tree for the formula grammar, two readings for Python
                        # (`f((x < z) < 3)` and `f(x < z < 3)`)
                        finding = "KF-C12-D15"
                if finding:
                    res.known_hit[finding] = res.known_hit.get(finding, 0) + 1
                res.failures.append({
                    "case": case, "impl": io, "expected": {"terms": want},
                    "why": "different calls collapse into one term" if want == 2
                    else "textual variants of one call are two terms", "finding": finding})
            res.nontrivial.add(("pair", a, b))


# ------------------------------------------------------------------------------------------------
# prediction: the value of a call term on NEW data
# ------------------------------------------------------------------------------------------------
class rows:
    """the recording callee `f` builds columns of the module-level length N: set it for a frame"""

    def __init__(self, n):
        self.n = n

    def __enter__(self):
        global N
        self.old, N = N, self.n

    def __exit__(self, *a):
        global N
        N = self.old


GROUPS = ["p", "q", "p", "q"]        # the grouping column of the training frame (prediction stage)


def _dyadic(rng, n, lo=-4, hi=9):
    return [rng.randrange(lo, hi) / 2 for _ in range(n)]


def py_eval_on(text, frame):
    """Python's own evaluation of the text over the columns the frame holds NOW"""
    try:
        with warnings.catch_warnings():
            warnings.simplefilter("ignore")
            code = compile(text, "<c12>", "eval")
    except Exception as e:  # noqa (SyntaxError: not a Python expression)
        return {"error": "syntax", "cls": type(e).__name__}
    ns = dict(namespace())
    from formulae.transforms import TRANSFORMS
    ns.update({"x": frame["x"], "z": frame["z"], "I": TRANSFORMS["I"]})
    del LOG[:]
    try:
        with warnings.catch_warnings(), np.errstate(all="ignore"), rows(len(frame)):
            warnings.simplefilter("ignore")
            v = eval(code, {"__builtins__": {}}, ns)
    except Exception as e:  # noqa
        return {"error": "eval", "cls": type(e).__name__}
    return {"value": canon(v), "log": list(LOG)}


def impl_eval_on(dm, part, frame):
    """the call term's column through `<part>.evaluate_new_data(frame)` and what the callees saw"""
    del LOG[:]
    try:
        with warnings.catch_warnings(), np.errstate(all="ignore"), rows(len(frame)):
            warnings.simplefilter("ignore")
            new = getattr(dm, part).evaluate_new_data(frame)
        m = np.asarray(new.design_matrix, dtype=float)
        if part == "common":
            if m.ndim != 2 or m.shape != (len(frame), 1):
                return {"error": "shape", "cls": str(m.shape)}
            col = m[:, 0]
        else:
            # (0 + call | q): one column per group; row i holds the call's value in the column of its
            # group (the other entries are value * 0: zero, or nan when the value is not finite, so
            # the entry is picked, not summed)
            groups = [str(g_) for g_ in list(dm.group.terms.values())[0].groups]
            if m.ndim != 2 or m.shape != (len(frame), len(groups)):
                return {"error": "shape", "cls": str(m.shape)}
            col = np.array([m[i_, groups.index(str(q_))] for i_, q_ in enumerate(frame["q"].tolist())])
        return {"value": canon(col), "log": list(LOG)}
    except Exception as e:  # noqa
        return {"error": "eval", "cls": type(e).__name__}


EDITS = ["column x", "column z", "cell x", "cell z", "both columns", "values x"]


def edit_in_place(rng, frame, how):
    """edit the frame object in place (same object, same length)"""
    n = len(frame)
    if how == "column x":
        frame["x"] = _dyadic(rng, n)
    elif how == "column z":
        frame["z"] = _dyadic(rng, n, 1, 9)
    elif how == "cell x":
        frame.loc[frame.index[rng.randrange(n)], "x"] = rng.randrange(10, 30) / 2
    elif how == "cell z":
        frame.iloc[rng.randrange(n), list(frame.columns).index("z")] = rng.randrange(10, 30) / 4
    elif how == "both columns":
        frame[["x", "z"]] = np.column_stack([_dyadic(rng, n), _dyadic(rng, n, 1, 9)])
    else:
        frame["x"] = frame["x"].to_numpy() * 2 + 1


def predict_case(res, text, seed, path):
    """One call term: build the design, then evaluate it on a new frame, on the same frame object
    after in-place edits, on the same object once more, on a fresh copy and on another frame; each
    value must be Python's eval of the same text over the frame's columns at that moment, and the
    callees must have been called with what Python passes them."""
    from formulae import design_matrices
    rng = rng_for(seed, "c12", "predict", path)
    pytext = _unbrace(text)
    part = "group" if rng.random() < 0.25 else "common"
    train = _data()
    train["q"] = GROUPS
    formula = ("y ~ 0 + " + text) if part == "common" else f"y ~ 0 + (0 + {text} | q)"
    # design time: the property has to hold there (what stages 1-6 judge); only then is the
    # prediction path looked at
    try:
        del LOG[:]
        with warnings.catch_warnings(), np.errstate(all="ignore"):
            warnings.simplefilter("ignore")
            dm = design_matrices(formula, train, extra_namespace=namespace())
    except Exception:  # noqa
        res.count("predict:skipped (no design)")
        return
    at_design = impl_eval_on(dm, part, train)
    if "value" not in at_design or not obs_equal(py_eval_on(pytext, train), at_design):
        res.count("predict:skipped (differs from Python on the training frame: stages 1-6)")
        return
    n = rng.choice([2, 3, 4, 4, 5, 7])
    new = pd.DataFrame({"x": _dyadic(rng, n), "z": _dyadic(rng, n, 1, 9),
                        "q": [rng.choice("pq") for _ in range(n)]})
    if rng.random() < 0.3:
        new.index = [f"r{i}" for i in range(n)]
    steps = [("new frame", None)]
    for how in rng.sample(EDITS, rng.randrange(1, 4)):
        steps.append(("same object after in-place edit: " + how, how))
    steps.append(("same object again, no edit", None))
    steps.append(("fresh copy of the frame", "copy"))
    steps.append(("another frame", "other"))
    frame = new
    records = []
    for i, (label, how) in enumerate(steps):
        if how == "copy":
            frame = frame.copy(deep=True)
        elif how == "other":
            m = rng.choice([2, 3, 4, 6])
            frame = pd.DataFrame({"x": _dyadic(rng, m), "z": _dyadic(rng, m, 1, 9),
                                  "q": [rng.choice("pq") for _ in range(m)]})
        elif how is not None:
            edit_in_place(rng, frame, how)
        io = impl_eval_on(dm, part, frame)
        py = py_eval_on(pytext, frame)
        res.evaluations += 1
        res.count("predict:" + label.split(":")[0])
        # the Lean model over the columns the frame holds now: exact value, guard predicates and
        # the model's tree as fully parenthesised Python text
        cols = {c: {"v": [[int(Fraction(t).numerator), int(Fraction(t).denominator)]
                          for t in frame[c].tolist()]} for c in ("x", "z")}
        rq = {"op": "c12", "s": text, "n": len(frame), "vars": dict(cols, c={"n": [C, 1]})}
        if mods_for(text):
            rq["mods"] = mods_for(text)
        records.append({
            "case": {"s": text, "kind": "predict", "path": path, "part": part, "step": i,
                     "steps": [l for l, _ in steps[:i + 1]],
                     "frame_now": {c: frame[c].tolist() for c in ("x", "z")}},
            "label": label, "io": io, "py": py, "rq": rq, "frame": frame.copy(deep=True)})
    return records


def run_predict(res, texts, seed, start=0):
    todo = []
    for j, t in enumerate(texts):
        todo += predict_case(res, t, seed, start + j) or []
    # one batch for the Lean model; then the verdicts
    for rec, lo in zip(todo, ask([r["rq"] for r in todo]) if todo else []):
        case, io, py = rec["case"], rec["io"], rec["py"]
        part, label = case["part"], rec["label"]
        guards = lo.get("guards", {})
        lv = lo.get("value") or {}
        mism = None
        if "ok" in lv and "value" in io and io["value"][0] == "vec":
            res.traces += 1
            if not lean_val_eq(lv["ok"], io["value"]):
                mism = "value on new data differs from the model's exact value"
                res.mismatches.append({"case": case, "impl": io, "model": lv, "why": mism})
        if obs_equal(py, io):
            if "value" in io:
                res.nontrivial.add(("predict", case["s"], part, label))
            continue
        # the value differs from Python's: the KF-C12-D15 class (the formula grammar read as Python
        # arithmetic) only if the Lean guard puts the text there AND the implementation did what
        # the model's tree says over the columns of this frame
        finding = None
        in_class = guards.get("py_alphabet") and not guards.get("py_compatible")
        if in_class and mism is None and "paren" in lo:
            pred = py_eval_on(lo["paren"], rec["frame"])
            if obs_equal(pred, io):
                finding = "KF-C12-D15"
                res.known_hit[finding] = res.known_hit.get(finding, 0) + 1
        res.failures.append({
            "case": case, "impl": io, "expected": py, "finding": finding,
            "why": f"{part}.evaluate_new_data ({label}): value / received arguments differ from "
                   "Python's evaluation of the same text over the frame's current columns"})

# ------------------------------------------------------------------------------------------------
# calls that differ only in the order / grouping of the operands of a commutative-looking operator
# ------------------------------------------------------------------------------------------------
COMM_OPS = ["+", "*", "==", "!="]
NUM_ATOMS = [("leaf", t_) for t_ in ["x", "z", "c", "2", "0.5", "3", "g(x)", "g(z, k=2)"]] + [
    ("bin", "/", ("leaf", "x"), ("leaf", "2")), ("bin", "-", ("leaf", "z"), ("leaf", "1")),
    ("bin", "*", ("leaf", "x"), ("leaf", "z")), ("bin", "+", ("leaf", "c"), ("leaf", "z"))]
STR_ATOMS = ["s", "t", "'a'", "'b c'", "'u'"]


def string_columns(rng):
    """two string columns whose row-wise concatenation is not commutative"""
    while True:
        s_ = [rng.choice(["u", "v", "w", "uv", "", "b c"]) for _ in range(N)]
        t_ = [rng.choice(["u", "v", "w", "vu", "a", "c b"]) for _ in range(N)]
        if any(a + b != b + a for a, b in zip(s_, t_)) and len(set(s_)) > 1 and len(set(t_)) > 1:
            return {"s": s_, "t": t_}


def _shape(op, items, rng):
    """one binary tree over `items` (in this order) with the operator `op` at every node"""
    if len(items) == 1:
        return items[0]
    k = rng.randrange(1, len(items))
    return ("bin", op, _shape(op, items[:k], rng), _shape(op, items[k:], rng))


def gen_commuting_pair(rng):
    """(a, b, description): two call texts that differ only in the order (and possibly the grouping)
    of the operands of one `+`, `*`, `==` or `!=` node; the operand texts are distinct, so the two
    texts spell different Python calls with different term names."""
    op = rng.choice(COMM_OPS)
    strings = rng.random() < 0.5
    if strings:
        if op == "*":                                   # repetition: a string and a small integer
            items = [rng.choice(["s", "t", "'a'"]), rng.choice(["2", "3"])]
        else:
            items = rng.sample(STR_ATOMS, 3 if (op == "+" and rng.random() < 0.5) else 2)
            if not any(i_ in ("s", "t") for i_ in items):
                items[0] = rng.choice(["s", "t"])
    else:
        items = rng.sample(NUM_ATOMS, 3 if (op in "+*" and rng.random() < 0.5) else 2)
    if op in CMP:
        items = items[:2]
    atoms = [i_ if isinstance(i_, tuple) else ("leaf", i_) for i_ in items]
    perm = list(atoms)
    while perm == atoms:
        rng.shuffle(perm)
    node_a, node_b = _shape(op, atoms, rng), _shape(op, perm, rng)
    kind = "bool" if op in CMP else ("str" if strings else "num")

    def context(node, how, other):
        if how == "outer" and kind == "num":
            node = ("bin", other[0], node, ("leaf", other[1])) if other[2] else \
                ("bin", other[0], ("leaf", other[1]), node)
        elif how == "outer" and kind == "str":
            node = ("bin", "+", node, ("leaf", "'-'")) if other[2] else ("bin", "+", ("leaf", "t"), node)
        elif how == "outer":
            node = ("bin", other[0], node, ("leaf", "2"))
        elif how == "call" and kind == "num":
            node = ("call", "g", [node], [("k", ("leaf", other[1]))] if other[2] else [])
        callee = "h" if (strings or other[3]) else "f"
        if how == "kw":
            # `k = a == b` is not in the formula grammar: a comparison as keyword value is grouped
            return ("call", callee, [("leaf", "x")], [("k", ("par", node) if kind == "bool" else node)])
        if how == "second":
            return ("call", callee, [("leaf", "z"), node], [])
        if how == "both":
            return ("call", callee, [node], [("m", ("leaf", "x"))])
        return ("call", callee, [node], [])
    how = rng.choice(["arg", "arg", "kw", "second", "both", "outer", "call"])
    other = (rng.choice(["+", "-", "*", "/"]), rng.choice(["x", "z", "c", "2"]), rng.random() < 0.5,
             rng.random() < 0.5)
    ta, tb = context(node_a, how, other), context(node_b, how, other)
    a, b = join(render(ta, "py"), rng), join(render(tb, "py"), rng)
    return a, b, f"{op} over {'string' if strings else 'numeric'} operands, {how}"


# ------------------------------------------------------------------------------------------------
# one Environment object passed as env= to several design_matrices calls
# ------------------------------------------------------------------------------------------------
ENV_FUNS = ["fa", "fb"]          # bound by every extra_namespace, to another function each time
ENV_VARS = ["shift", "w"]        # bound by every extra_namespace, to another value each time


def _capture_env(flavour, loc, base):   # noqa: the locals `loc`, `base` are what is captured
    """an Environment whose own (inner) namespaces bind `loc`, `base`, `f`, `g`"""
    from formulae.environment import Environment
    if flavour == "capture":
        return Environment.capture()             # locals of this frame + globals of this module
    return Environment([{"loc": loc, "base": base}, {"f": f, "g": g}])


def gen_env_expr(rng, depth):
    r = rng.random()
    if depth <= 0 or r < 0.3:
        return ("leaf", rng.choice(["x", "z", "shift", "w", "shift", "w", "base", "2", "0.5", "3"]))
    if r < 0.6:
        return ("bin", rng.choice(["+", "-", "*", "/", "+", "*"]), gen_env_expr(rng, depth - 1),
                gen_env_expr(rng, depth - 1))
    callee = rng.choice(ENV_FUNS + ENV_FUNS + ["loc", "g"])
    kws = [("k", gen_env_expr(rng, depth - 2))] if rng.random() < 0.4 else []
    return ("call", callee, [gen_env_expr(rng, depth - 1)], kws)


def gen_env_text(rng):
    """a call term over the columns, the names of the Environment object and the names every
    extra_namespace binds (at least one of the latter)"""
    while True:
        if rng.random() < 0.6:
            args = [gen_env_expr(rng, rng.randrange(0, 3)) for _ in range(rng.choice([1, 2, 2, 3]))]
            kws = [(k_, gen_env_expr(rng, 2)) for k_ in rng.sample(["k", "m"], rng.choice([0, 0, 1, 2]))]
            t = ("call", "f", args, kws)
        else:       # the callee itself comes from the extra_namespace; its value has to be a column
            first = ("bin", rng.choice(["+", "-", "*"]), ("leaf", rng.choice(["x", "z"])),
                     gen_env_expr(rng, 1))
            kws = [("k", gen_env_expr(rng, 2))] if rng.random() < 0.5 else []
            t = ("call", rng.choice(ENV_FUNS), [first], kws)
        text = join(render(t, "py"), rng)
        if any(n_ in text for n_ in ENV_FUNS + ENV_VARS):
            return text


def _lean_num(v):
    fr = Fraction(v)
    return [int(fr.numerator), int(fr.denominator)]


def run_env_round(res, seed, rnd):
    """One Environment object, 2-4 design_matrices calls with env=<that object> and an
    extra_namespace each that binds the same names (functions and argument variables) to other
    objects.  Every design is judged like any other call term (`judge`): against Python's eval over
    the names of ITS OWN call, and against the Lean model / `Spec.C12.pyEval` given those names."""
    rng = rng_for(seed, "c12", "env", rnd)
    from formulae.transforms import TRANSFORMS
    assert not any(n_ in globals() for n_ in ENV_FUNS + ENV_VARS + ["loc", "base"])
    flavour = rng.choice(["capture", "capture", "explicit"])
    mults = rng.sample(range(3, 400), 12)
    m_loc, base = mults.pop(), rng.choice([2, 5, 0.5, -1])
    env = _capture_env(flavour, make_unit(m_loc), base)
    k = rng.choice([2, 2, 3, 4])
    shared = gen_env_text(rng) if rng.random() < 0.5 else None
    data = _data()
    todo, earlier = [], []
    for i in range(k):
        extra, desc, lvars = {}, {}, {}
        lmods = [{"p": ["loc"], "m": [m_loc, 1]}]
        for fn in ENV_FUNS:
            if i and rng.random() < 0.1:
                desc[fn] = "unbound"
                continue
            m = mults.pop()
            extra[fn] = make_unit(m)
            desc[fn] = f"lambda v, k=1: v * {m} + k"
            lmods.append({"p": [fn], "m": [m, 1]})
        for vn in ENV_VARS:
            if i and rng.random() < 0.1:
                desc[vn] = "unbound"
                continue
            if rng.random() < 0.3:
                vals = _dyadic(rng, N, 1, 9)
                extra[vn] = np.array(vals)
                lvars[vn] = {"v": [_lean_num(t_) for t_ in vals]}
                desc[vn] = vals
            else:
                val = rng.choice([1, 2, 3, 7, 10, 100, 0.5, 2.5, -1, -4])
                extra[vn] = val
                lvars[vn] = {"n": _lean_num(val)}
                desc[vn] = val
        text = shared or gen_env_text(rng)
        io = impl_single(text, data=data, ns=extra, env=env)
        pyns = dict(extra, f=f, g=g, loc=make_unit(m_loc), base=base, x=data["x"], z=data["z"],
                    I=TRANSFORMS["I"])
        rq = {"op": "c12", "s": text, "n": N, "mods": lmods,
              "vars": dict({"x": LEAN_VARS["x"], "z": LEAN_VARS["z"], "base": {"n": _lean_num(base)}},
                           **lvars)}
        if isinstance(io.get("name"), str):
            rq["impl_name"] = io["name"]
        case = {"s": text, "kind": "env_reuse", "whole": True, "round": rnd, "design": i + 1, "of": k,
                "env": "one Environment object (" + flavour + f": loc = lambda v, k=1: v * {m_loc} + k, "
                       f"base = {base}, f, g) passed as env= to every design of the round",
                "extra_namespace": desc, "extra_namespaces_of_the_earlier_designs": list(earlier)}
        earlier.append(desc)
        todo.append((case, io, pyns, rq))
    for (case, io, pyns, _), lo in zip(todo, ask([t_[3] for t_ in todo])):
        with names_of(pyns):
            judge(res, case, io, lo, "env_reuse")
        res.count(f"env_reuse:design {case['design']}")


# ------------------------------------------------------------------------------------------------
# names resolved from the caller's scopes: falsy values, shadowing, columns that turn up later
# ------------------------------------------------------------------------------------------------
SC_VARS = ["shift", "w", "k0"]                      # argument names, bound in the caller's scopes
SC_FUNS = ["fa", "fb"]                              # callee names, bound in the caller's scopes
SC_SCOPES = ["locals", "globals", "extra_namespace"]   # inner to outer, below the data frame
SC_FALSY = [None, None, None, None, 0, False, "", [], 0.0]
SC_TRUTHY = [1, 2, 3, 7, 10, 100, 0.5, 2.5, -1, -4, 10.0, 6.0, "a", "b c", True, "array", [2, 5]]
SC_SUBSETS = [(0,), (1,), (2,), (0,), (1,), (0, 1), (0, 1), (0, 2), (1, 2), (0, 1, 2)]


def _sc_describe(v):
    if callable(v):
        m = getattr(v, "mult", None)
        return f"lambda v, k=1: v * {m} + k" if m is not None else "recording callee " + v.__name__
    if isinstance(v, np.ndarray):
        return "numpy.array(" + repr(v.tolist()) + ")"
    return repr(v)


def gen_scope_arith(rng, depth):
    r = rng.random()
    if depth <= 0 or r < 0.45:
        k = rng.random()
        if k < 0.35:
            return ("leaf", rng.choice(SC_VARS))
        if k < 0.8:
            return ("leaf", rng.choice(["x", "z"]))
        if k < 0.93:
            return ("leaf", rng.choice(["2", "0.5", "3", "0", "'a'"]))
        return ("leaf", rng.choice(PYLITS))
    if r < 0.75:
        return ("bin", rng.choice(["+", "-", "*", "/", "+", "*"]), gen_scope_arith(rng, depth - 1),
                gen_scope_arith(rng, depth - 1))
    callee = rng.choice(["g", "g"] + SC_FUNS)
    kws = [("k", gen_scope_arith(rng, depth - 2))] if rng.random() < 0.4 else []
    return ("call", callee, [gen_scope_arith(rng, depth - 1)], kws)


def gen_scope_arg(rng):
    """one argument: a name / an arithmetic expression / one comparison of two of them (no chain)"""
    r = rng.random()
    if r < 0.5:
        return ("leaf", rng.choice(SC_VARS))
    if r < 0.87:
        return gen_scope_arith(rng, rng.randrange(0, 3))
    return ("bin", rng.choice(["==", "!=", "<", ">=", "==", "!="]), gen_scope_arith(rng, 1),
            gen_scope_arith(rng, 1))


def gen_scope_text(rng):
    """a call term over the columns x, z and names that come from the caller's scopes (at least one
    of them); only constructs the formula grammar and Python read alike (no `**`, no prefix sign, no
    comparison chain)"""
    while True:
        if rng.random() < 0.65:
            args = [gen_scope_arg(rng) for _ in range(rng.choice([1, 2, 2, 3]))]
            kws = [(k_, gen_scope_arg(rng)) for k_ in rng.sample(["k", "m", "shift"],
                                                               rng.choice([0, 0, 1, 1, 2]))]
            # `k = a == b` is not in the formula grammar: a comparison as keyword value is grouped
            kws = [(k_, ("par", v_) if v_[0] == "bin" and v_[1] in CMP else v_) for k_, v_ in kws]
            if rng.random() < 0.5:
                args.insert(rng.randrange(len(args) + 1), ("leaf", rng.choice(["x", "z"])))
            t = ("call", "f", args, kws)
        else:       # the callee itself comes from the scopes; its value has to be a column
            first = ("bin", rng.choice(["+", "-", "*"]), ("leaf", rng.choice(["x", "z"])),
                     gen_scope_arith(rng, 1))
            kws = [("k", gen_scope_arith(rng, 1))] if rng.random() < 0.5 else []
            t = ("call", rng.choice(SC_FUNS), [first], kws)
        toks = render(t, "py")
        if any(n_ in toks for n_ in SC_VARS + SC_FUNS):
            return join(toks, rng), [n_ for n_ in SC_VARS if n_ in toks]


def gen_scopes(rng):
    """what the caller's locals, the caller's globals and extra_namespace bind: every argument name
    and every callee name in a non-empty subset of the three (rarely in none); the innermost binding
    is mostly a falsy object (None / 0 / False / '' / [] / 0.0; for a callee name sometimes), an outer
    binding of the same name mostly another, truthy one.  All non-falsy values of a case differ."""
    scopes = [dict() for _ in SC_SCOPES]
    truthy = rng.sample(SC_TRUTHY, len(SC_TRUTHY))
    mults = rng.sample(range(3, 400), 8)
    for name, fn in (("f", f), ("g", g)):
        scopes[rng.randrange(3)][name] = fn
    for vn in SC_VARS:
        if rng.random() < 0.04:
            continue
        for pos, i in enumerate(rng.choice(SC_SUBSETS)):
            if rng.random() < (0.7 if pos == 0 else 0.25):
                v = rng.choice(SC_FALSY)
                v = [] if isinstance(v, list) else v
            else:
                v = truthy.pop()
                v = list(v) if isinstance(v, list) else v
                v = np.array(_dyadic(rng, 4, 1, 9)) if isinstance(v, str) and v == "array" else v
            scopes[i][vn] = v
    for fn in SC_FUNS:
        if rng.random() < 0.04:
            continue
        for pos, i in enumerate(rng.choice(SC_SUBSETS)):
            if rng.random() < (0.25 if pos == 0 else 0.1):
                scopes[i][fn] = rng.choice([None, None, 0, False, ""])
            else:
                u = make_unit(mults.pop())
                u.mult = int(u.__name__[1:])
                scopes[i][fn] = u
    return scopes


def _sc_transforms():
    from formulae.terms.call import ENCODINGS
    from formulae.transforms import TRANSFORMS
    return {**TRANSFORMS, **ENCODINGS}


def build_in_scopes(flavour, formula, data, scopes):
    """design_matrices called from a frame whose locals / globals are exactly the given dicts (plus
    the caller's own plumbing names, all prefixed `_c12_`), with the third dict as extra_namespace"""
    from formulae import design_matrices
    from formulae.environment import Environment
    loc, glo, extra = (dict(s_) for s_ in scopes)
    if flavour == "explicit Environment":
        return design_matrices(formula, data, env=Environment([loc, glo]), extra_namespace=extra)
    plumbing = {"_c12_dm": design_matrices, "_c12_formula": formula, "_c12_data": data,
                "_c12_extra": extra}
    call = "_c12_dm(_c12_formula, _c12_data, extra_namespace=_c12_extra)"
    if flavour == "exec with locals and globals":
        loc.update(plumbing)
        exec("_c12_out = " + call, glo, loc)                      # noqa: S102
        return loc["_c12_out"]
    # a real function: the names are its parameters (fast locals), its module globals are `glo`
    src = ("def _c12_caller(" + ", ".join(list(plumbing) + list(loc)) + "):\n    return " + call + "\n")
    exec(src, glo)                                                # noqa: S102
    return glo["_c12_caller"](**plumbing, **loc)


def py_eval_scoped(text, frame, scopes):
    """Python's own evaluation of the text over the same scopes: the frame's columns, the built-in
    transforms, the caller's locals (eval's `locals`: a collections.ChainMap, first match), the
    caller's globals (eval's `globals`) and extra_namespace as the outermost scope Python itself
    knows (`__builtins__` of those globals)"""
    import collections
    try:
        with warnings.catch_warnings():
            warnings.simplefilter("ignore")
            code = compile(text, "<c12>", "eval")
    except Exception as e:  # noqa
        return {"error": "syntax", "cls": type(e).__name__}
    loc = collections.ChainMap({c_: frame[c_] for c_ in frame.columns}, _sc_transforms(),
                               dict(scopes[0]))
    glo = dict(scopes[1])
    glo["__builtins__"] = dict(scopes[2])
    del LOG[:]
    try:
        with warnings.catch_warnings(), np.errstate(all="ignore"), rows(len(frame)):
            warnings.simplefilter("ignore")
            v = eval(code, glo, loc)                              # noqa: S307
    except Exception as e:  # noqa
        return {"error": "eval", "cls": type(e).__name__}
    return {"value": canon(v), "log": list(LOG)}


def _term_column(dm, part, mat, frame):
    """the column of the one call term in a matrix object of the design (`mat`: dm.common / dm.group or
    what their evaluate_new_data returned)"""
    m = np.asarray(mat.design_matrix, dtype=float)
    if part == "common":
        if m.ndim != 2 or m.shape != (len(frame), 1):
            return {"error": "shape", "cls": str(m.shape)}
        return {"value": canon(m[:, 0])}
    groups = [str(g_) for g_ in list(dm.group.terms.values())[0].groups]
    if m.ndim != 2 or m.shape != (len(frame), len(groups)):
        return {"error": "shape", "cls": str(m.shape)}
    return {"value": canon(np.array([m[i_, groups.index(str(q_))]
                                     for i_, q_ in enumerate(frame["q"].tolist())]))}


def _sc_lean_request(text, frame, scopes):
    """the request for the Lean model over the RESOLVED names (first match: the frame's columns, then
    locals, globals, extra_namespace; callees without the frame); None when a value is outside the
    model's value domain (a list)"""
    lvars, lmods = {}, []
    for name in ["x", "z"] + SC_VARS:
        for sc in [{c_: frame[c_] for c_ in frame.columns}] + list(scopes):
            if name in sc:
                v = sc[name]
                if v is None:
                    lvars[name] = {"none": True}
                elif isinstance(v, (bool, np.bool_)):
                    lvars[name] = {"b": bool(v)}
                elif isinstance(v, (int, float)):
                    lvars[name] = {"n": _lean_num(v)}
                elif isinstance(v, str):
                    lvars[name] = {"s": v}
                elif isinstance(v, (pd.Series, np.ndarray)):
                    lvars[name] = {"v": [_lean_num(t_) for t_ in np.asarray(v, dtype=float).tolist()]}
                elif name in text:
                    return None
                break
    for name in SC_FUNS:
        for sc in scopes:
            if name in sc:
                if getattr(sc[name], "mult", None) is not None:
                    lmods.append({"p": [name], "m": [sc[name].mult, 1]})
                break
    return {"op": "c12", "s": text, "n": len(frame), "vars": lvars, "mods": lmods}


def scope_round(res, seed, rnd):
    """One call term whose names come from the caller's scopes.  The design is built from a frame
    with the given locals / globals / extra_namespace and judged; then it is evaluated on new frames,
    some of which HAVE a column named like one of those names (the column is then the resolved name).
    Every value must be Python's eval of the same text over the same scopes, the frame's columns
    first, and the callees must have received what Python passes them."""
    rng = rng_for(seed, "c12", "scopes", rnd)
    clash = set(SC_VARS + SC_FUNS + ["f", "g", "x", "z"]) & set(_sc_transforms())
    assert not clash, clash
    text, used = gen_scope_text(rng)
    scopes = gen_scopes(rng)
    flavour = rng.choice(["function", "function", "exec with locals and globals",
                          "explicit Environment"])
    part = "group" if rng.random() < 0.2 else "common"
    train = _data()
    train["q"] = GROUPS
    in_train = [n_ for n_ in used if rng.random() < 0.08]
    for n_ in in_train:
        train[n_] = _dyadic(rng, 4, 1, 9)
    formula = ("y ~ 0 + " + text) if part == "common" else f"y ~ 0 + (0 + {text} | q)"
    desc = {"s": text, "kind": "scopes", "round": rnd, "part": part,
            "called_from": flavour,
            "scopes": {n_: {k_: _sc_describe(v_) for k_, v_ in s_.items()}
                       for n_, s_ in zip(SC_SCOPES, scopes)},
            "training_columns": [c_ for c_ in train.columns]}
    records = []

    def record(step, label, frame, io):
        py = py_eval_scoped(text, frame, scopes)
        res.evaluations += 1
        res.count("scopes:" + label.split(":")[0])
        records.append({"case": dict(desc, step=step, label=label,
                                     frame={c_: frame[c_].tolist() for c_ in frame.columns
                                            if c_ not in ("y", "q")}),
                        "io": io, "py": py, "rq": _sc_lean_request(text, frame, scopes)})
        return py

    # design time
    del LOG[:]
    try:
        with warnings.catch_warnings(), np.errstate(all="ignore"):
            warnings.simplefilter("ignore")
            dm = build_in_scopes(flavour, formula, train, scopes)
        log = list(LOG)
        if (dm.common is not None) != (part == "common") or (dm.group is not None) != (part == "group"):
            io = {"error": "terms", "cls": "not the one term"}
        else:
            io = _term_column(dm, part, getattr(dm, part), train)
            io["log"] = log
    except Exception as e:  # noqa
        dm, io = None, {"error": "eval", "cls": type(e).__name__}
    py = record(0, "design", train, io)
    if "value" not in io or "value" not in py:
        return records
    # prediction: frames with and without a column named like a name of the caller's scopes
    late = [n_ for n_ in used if n_ not in in_train]
    plans = [[]]
    if late:
        plans += [rng.sample(late, rng.randrange(1, len(late) + 1)) for _ in range(2)]
    plans += [list(in_train)] if rng.random() < 0.5 else []
    rng.shuffle(plans)
    if late and not plans[0] and rng.random() < 0.5:
        plans.reverse()
    for i, extra_cols in enumerate(plans):
        n = rng.choice([2, 3, 4, 4, 4, 5, 7])
        frame = pd.DataFrame({"x": _dyadic(rng, n), "z": _dyadic(rng, n, 1, 9),
                              "q": [rng.choice("pq") for _ in range(n)]})
        for c_ in sorted(set(extra_cols) | set(in_train)):
            frame[c_] = _dyadic(rng, n, 1, 9)
        if rng.random() < 0.2:
            frame.index = [f"r{i_}" for i_ in range(n)]
        label = (f"{part}.evaluate_new_data: new frame with column(s) "
                 + ", ".join(c_ for c_ in frame.columns if c_ != "q"))
        record(i + 1, label, frame, impl_eval_on(dm, part, frame))
    return records


def run_scopes(res, seed, rounds):
    todo = []
    for rnd in rounds:
        todo += scope_round(res, seed, rnd)
    rqs = [r_["rq"] for r_ in todo if r_["rq"] is not None]
    answers = iter(ask(rqs) if rqs else [])
    for rec in todo:
        case, io, py = rec["case"], rec["io"], rec["py"]
        lo = next(answers) if rec["rq"] is not None else {}
        lv = lo.get("value") or {}
        if "ok" in lv and "value" in io and io["value"][0] == "vec":
            res.traces += 1
            res.count("scopes:lean value compared")
            if not lean_val_eq(lv["ok"], io["value"]):
                res.mismatches.append({"case": case, "impl": io, "model": lv,
                                       "why": "value differs from the model's exact value over the "
                                              "resolved names"})
        if "error" in py and "error" in io:
            res.count("scopes:both fail")
            continue
        if "value" in py and py["value"][0] != "vec" and "error" in io:
            res.count("scopes:skipped (Python's value is not a numeric column)")
            continue
        if obs_equal(py, io):
            res.nontrivial.add(("scopes", case["s"], case["round"], case["step"]))
            continue
        res.failures.append({
            "case": case, "impl": io, "expected": py, "finding": None,
            "why": f"{case['label']}: value / received arguments differ from Python's evaluation of "
                   "the same text over the same scopes (the frame's columns, then the caller's "
                   "locals, the caller's globals, extra_namespace)"})


# ------------------------------------------------------------------------------------------------
def explore(tier, seed, res=None, replay=None):
    res = res or Result()
    res.rule = ("call terms f(<expr>) over columns x, z (dyadic float64), scalar c, literals, "
                "recording callees f, g and dotted callees a.b.c.fn (1-4 dots) through module-like "
                "objects whose levels re-use the same attribute names for different recording "
                "functions (complete tree `tk`, random sparse tree `lib`); non-trivial = the "
                "implementation builds a term; distinct by the parsed tree (Lean sexp); prediction "
                "stage: a sample of these call terms (as a common term, and as the effect of a "
                "group-specific term) evaluated through evaluate_new_data on a new frame, on the same "
                "frame object after in-place edits (column / cell assignments), on the same object "
                "again, on a fresh copy and on another frame, each compared with Python's eval over "
                "the frame's columns at that moment and with what the recording callees received; "
                "commuting stage: pairs of calls in one formula that differ only in the order / the "
                "grouping of the operands of one +, *, == or != node (2-3 operands: numeric columns, "
                "scalars, literals, nested calls; string columns s, t and string literals: "
                "concatenation, repetition, comparison) as positional / keyword argument, under "
                "another operator or inside a nested call: two terms, each with the value and the "
                "received arguments of Python's eval of its own text; environment stage: one "
                "Environment object (Environment.capture() of a frame / explicit namespaces) passed "
                "as env= to 2-4 design_matrices calls whose extra_namespace dicts bind the same "
                "names (callees fa, fb; argument variables shift, w: scalars or columns; sometimes "
                "left unbound) to other objects, each design judged against Python's eval and the "
                "Lean model over the names of its own call; scope stage: call terms whose argument "
                "names (shift, w, k0) and callee names (fa, fb, f, g) are bound in the caller's locals / "
                "globals / extra_namespace (every non-empty subset of the three, rarely none), the "
                "innermost binding mostly None / 0 / False / '' / [] / 0.0 with and without an outer "
                "binding of the same name, design_matrices called from a generated function, an exec "
                "with separate locals and globals, or with an explicit Environment; common term or "
                "effect of a group-specific term; the design and then 1-4 evaluate_new_data calls on "
                "new frames with and without columns named like the call's argument names (design "
                "frame mostly without them), each value and the arguments the callees received "
                "compared with Python's eval of the same text over the same scopes, the columns of the "
                "frame at hand first")
    # the module-like objects depend on the seed only (a replay rebuilds the same objects)
    build_mods(rng_for(seed, "c12", "mods"))
    if replay is not None:
        if replay.get("kind") == "predict":
            run_predict(res, [replay["s"]], seed, replay.get("path", 0))
        elif replay.get("kind") == "env_reuse":
            run_env_round(res, seed, replay.get("round", 0))
        elif replay.get("kind") == "scopes":
            run_scopes(res, seed, [replay.get("round", 0)])
        elif "a" in replay:
            run_pairs(res, [(replay["a"], replay["b"])], replay.get("kind", "replay"),
                      cols=replay.get("cols"))
        elif replay.get("whole"):
            run_whole(res, [replay["s"]], "replay")
        else:
            run_whole(res, [replay["s"]], "replay")
        return res
    quick = tier == "quick"
    rng = rng_for(seed, "c12", "gen")

    # 1. exhaustive small operator trees, three parenthesisations
    trees = small_trees(2, LEAVES, BIN_OPS, UN_OPS)
    texts, seen = [], set()
    n_full = 0
    for i, t in enumerate(trees):
        for mode in ("py", "formula", "full"):
            if mode == "full" and quick and (i + seed) % 8:
                continue
            s = join(render(t, mode))
            if s not in seen:
                seen.add(s)
                texts.append(s)
                n_full += mode == "full"
    res.exhaustive = True
    res.notes.append(f"exhaustive: {len(trees)} operator trees with <= 2 operators over {LEAVES}; "
                     f"{len(texts)} distinct texts ({n_full} fully parenthesised variants"
                     + (", 1/8 sample of them in the quick tier)" if quick else ")"))
    run_cases(res, texts, "small")
    if not quick:
        trees3 = small_trees(3, ["x", "2", "g(x)"], ["<", "+", "-", "*", "/", "**"], ["-"])
        texts3, seen3 = [], set(seen)
        for t in trees3:
            for mode in ("py", "formula"):
                s = join(render(t, mode))
                if s not in seen3:
                    seen3.add(s)
                    texts3.append(s)
        res.notes.append(f"exhaustive: {len(trees3)} trees with <= 3 operators over a reduced alphabet, "
                         f"{len(texts3)} further texts")
        run_cases(res, texts3, "small3")

    # 2. random deeper trees, random whitespace, redundant parentheses, literals, keywords, calls
    n_rand = 2000 if quick else 100000
    depth = 4 if quick else 6
    rtexts = []
    for i in range(n_rand):
        t = gen_tree(rng, rng.randrange(1, depth + 1))
        mode = rng.choice(["py", "py", "formula", "full"])
        if rng.random() < 0.4:
            t = add_parens(t, rng)
        toks = render(t, mode)
        extra = []
        for _ in range(rng.choice([0, 0, 0, 1, 2])):          # further positional arguments
            extra += [","] + render(gen_tree(rng, 2), mode)
        for kw in rng.sample(["k", "m"], rng.choice([0, 0, 0, 1, 2])):
            extra += [",", kw, "="] + render(gen_tree(rng, 2), mode)
        rtexts.append(join(toks + extra, rng))
    run_cases(res, rtexts, "random")

    # 3. the D15 class on purpose (scalars and columns)
    d15 = []
    for a in ["x", "c", "2", "g(x)", "(x + 1)"]:
        for b in ["2", "c", "z", "-1"]:
            d15 += [f"-{a} ** {b}", f"+{a}**{b}", f"2 ** {a} ** {b}", f"{a} ** {b} ** 2",
                    f"{a} < {b} < 3", f"1 < {a} <= {b}", f"{a} == {b} == True",
                    f"-{a} ** {b} ** 2", f"c < {a} < {b} < 5"]
    run_cases(res, sorted(set(d15)), "d15")

    # 4. {e} is I(e); whole-term forms; malformed / non-Python forms (model vs implementation)
    whole = []
    brace_pairs = []
    for i in range(60 if quick else 600):
        t = ("bin", rng.choice(["+", "-", "*", "<"]), gen_tree(rng, rng.randrange(1, 4), allow_misc=False),
             ("leaf", rng.choice(["x", "z"])))
        inner = join(render(t, rng.choice(["py", "formula"])), rng)
        whole += ["{" + inner + "}", "I(" + inner + ")"]
        brace_pairs.append(("{" + inner + "}", "I(" + inner + ")"))
    whole += ["{x + 1}", "I(x + 1)", "{x / z}", "{ x }", "{(x + z) * 2}", "{k = x}", "{x < z}"]
    run_whole(res, whole, "brace")
    malformed = ["f(a = 1, x)", "f(x, k = 1, k = 2)", "f(k = 1, x, k = z, m = 2, k = 3)", "f(x)(z)",
                 "(f)(x)", "f((k = 2))", "f(x | z)", "f(x : z)", "f(x // z)", "f(x % z)", "f(007)",
                 "f(x, 00.50)", "f(x[a])", "f(`x`)", "f({x})", "f({x}, {z + 1})", "f()", "f(x,)",
                 "f(,x)", "f(x z)", "f(x +)", "f(- -x)", "f(+-+x)", "f(x - -z)", "f(x--z)", "f(x ** -z)",
                 "f(x ** - - z)", "f('a' == \"a\")", "f('it\"s)", "f(2(x))", "g(x)(z)", "f(x)[a]",
                 "f(a.b)", "f(x, k = z < 2)", "f(x < z, k = 2)", "f(!x)", "f(x != z)",
                 "f(x = z)", "f(x == z)", "f(1 = x)", "f(g(x) = 2)", "f(~x)", "f(0.00001)", "f(1e3)",
                 "f(12345678901234567890)", "f(123456789.123456789)", "f(.5.5)", "f(1.)", "f(1..2)"]
    run_whole(res, malformed, "malformed")

    # 6. dotted callees: every function of the object trees (callee depth 1-4), as an argument of
    #    f and as a term of its own; random (possibly missing) paths; namespaces called; dotted
    #    calls inside dotted calls; keyword / expression arguments
    dotted = []
    for pth in MOD_FUNS:
        dotted.append(f"{pth}({rng.choice(['x', 'z', 'x + c', 'z * 2', '-x'])})")
    for i in range(150 if quick else 3000):
        pth = rng.choice(MOD_FUNS) if rng.random() < 0.6 else random_path(rng)
        arg = join(render(gen_tree(rng, rng.randrange(0, 3), allow_misc=False), "py"), rng)
        kw = f", k={rng.choice(['2', 'z', 'c', '0.5', 'x - 1'])}" if rng.random() < 0.3 else ""
        dotted.append(f"{pth}({arg}{kw})")
    for pth in MOD_NSS[:: (7 if quick else 1)]:
        dotted.append(f"{pth}(x)")                       # a namespace is not callable
    dotted = sorted(set(dotted))
    run_cases(res, dotted, "dotted")
    col = [t for t in dotted if "x" in t or "z" in t]
    run_whole(res, rng.sample(col, min(len(col), 60 if quick else 600)), "dotted_whole")

    # 5. one term or two?  textual variants / different calls / the D16 class
    pairs = list(brace_pairs[: (30 if quick else 300)])
    for i in range(40 if quick else 400):
        # two dotted callees applied to one argument: different paths are different calls
        a, b = rng.choice(MOD_FUNS), rng.choice(MOD_FUNS)
        if rng.random() < 0.5:
            b = ".".join([a.split(".")[0]] + a.split(".")[2:]) if a.count(".") >= 2 else b
        pairs.append((f"{a}(x)", f"{b}( x )"))
    for i in range(150 if quick else 3000):
        t = gen_tree(rng, rng.randrange(1, 4))
        a = "f(" + join(render(t, "py"), rng) + ")"
        kind = rng.randrange(4)
        if kind == 0:      # same tree, other spelling
            b = "f(" + join(render(add_parens(t, rng, 0.4), "py"), rng) + ")"
        elif kind == 1:    # the same tokens without any grouping parentheses
            b = "f(" + join([k for k in _strip_groups(render(t, "py"))], rng) + ")"
        elif kind == 2:    # the fully parenthesised spelling against the formula-minimal one
            a = "f(" + join(render(t, "full"), rng) + ")"
            b = "f(" + join(render(t, "formula"), rng) + ")"
        else:              # another tree
            b = "f(" + join(render(gen_tree(rng, rng.randrange(1, 4)), "py"), rng) + ")"
        pairs.append((a, b))
    pairs += [("f((x+z)*2)", "f(x+z*2)"), ("f(x-(z-1))", "f(x-z-1)"), ("f(2/(x*z))", "f(2/x*z)"),
              ("f('a')", 'f("a")'), ("f(1.50)", "f(1.5)"), ("f(2)", "f(2.0)"), ("f(x,k=1)", "f(x, k = 1)"),
              ("f(-(x+z))", "f(-x+z)"), ("f(-(x**2))", "f(-x**2)"), ("f((x<z)<3)", "f(x<z<3)"),
              ("f(1)", "f(True)"), ("f(0)", "f(False)"), ("f(x, 1.0)", "f(x, True)"),
              ("f(x, '1')", "f(x, 1)"), ("f(0.5)", "f(.5)"), ("f(2)", "f(2.50)"),
              # calls that differ only in a keyword's value / name / an argument position
              ("f(x, k=2)", "f(x, k=3)"), ("f(x, k=z)", "f(x, k=x)"), ("f(x, k=2)", "f(x, m=2)"),
              ("f(x, k=2, m=3)", "f(x, k=3, m=2)"), ("f(x, z)", "f(z, x)"), ("f(x, k=g(x))", "f(x, k=g(z))"),
              ("g(x, k='a')", "g(x, k='b')"), ("f(x, 2)", "f(x, k=2)"), ("f(x)", "g(x)"),
              ("f(x, k=2)", "f(x,k = 2)")]
    run_pairs(res, pairs, "pairs")

    # 5b. two calls that differ only in the order / grouping of the operands of one `+`, `*`, `==`
    #     or `!=` node (numeric and string columns): two terms, each with the value of its own text
    rc = rng_for(seed, "c12", "commute")
    cols = string_columns(rc)
    cpairs, how = [], {}
    for i in range(160 if quick else 3000):
        a, b, d = gen_commuting_pair(rc)
        cpairs.append((a, b))
        how[d] = how.get(d, 0) + 1
    cpairs += [("h(s + t)", "h(t + s)"), ("f(x + z)", "f(z + x)"), ("f(x * z)", "f(z * x)"),
               ("f(x == z)", "f(z == x)"), ("f(x != z)", "f(z != x)"), ("h(s == t)", "h(t == s)"),
               ("h(x, k=s + t)", "h(x, k=t + s)"), ("f(x, k=z * 2)", "f(x, k=2 * z)"),
               ("f(x + z + c)", "f(x + (c + z))"), ("h(s + t + 'a')", "h(s + ('a' + t))"),
               ("f(x + z, k=x * 2)", "f(z + x, k=2 * x)"), ("h(s * 2)", "h(2 * s)")]
    for d, n_ in sorted(how.items()):
        res.count("commute:" + d, n_)
    res.notes.append(f"commuting operands: {len(cpairs)} pairs over the frame with string columns "
                     f"s = {cols['s']}, t = {cols['t']}")
    run_pairs(res, cpairs, "commute", cols=cols)

    # 8. one Environment object passed as env= to 2-4 design_matrices calls whose extra_namespace
    #    dicts bind the same names (functions, argument variables) to other objects
    for rnd in range(40 if quick else 600):
        run_env_round(res, seed, rnd)

    # 9. names resolved from the caller's scopes (locals / globals / extra_namespace): falsy values,
    #    shadowing of an outer binding, and new frames that have a column named like such a name
    run_scopes(res, seed, range(300 if quick else 5000))

    # 7. prediction: call terms through common / group evaluate_new_data on new frames, on the same
    #    frame object after in-place edits, on fresh copies
    rp = rng_for(seed, "c12", "predict-texts")
    n_pred = 140 if quick else 4000
    cand = [f"f({j}, {t})" for j, t in enumerate(rtexts) if ("x" in t or "z" in t)]
    ptexts = rp.sample(cand, min(len(cand), n_pred))
    ptexts += rp.sample(col, min(len(col), 25 if quick else 300))
    ptexts += rp.sample(whole, min(len(whole), 25 if quick else 300))
    ptexts += ["f( x + z,k = 1 )", "g(x)", "g(x, k=z)", "f(x, 'a', k=z * 2)", "{x / z}", "I(x + 1)",
               "f(x ** 2, z)", "f(g(x), g(z, k=2))"]
    run_predict(res, ptexts, seed)
    return res


def _unbrace(t):
    t = t.strip()
    return "I(" + t[1:-1] + ")" if t.startswith("{") and t.endswith("}") else t


def _strip_groups(tokens):
    """Delete grouping parentheses (not call parentheses) from a rendered token list."""
    out, stack = [], []
    for i, t in enumerate(tokens):
        if t == "(":
            is_call = bool(out) and (out[-1][0].isalpha() or out[-1][0] == "_") and \
                out[-1] not in ("True", "False", "None")
            stack.append(is_call)
            if is_call:
                out.append(t)
        elif t == ")":
            if stack.pop():
                out.append(t)
        else:
            out.append(t)
    return out
