"""C07 — designs are isolated: no state leaks across evaluations, designs or calls.

Histories of the operations build-design / evaluate-common / evaluate-group / set-config over a
pool of formulas x frames x config values are run in ONE Python process against the real library
(thorough: a few worker processes, each running thousands of histories one after the other).
For every operation its canonical output (matrices as exact fractions, slices, labels, errors by
class, warning yes/no) is compared with

 (a) the same operation in a FRESH PROCESS that has only seen `relevant h o` (the last config
     change and the build that created the design the operation refers to).  Fresh processes are
     real processes: a pristine "zygote" interpreter (formulae imported, never used) forks one
     child per distinct relevant-history; the child replays it and exits.  The outcome is a function
     of the relevant history only, so it is computed once per distinct key and shared by all
     histories.  A sample of the keys (quick) / every key (thorough) is additionally executed in a
     brand-new interpreter (exec, not fork) and must agree;
 (b) the Lean model's `step` (Model/World.lean) on the projection of the history onto the formulas
     of the exactly modelled fragment.

After every operation the harness also checks that nothing handed out or handed in has changed:
training matrices / slices / labels of every existing design (bit-identical to snapshots), the
internal state of every design (transform instance dictionaries incl. the Polynomial memo
dictionaries, contrast matrices, levels), earlier results, the caller's DataFrame (values, dtypes,
index, column order), the caller's namespace; that `design_matrices` / `model_description`
called twice give identical output; and every design and every result is printed (str, repr) right
after it is produced — an observation that has to succeed and must not change any of the above.

`Spec.C07.holds` (every output equals its fresh-state output and nothing observed changed) is
evaluated by the Lean driver on the decoded canonical outputs — the predicate the theorems of
Properties/C07.lean are about."""
import base64
import json
import os
import pickle
import subprocess
import sys
import warnings
from concurrent.futures import ThreadPoolExecutor

import numpy as np
import pandas as pd

HERE = os.path.dirname(os.path.abspath(__file__))
if HERE not in sys.path:
    sys.path.insert(0, HERE)

import designs  # noqa: E402

ASSUMPTIONS = [
    "a fresh process-state is a child forked from an interpreter that has imported formulae and "
    "never called it (one child per distinct relevant history); a sample of them (quick) / all of "
    "them (thorough) are re-executed in a brand-new interpreter and must agree",
    "the outcome of an operation in a fresh process is a function of (formula, build frame, last "
    "config value, evaluated frame, part): it is computed once per key and shared by all histories",
    "numpy/pandas/scipy are deterministic across processes on bit-identical inputs (outputs of "
    "scale/bs/poly are compared bit-exactly between the history and the fresh process, never with "
    "the model)",
    "the Lean model (Model/World.lean `step`) is compared on the projection of every history onto "
    "the formulas of the exactly modelled fragment (frames with 4/8 rows of dyadic numbers, so "
    "`center` is exact in floating point)",
    "frames with missing values in used columns: the World model has no missing-value step (that step "
    "is the subject of C09), so a build on such a frame enters the projection with the rows the "
    "implementation kept (the design's own `.data`) as its frame, and only when 1, 2, 4 or 8 rows were "
    "kept (`center` exact); other builds on such frames, and evaluations of projected designs on "
    "frames with missing values, are compared with fresh processes and snapshots only",
    "the pool has frames whose columns are EXACTLY the variables of one formula (no unused column), "
    "with missing values in used columns, besides frames with unused columns with and without "
    "missing values; every frame handed to the library is fingerprinted after every operation",
    "the caller's namespace holds, besides a list, a module and an int, one Treatment() and one Sum() "
    "instance with default arguments that four formulas name (`C(g, enc_t)`, `C(f, enc_s)`, the same "
    "instance for two factors, as a group-specific effect); every history (and every fresh process) "
    "creates its own instances; the deep attribute state of every namespace object is compared after "
    "every operation, and every later design is compared with the fresh process as before",
    "every call into the library (design_matrices, model_description, evaluate_new_data, config "
    "assignment, printing) is made from functions whose local and global names all start with an "
    "underscore (no column / namespace name of the pool does): the caller-scope lookup of "
    "design_matrices (env=0) sees no harness variable",
    "builds through a caller-owned Environment: every history owns ONE `Environment.capture()` object "
    "(captured in the underscore-only scope the library is called from); build ops with a 4th element "
    "pass it as `env=` together with an extra_namespace made for that build (the history's namespace "
    "plus one of 4 bindings of the callee `fn` and the argument `off` to different objects), for three "
    "formulas that use these names and for the other formulas of the pool; exhaustive short histories "
    "(pool 'env') and random ones mixing plain and such builds (pool 'fullenv'); every output is "
    "compared with a fresh process (which owns a never-used Environment), and after every operation "
    "the caller's Environment object (number and identity of its namespaces, names and objects they "
    "bind) and the extra_namespace dicts handed in are compared with what they were",
    "objects of the caller handed to transforms BY NAME: the namespace of every history also binds a "
    "NumPy array `ks` of interior knots whose values are not in increasing order and a list `kl`; two "
    "formulas pass them to bs(..., knots=ks / kl) (common term, interaction; not as group-specific "
    "effect: printing a design with a multi-column numeric group-specific effect raises AssertionError "
    "on the unchanged library, a printing defect reported separately), "
    "explored exhaustively in short histories (pool 'arr') and in random ones together with other "
    "stateful formulas and frames with missing values (pool 'fullarr'), through plain builds and through "
    "the caller-owned Environment; after every operation the caller's namespace AND every "
    "extra_namespace dict handed in are compared by names, identity of the bound objects and a deep "
    "value snapshot of every object (lists / dicts element-wise, NumPy arrays by dtype / shape / bytes, "
    "instances by attribute state) taken before the first operation / at hand-in",
    "hash randomisation: every process of this check runs under PYTHONHASHSEED=0, except the hash-seed "
    "stage: 8 formulas whose interactions of three / four categoric factors have only part of their "
    "margin in the model (the terms added for full-rankness are interactions of two or more categoric "
    "factors) are built in brand-new interpreters started with PYTHONHASHSEED=0 and 3 (thorough: 6) "
    "other values drawn from the seed (quick: 4 of the formulas on one frame; thorough: all on two "
    "frames); the outputs (matrices, term names, slices, column labels, levels) must be identical "
    "(Spec.C07.holds evaluated by the Lean driver with the first interpreter's output as fresh-state "
    "output); determinism under other sources of nondeterminism than the hash seed is not explored",
    "absence of writes to arrays/DataFrames already returned, object aliasing (shared Term objects, "
    "shared slices dict), the Polynomial memo dictionaries and the TRANSFORMS registry are outside "
    "the model: they are covered only by the snapshot checks of this harness and by the translator "
    "ties (Generated c07*)",
]
TRUSTED = ["os.fork / subprocess freshness of a never-used interpreter",
           "harness/c07.py snapshot comparison (np.array_equal on copies, "
           "pd.testing.assert_frame_equal against deep copies)"]

CONFIG_KEY = "EVAL_UNSEEN_CATEGORIES"
MODES = ["error", "warning", "silent"]

# (formula, in the exactly modelled fragment?)
FORMULAS = [
    ("y ~ center(x) + C(f)", True),
    ("y ~ 0 + f + (center(z) | g)", True),
    ("y ~ scale(x) + poly(z, 2) + (1 | g)", False),
    ("y ~ f:x + (x | g)", True),
    ("y ~ bs(x, df=4) + h", False),
    ("y ~ C(f, levels=lv_f) + center(x):h", True),
    ("y ~ standardize(z) + center(x) + (0 + h | g)", False),
    # `w` has no spread in one of the frames a design is built from (frame 1): whatever a transform
    # remembers about it is fixed by that build, not by the frames evaluated afterwards
    ("y ~ scale(w) + center(w):h + f", False),
    # objects of the library's own public classes OWNED BY THE CALLER: one Treatment() and one Sum()
    # instance (default arguments) live in the caller's namespace and are named by the formulas; the
    # first level of `g` differs between the frames (t / u / s), the first level of `f` and `g` differ
    # within one frame: what a design does with the encoding must stay in the design
    ("y ~ C(g, enc_t) + x", False),
    ("y ~ C(f, enc_s) + C(g, enc_t):x", False),
    ("y ~ 0 + C(h, enc_t) + (C(g, enc_s) | h)", False),
    ("y ~ C(f, enc_t) + C(g, enc_t)", False),
    # names that only the `extra_namespace` of ONE build binds (a callee `fn`, an argument `off`):
    # built through the caller-owned Environment object (`env=`), see BINDINGS
    ("y ~ fn(x) + f", False),
    ("y ~ I(x + off) + (fn(z) | g)", False),
    ("y ~ 0 + h:fn(x + off) + center(z)", False),
    # arguments of stateful transforms that are OBJECTS OF THE CALLER passed by name: a NumPy array of
    # interior knots that is not in increasing order (`ks`), a list of knots (`kl`); what a transform
    # does with them must stay in the design (the caller's array keeps its values and their order)
    ("y ~ bs(z, knots=ks) + h", False),
    # (as common terms / interactions only: PRINTING a design whose group-specific effect is a
    # multi-column numeric call, `(bs(z, df=4) | h)`, raises AssertionError in
    # GroupEffectsMatrix.__str__ on the unchanged library — reported, a printing defect, not an
    # isolation one; such an effect is therefore not part of this pool)
    ("y ~ f + bs(z, knots=kl, degree=2) + bs(z, knots=ks, degree=1):h + (z | g)", False),
    # interactions of three or four categoric factors with only part of their margin in the model: the
    # terms added for full-rankness are themselves interactions of TWO or more categoric factors
    # (hash-seed stage: built in fresh interpreters started with different PYTHONHASHSEED values)
    ("y ~ f + f:g:h", False),
    ("y ~ 0 + g + f:g:cu", False),
    ("y ~ x + h + h:f:g:x", False),
    ("y ~ cu + cu:f:h + (1 | g)", False),
    ("y ~ C(k) + C(k):f:g", False),
    ("y ~ 0 + f:g + f:g:h:cu", False),
    ("y ~ h + f:g:h + g:h:cu", False),
    ("y ~ g + g:h:f:z + (0 + f:h | cu)", False),
    # interactions of categoric factors WITH A STATEFUL TRANSFORM whose margins are missing: the
    # terms added for full-rankness are copies of components that carry a (fitted) transform; what a
    # copy does must not reach the component it was copied from (tenth seeded wave, C07_P)
    ("y ~ center(x) + g:h:center(x)", False),
    ("y ~ 0 + f:g:scale(z) + h", False),
    ("y ~ h + f:h:center(x) + g:f:h:standardize(z)", False),
]
ENC_FORMULAS = [8, 9, 10, 11]
N_PLAIN = 12                # formulas 0..11 need no binding
BOUND_FORMULAS = [12, 13, 14]
ARRAY_FORMULAS = [15, 16]   # name caller-owned arrays / lists as transform arguments
N_BEFORE_ARRAYS = 15        # (the pools written before them keep their formulas: same histories)
HASH_FORMULAS = list(range(17, 25))   # need extra terms made of >= 2 categoric factors
XSTATE_FORMULAS = [25, 26, 27]        # extra terms copied from components with a stateful transform


def _fn_double(v):
    return v * 2


def _fn_negate(v):
    return -v


def _fn_square(v):
    return v * v


# what one build adds to its `extra_namespace` (besides the caller's namespace of the history): the
# same names bound to different objects per build
BINDINGS = [{"fn": _fn_double, "off": 1}, {"fn": _fn_negate, "off": 5}, {"fn": _fn_square, "off": -2},
            {"fn": _fn_double, "off": 5}]
N_BASE = 6                  # frames 0..5 have every column; frame 6 + i has exactly the columns of formula i


def tight_index(formula_idx):
    return N_BASE + formula_idx


POOLS = {
    # name: (formula indices, frames to build from, frames to evaluate, config values,
    #        also use, for (a design of) formula i, the frame that has exactly its columns)
    "small": ([0, 1, 2], [0, 1], [0, 1], ["error", "silent"], False),
    # frames with missing values in used columns; 4: with unused columns, 6 + i: without
    "na": ([0, 3, 4], [4], [1, 4], ["silent"], True),
    "full": (list(range(N_PLAIN)), [0, 1, 2, 4, 5], [0, 1, 2, 3, 4, 5], MODES, True),
    # formulas naming the caller's encoding objects, built on frames whose first levels differ
    "enc": (ENC_FORMULAS, [0, 1, 2], [0, 1], ["silent"], False),
    # builds that pass ONE caller-owned Environment object as `env=` together with an extra_namespace
    # that differs from build to build (a build op then has a 4th element: the index into BINDINGS)
    "env": (BOUND_FORMULAS[:2], [0], [0, 1], ["silent"], False),
    "fullenv": (list(range(N_BEFORE_ARRAYS)), [0, 1, 2, 4], [0, 1, 2, 3], MODES, False),
    # formulas whose transforms are given caller-owned arrays / lists by name
    "arr": (ARRAY_FORMULAS, [0, 2], [0, 1], ["silent"], False),
    "fullarr": (ARRAY_FORMULAS + [4, 2, 0], [0, 1, 2, 4, 5], [0, 1, 2, 3, 4], MODES, True),
    "xstate": (XSTATE_FORMULAS + [0], [0, 1, 2], [0, 1, 2, 3], ["silent", "error"], False),
}
# pools whose builds go through the caller-owned Environment: the bindings they draw from
POOL_BINDINGS = {"env": [0, 1, 2], "fullenv": [0, 1, 2, 3]}


# evaluations of projected designs on frames with missing values: compared with the model?
NA_FRAMES_NOT_PROJECTED = False


def formula_columns(formula, columns):
    import re
    toks = set(re.findall(r"[A-Za-z_][A-Za-z_0-9]*", formula))
    return [c for c in columns if c in toks]


# ------------------------------------------------------------------------------------------------
# pool: frames and the caller's namespace (deterministic in the seed)
# ------------------------------------------------------------------------------------------------
def make_frames(seed):
    from common import rng_for
    rng = rng_for(seed, "c07", "frames")

    def frame(n, f_levels, g_levels, xshift, index):
        def cat(levels):
            xs = [levels[i % len(levels)] for i in range(n)]
            rng.shuffle(xs)
            return xs
        df = pd.DataFrame({
            "y": [rng.randrange(-8, 9) / 2 for _ in range(n)],
            "x": [float(rng.randrange(-6, 7) + xshift) for _ in range(n)],
            "z": [rng.randrange(-8, 9) / 4 for _ in range(n)],
            "k": [1 + i % 3 for i in range(n)],
            "f": cat(f_levels), "g": cat(g_levels), "h": cat(["p", "q"]),
            "w": [2.5] * n if n == 4 else [rng.randrange(-8, 9) / 2 for _ in range(n)],
            # a column no formula uses, with a missing value (rows must not be dropped for it)
            "unused": [float("nan") if i == n - 1 else float(rng.randrange(0, 100))
                       for i in range(n)]}, index=index)
        # distinct x / z values so that bs/poly are well defined
        df["x"] = [float(v) for v in _distinct([int(v) for v in df["x"]], rng)]
        df["cu"] = pd.Categorical(cat(["m1", "m2"]))
        return df

    def punch(df, rows, always, extra):
        """missing values in used columns: in every row of `rows` the columns `always`, and one or
        two of `extra`"""
        out = df.copy()
        for i in rows:
            for c in list(always) + rng.sample(extra, min(len(extra), rng.randrange(0, 3))):
                j = out.columns.get_loc(c)
                if c in ("f", "g", "h"):
                    out[c] = out[c].astype(object)
                    out.iloc[i, j] = None
                else:
                    out.iloc[i, j] = float("nan")
        return out

    a = frame(8, ["a", "b", "c"], ["u", "v", "w", "t"], 0, None)
    b = frame(4, ["a", "b"], ["u", "v"], 10, [10, 11, 12, 13])
    c = frame(8, ["a", "b", "c"], ["u", "v", "w", "s"], -7, list("abcdefgh"))
    # a single new observation (evaluated only): a known level of f, an unseen group
    d = frame(1, ["a"], ["r"], 3, [99])
    # missing values in used columns.  e: 12 rows, 4 of them incomplete for every formula (the response
    # is missing there, and now and then other variables too): 8 rows are kept whatever the formula.
    e = frame(12, ["a", "b", "c"], ["u", "v", "w", "t"], 2, [20 + 3 * i for i in range(12)])
    e = punch(e, rng.sample(range(12), 4), ["y"], ["x", "z", "f", "g", "h", "w"])
    # g: 10 rows, single variables missing here and there: which rows are kept depends on the formula
    g = frame(10, ["a", "b", "c"], ["u", "v", "w", "t"], -3, None)
    rows = rng.sample(range(10), 4)
    for i, col in zip(rows, rng.sample(["x", "z", "f", "h", "w", "y"], 4)):
        g = punch(g, [i], [col], [])
    base = [a, b, c, d, e, g]
    assert len(base) == N_BASE
    # frames that have exactly the columns one formula uses (nothing to leave out), with the missing
    # values of e / g
    tight = []
    for i, (formula, _) in enumerate(FORMULAS):
        src = e if i % 2 == 0 else g
        tight.append(src[formula_columns(formula, src.columns)].copy())
    return base + tight


def _distinct(vals, rng):
    seen, out = set(), []
    for v in vals:
        while v in seen:
            v += 1
        seen.add(v)
        out.append(v)
    return out


def make_namespace():
    """the caller's namespace of one history: plain data, a module, and caller-owned instances of the
    library's public encoding classes (default arguments)"""
    from formulae.categorical import Sum, Treatment
    return {"lv_f": ["c", "a", "b"], "np": np, "shift": 3, "enc_t": Treatment(), "enc_s": Sum(),
            # interior knots inside the range of `z` in every frame with more than one row, NOT sorted
            "ks": np.array([0.25, -0.25, 0.0]), "kl": [0.125, -0.375]}


def _deep(v, depth=0):
    """canonical, comparable rendering of an object bound in the caller's namespace, with the
    attribute state of instances (of library classes or any other) followed recursively"""
    import types
    if isinstance(v, types.ModuleType):
        return ("module", v.__name__)
    if isinstance(v, dict):
        return ("dict", tuple((repr(k), _deep(x, depth + 1)) for k, x in v.items()))
    if isinstance(v, (list, tuple, set, frozenset)):
        items = sorted(v, key=repr) if isinstance(v, (set, frozenset)) else v
        return (type(v).__name__, tuple(_deep(x, depth + 1) for x in items))
    if isinstance(v, type) or isinstance(v, (types.FunctionType, types.BuiltinFunctionType)):
        return ("callable", getattr(v, "__module__", ""), getattr(v, "__qualname__", repr(v)))
    base = _plain(v)
    if base[0] == "obj" and depth < 8:
        state = getattr(v, "__dict__", None)
        slots = [a for a in getattr(type(v), "__slots__", ()) if hasattr(v, a)]
        if state is not None or slots:
            attrs = dict(state or {})
            attrs.update({a: getattr(v, a) for a in slots})
            return ("instance", type(v).__module__ + "." + type(v).__qualname__,
                    tuple((k, _deep(x, depth + 1)) for k, x in sorted(attrs.items())))
    return base


def namespace_state(ns):
    return tuple((k, _deep(v)) for k, v in ns.items())


def environment_state(env):
    """what a caller can see of an Environment object it owns: per namespace (in lookup order) the
    names bound and the identity of the objects bound to them"""
    return tuple(tuple((str(k), id(v)) for k, v in dict(space).items())
                 for space in getattr(env, "_namespaces", ()))


# ------------------------------------------------------------------------------------------------
# canonical outputs
# ------------------------------------------------------------------------------------------------
def _arr(a):
    a = np.asarray(a)
    if a.ndim == 1:
        a = a[:, None]
    return np.array(a, dtype=float, copy=True)


def _slices(obj):
    return [[str(k), int(s.start), int(s.stop)] for k, s in obj.slices.items()]


def canon_build(dm):
    out = {"t": "built", "response": None, "common": None, "group": None}
    if dm.response is not None:
        t = dm.response.term.term
        out["response"] = {"matrix": _arr(dm.response.design_matrix), "labels": designs._labels([t]),
                           "slices": [], "info": [str(dm.response.kind)]}
    if dm.common is not None:
        terms = list(dm.common.terms.values())
        out["common"] = {"matrix": _arr(dm.common.design_matrix), "labels": designs._labels(terms),
                         "slices": _slices(dm.common), "info": [str(t.kind) for t in terms]}
    if dm.group is not None:
        terms = list(dm.group.terms.values())
        out["group"] = {"matrix": _arr(dm.group.design_matrix), "labels": designs._labels(terms),
                        "slices": _slices(dm.group),
                        "info": [str(t.kind) for t in terms] + [",".join(str(g) for g in t.groups)
                                                                for t in terms]}
    return out


def canon_eval(new, warned):
    return {"t": "eval", "matrix": _arr(new.design_matrix), "slices": _slices(new),
            "new_factors": [str(f) for f in getattr(new, "factors_with_new_levels", ())],
            "warn": bool(warned)}


def out_key(o):
    """hashable identity of a canonical output (bit-exact on the matrices)"""
    def part(p):
        if p is None:
            return None
        return (p["matrix"].shape, p["matrix"].tobytes(), json.dumps([p["labels"], p["slices"],
                                                                       p["info"]]))
    if o["t"] == "built":
        return ("built", part(o["response"]), part(o["common"]), part(o["group"]))
    if o["t"] == "eval":
        return ("eval", o["matrix"].shape, o["matrix"].tobytes(),
                json.dumps([o["slices"], o["new_factors"], o["warn"]]))
    return (o["t"], o.get("cls"))


def _mat_json(a):
    rows = []
    for r in a.tolist():
        row = []
        for v in r:
            if v != v:
                row.append(None)
            elif v in (float("inf"), float("-inf")):
                row.append([(1 if v > 0 else -1) * 10 ** 400, 1])     # no float has this value
            else:
                n, d = float(v).as_integer_ratio()
                row.append([n, d])
        rows.append(row)
    return rows


def out_json(o):
    def part(p):
        if p is None:
            return None
        return {"matrix": _mat_json(p["matrix"]), "labels": p["labels"], "slices": p["slices"],
                "info": p["info"]}
    if o["t"] == "built":
        return {"t": "built", "response": part(o["response"]), "common": part(o["common"]),
                "group": part(o["group"])}
    if o["t"] == "eval":
        return {"t": "eval", "matrix": _mat_json(o["matrix"]), "slices": o["slices"],
                "new_factors": o["new_factors"], "warn": o["warn"]}
    return dict(o)


def brief(o):
    """short human-readable rendering for replay files"""
    if o is None:
        return None
    if o["t"] == "built":
        return {"t": "built", **{k: (None if o[k] is None else
                                     {"matrix": o[k]["matrix"].tolist(), "slices": o[k]["slices"]})
                                 for k in ("response", "common", "group")}}
    if o["t"] == "eval":
        return {"t": "eval", "matrix": o["matrix"].tolist(), "slices": o["slices"],
                "new_factors": o["new_factors"], "warn": o["warn"]}
    return dict(o)


# ------------------------------------------------------------------------------------------------
# snapshots of what must not change
# ------------------------------------------------------------------------------------------------
def _arr_id(a):
    a = np.asarray(a)
    return (str(a.dtype), a.shape, a.tobytes())


def _plain(v, depth=0):
    """canonical, comparable rendering of a piece of internal state"""
    if isinstance(v, np.ndarray):
        return ("nd",) + _arr_id(v)
    if isinstance(v, (np.generic,)):
        return ("np", str(v.dtype), v.tobytes())
    if isinstance(v, dict):
        return ("dict", tuple((repr(k), _plain(x, depth + 1)) for k, x in v.items()))
    if isinstance(v, (list, tuple)):
        return (type(v).__name__, tuple(_plain(x, depth + 1) for x in v))
    if isinstance(v, (pd.Series, pd.Index)):
        return ("pd", str(v.dtype), tuple(map(repr, v.tolist())))
    if isinstance(v, (int, float, str, bool, type(None))):
        return (type(v).__name__, repr(v))
    return ("obj", type(v).__name__)


def _lazy_state(node, acc, path="r"):
    """transform instances of a lazy call tree (LazyCall.stateful_transform.__dict__)"""
    st = getattr(node, "stateful_transform", None)
    if hasattr(node, "callee"):
        acc.append((path, getattr(node, "callee", None),
                    None if st is None else (type(st).__name__, _plain(dict(vars(st))))))
    for i, a in enumerate(getattr(node, "args", []) or []):
        _lazy_state(a, acc, f"{path}.{i}")
    for k, a in (getattr(node, "kwargs", {}) or {}).items():
        _lazy_state(a, acc, f"{path}.{k}")


def _component_state(c):
    acc = [("name", str(getattr(c, "name", None))), ("kind", str(getattr(c, "kind", None))),
           ("levels", _plain(getattr(c, "levels", None))),
           ("spans", repr(getattr(c, "spans_intercept", None)))]
    cm = getattr(c, "contrast_matrix", None)
    if cm is not None:
        acc.append(("contrast", _plain(getattr(cm, "matrix", None)),
                    _plain(getattr(cm, "labels", None))))
    val = getattr(c, "value", None)
    if isinstance(val, np.ndarray):
        acc.append(("value", _arr_id(val)))
    call = getattr(c, "call", None)
    if call is not None:
        lz = []
        _lazy_state(call, lz)
        acc.append(("call", tuple(lz)))
    return tuple(acc)


def _term_state(t):
    acc = [("name", str(getattr(t, "name", None))), ("kind", str(getattr(t, "kind", None)))]
    for c in getattr(t, "components", []) or []:
        acc.append(_component_state(c))
    data = getattr(t, "data", None)
    if isinstance(data, np.ndarray):
        acc.append(("data", _arr_id(data)))
    for sub in ("expr", "factor"):
        s = getattr(t, sub, None)
        if s is not None:
            acc.append((sub, _term_state(s)))
    if hasattr(t, "groups"):
        acc.append(("groups", _plain(list(t.groups))))
    return tuple(acc)


def internal_snapshot(dm):
    acc = []
    if dm.response is not None:
        acc.append(("response", _term_state(dm.response.term.term)))
    for part in ("common", "group"):
        obj = getattr(dm, part)
        if obj is None:
            continue
        acc.append((part, tuple((str(k), _term_state(t)) for k, t in obj.terms.items()),
                    tuple(map(tuple, _slices(obj))), bool(obj.evaluated),
                    _plain(getattr(obj, "factors_with_new_levels", None))))
    return tuple(acc)


def training_snapshot(dm):
    acc = []
    for part in ("response", "common", "group"):
        obj = getattr(dm, part)
        if obj is None:
            acc.append(None)
            continue
        acc.append((np.array(obj.design_matrix, copy=True),
                    None if part == "response" else _slices(obj)))
    return acc


def training_unchanged(dm, snap):
    for part, s in zip(("response", "common", "group"), snap):
        obj = getattr(dm, part)
        if (obj is None) != (s is None):
            return False
        if obj is None:
            continue
        cur = np.asarray(obj.design_matrix)
        if cur.dtype != s[0].dtype or not np.array_equal(cur, s[0], equal_nan=True):
            return False
        if part != "response" and _slices(obj) != s[1]:
            return False
    return True


def frame_unchanged(df, copy):
    try:
        pd.testing.assert_frame_equal(df, copy, check_exact=True, check_dtype=True,
                                      check_index_type="equiv", check_column_type="equiv",
                                      check_categorical=True, check_names=True)
    except AssertionError:
        return False
    return list(df.columns) == list(copy.columns) and list(df.index) == list(copy.index) and \
        [str(t) for t in df.dtypes] == [str(t) for t in copy.dtypes]


def pristine_copies(frames):
    copies = [f.copy(deep=True) for f in frames]
    return copies, [frame_fingerprint(f) for f in copies]


def frame_fingerprint(df):
    """cheap exact identity of a frame: column order, dtypes, index, every value"""
    cols = []
    for name in df.columns:
        col = df[name]
        if isinstance(col.dtype, pd.CategoricalDtype):
            cols.append(("cat", tuple(col.cat.categories.tolist()), bool(col.cat.ordered),
                         col.cat.codes.to_numpy().tobytes()))
        elif col.dtype == object or str(col.dtype).startswith(("str", "string")):
            # (a missing value is not equal to itself: name it)
            cols.append(("obj", tuple(("<missing>", type(v).__name__) if pd.isna(v) else v
                                      for v in col.tolist())))
        else:
            cols.append(("num", col.to_numpy().tobytes()))
    return (tuple(df.columns), tuple(str(t) for t in df.dtypes), type(df.index).__name__,
            tuple(df.index.tolist()), tuple(cols))



# ------------------------------------------------------------------------------------------------
# the call sites into the library
# ------------------------------------------------------------------------------------------------
# `design_matrices` (env=0) makes the local AND global names of its caller visible to the formula
# (after the data frame and `extra_namespace`).  A formula evaluated on a frame that lacks one of its
# columns (`C(f, levels=lv_f)` on a frame without `f`) would find a harness variable of that name
# (`f`, `w`, `x`, `k`, ...) instead of failing the way it does for a caller who has no such name.  Every
# call into the library therefore happens from one of the functions below, which live in a scope of
# their own: their locals and globals all start with an underscore, and no column or namespace name
# of the pool does (checked by `_scope_is_clean`).
_LIB_SCOPE = {"__builtins__": __builtins__}
exec('''
def _lib_build(_lib, _formula, _frame, _names):
    return _lib.design_matrices(_formula, _frame, extra_namespace=_names)


def _lib_build_env(_lib, _formula, _frame, _names, _environment):
    return _lib.design_matrices(_formula, _frame, env=_environment, extra_namespace=_names)


def _lib_capture(_environment_class):
    return _environment_class.capture()


def _lib_describe(_lib, _formula):
    return _lib.model_description(_formula)


def _lib_evaluate(_matrix, _frame):
    return _matrix.evaluate_new_data(_frame)


def _lib_set_config(_lib, _key, _value):
    _lib.config[_key] = _value


def _lib_show(_object):
    return str(_object), repr(_object)
''', _LIB_SCOPE)
_lib_build, _lib_describe, _lib_evaluate, _lib_set_config, _lib_show, _lib_build_env, _lib_capture = (
    _LIB_SCOPE[_n] for _n in ("_lib_build", "_lib_describe", "_lib_evaluate", "_lib_set_config",
                              "_lib_show", "_lib_build_env", "_lib_capture"))


def _scope_is_clean(frames, ns):
    """no name a formula could look up (columns of the pool, names of the caller's namespace) is a
    local or global name of the functions that call the library"""
    pool = set(ns) | {str(c) for fr in frames for c in fr.columns} | {n for b in BINDINGS for n in b}
    visible = {n for n in _LIB_SCOPE if n != "__builtins__"}
    for fn in (_lib_build, _lib_describe, _lib_evaluate, _lib_set_config, _lib_show, _lib_build_env,
               _lib_capture):
        visible |= set(fn.__code__.co_varnames)
    return not (pool & visible) and all(n.startswith("_") for n in visible)

# ------------------------------------------------------------------------------------------------
# one process executing operations against the real library
# ------------------------------------------------------------------------------------------------
class Proc:
    """State of one history in this process.  Ops:
    ("b", formula_idx, frame_idx) | ("c", design_idx, frame_idx) | ("g", design_idx, frame_idx)
    | ("s", key, value)"""

    def __init__(self, frames, check=True, pristine=None):
        import formulae
        self.formulae = formulae
        self.frames = frames
        # deep copies (and their fingerprints) taken before this process ran any operation
        if check and pristine is None:
            pristine = pristine_copies(frames)
        self.frame_copies, self.frame_fps = pristine if check else (None, None)
        self.touched = set()
        self.ns = make_namespace()
        self.ns_copy = (dict(self.ns), list(self.ns["lv_f"]))
        # deep attribute state of every object bound in the namespace (before any operation)
        self.ns_state = namespace_state(self.ns)
        self.check = check
        # ONE Environment object owned by the caller (captured in the scope the library is called
        # from), handed as `env=` to every build op that carries a binding
        from formulae.environment import Environment as _Environment
        self.env = _lib_capture(_Environment)
        self.env_state = environment_state(self.env)
        self.env_spaces = list(self.env._namespaces)          # the namespace objects themselves
        self.extras = []           # (extra_namespace dict handed to a build, its items at that time)
        # (dm, formula_idx, frame_idx, training snapshot, internal snapshot, binding or None)
        self.designs = []
        self.results = []          # (object, copy of its matrix, slices)
        self.config = None         # last successfully set value (None: never set in this history)
        self.flags = []            # (op position, name, ok)
        _lib_set_config(formulae, CONFIG_KEY, MODES[0])       # a history starts from the default config
        if not _scope_is_clean(frames, self.ns):
            raise RuntimeError("a name of the pool is visible in the scope that calls the library")

    def flag(self, pos, name, ok):
        self.flags.append((pos, name, bool(ok)))

    def show(self, pos, *objs):
        """printing is an observation: it has to succeed and (checked by `after`) change nothing"""
        ok = True
        for o in objs:
            if o is None:
                continue
            try:
                _lib_show(o)
            except Exception:  # noqa
                ok = False
        self.flag(pos, "printing a design / a result succeeds", ok)

    def step(self, pos, op):
        lib = self.formulae
        kind = op[0]
        if kind == "s":
            try:
                _lib_set_config(lib, op[1], op[2])
                self.config = op[2]
                out = {"t": "config"}
            except Exception as e:  # noqa
                out = {"t": "raised", "cls": type(e).__name__}
            rel = (None, None)
        elif kind == "b":
            formula, df = FORMULAS[op[1]][0], self.frames[op[2]]
            binding = op[3] if len(op) > 3 else None

            def _build():
                if binding is None:
                    return _lib_build(lib, formula, df, self.ns)
                # the caller's own Environment object as `env=`, and an extra_namespace of this build
                extra = dict(self.ns, **BINDINGS[binding])
                if self.check:
                    self.extras.append((extra, list(extra.items()), namespace_state(extra)))
                return _lib_build_env(lib, formula, df, extra, self.env)
            try:
                with warnings.catch_warnings():
                    warnings.simplefilter("ignore")
                    dm = _build()
                out = canon_build(dm)
            except Exception as e:  # noqa
                dm, out = None, {"t": "raised", "cls": type(e).__name__}
            if self.check:
                # determinism: the same call again, and model_description twice
                try:
                    with warnings.catch_warnings():
                        warnings.simplefilter("ignore")
                        dm2 = _build()
                    out2 = canon_build(dm2)
                except Exception as e:  # noqa
                    out2 = {"t": "raised", "cls": type(e).__name__}
                self.flag(pos, "design_matrices twice gives identical output",
                          out_key(out) == out_key(out2))
                try:
                    d1, d2 = _lib_describe(lib, formula), _lib_describe(lib, formula)
                    same = repr(d1) == repr(d2) and str(d1) == str(d2) and \
                        sorted(d1.var_names) == sorted(d2.var_names) and \
                        [t.name for t in d1.terms] == [t.name for t in d2.terms]
                except Exception as e:  # noqa
                    same = out["t"] == "raised"
                self.flag(pos, "model_description twice gives identical output", same)
            if dm is not None:
                self.designs.append((dm, op[1], op[2],
                                     training_snapshot(dm) if self.check else None,
                                     internal_snapshot(dm) if self.check else None, binding))
                if self.check:
                    self.show(pos, dm.response, dm.common, dm.group)
            rel = (None, op[2])
        else:
            if op[1] >= len(self.designs):
                out = {"t": "nodesign"}
                rel = (None, None)
            else:
                dm = self.designs[op[1]][0]
                obj = dm.common if kind == "c" else dm.group
                df = self.frames[op[2]]
                if obj is None:
                    out = {"t": "absent"}
                else:
                    try:
                        with warnings.catch_warnings(record=True) as rec:
                            warnings.simplefilter("always")
                            new = _lib_evaluate(obj, df)
                        warned = any(issubclass(r_.category, UserWarning) for r_ in rec)
                        out = canon_eval(new, warned)
                        if self.check:
                            self.results.append((new, np.array(new.design_matrix, copy=True),
                                                 _slices(new)))
                            self.show(pos, new, obj)
                    except Exception as e:  # noqa
                        out = {"t": "raised", "cls": type(e).__name__}
                rel = (op[1], op[2])
        if self.check:
            self.after(pos, rel)
        return out

    def after(self, pos, rel, everything=False):
        # every design and every earlier result after every operation; in very long histories
        # (concatenations built for replays) all of them periodically and at the end, the touched
        # and the most recent ones after every operation
        nd, nr = len(self.designs), len(self.results)
        if everything or (nd <= 40 and nr <= 60) or pos % 64 == 0:
            ds, rs = self.designs, self.results
        else:
            ds = self.designs[-3:] + ([self.designs[rel[0]]] if rel[0] is not None else [])
            rs = self.results[-5:]
        ok_t = all(training_unchanged(d[0], d[3]) for d in ds)
        self.flag(pos, "training matrices/slices of every design unchanged", ok_t)
        ok_i = all(internal_snapshot(d[0]) == d[4] for d in ds)
        self.flag(pos, "internal state of every design unchanged (transform instances, contrast "
                       "matrices, levels, labels)", ok_i)
        ok_r = all(np.array_equal(np.asarray(o.design_matrix), c, equal_nan=True)
                   and np.asarray(o.design_matrix).dtype == c.dtype and _slices(o) == s
                   for o, c, s in rs)
        self.flag(pos, "earlier results unchanged", ok_r)
        if rel[1] is not None:
            self.touched.add(rel[1])
            self.flag(pos, "caller's DataFrame unchanged (values, dtypes, index, column order)",
                      frame_fingerprint(self.frames[rel[1]]) == self.frame_fps[rel[1]])
        ns_ok = list(self.ns.keys()) == list(self.ns_copy[0].keys()) and all(
            self.ns[k] is self.ns_copy[0][k] for k in self.ns) and self.ns["lv_f"] == self.ns_copy[1]
        # (identity of every bound object and a deep value snapshot of all of them: lists / dicts
        # element-wise, NumPy arrays by dtype / shape / bytes, instances by their attribute state)
        self.flag(pos, "caller's namespace unchanged (names, identity and deep value of every object "
                       "bound: arrays by dtype / shape / bytes)",
                  ns_ok and namespace_state(self.ns) == self.ns_state)
        self.flag(pos, "attribute state of the objects in the caller's namespace unchanged (incl. "
                       "caller-owned Treatment() / Sum() instances named by the formulas)",
                  namespace_state(self.ns) == self.ns_state)
        spaces = getattr(self.env, "_namespaces", None)
        self.flag(pos, "caller's Environment object unchanged (number and identity of its namespaces, "
                       "the names they bind and the objects bound)",
                  isinstance(spaces, list) and len(spaces) == len(self.env_spaces)
                  and all(a is b for a, b in zip(spaces, self.env_spaces))
                  and environment_state(self.env) == self.env_state)
        self.flag(pos, "extra_namespace dicts handed to design_matrices unchanged (names, identity and "
                       "deep value of every object bound: arrays by dtype / shape / bytes)",
                  all(len(d) == len(items) and all(k in d and d[k] is v for k, v in items)
                      and namespace_state(d) == state
                      for d, items, state in self.extras[-6:]))

    def finish(self, pos):
        if self.check:
            if len(self.designs) > 40 or len(self.results) > 60:
                self.after(pos, (None, None), everything=True)
            self.flag(pos, "every DataFrame passed in equals its deep copy at the end of the history "
                           "(pd.testing.assert_frame_equal)",
                      all(frame_unchanged(self.frames[i], self.frame_copies[i])
                          and frame_fingerprint(self.frames[i]) == self.frame_fps[i]
                          for i in sorted(self.touched)))


def fresh_key(proc, op):
    """key of the fresh-state execution of `op` after what `proc` has executed so far"""
    if op[0] == "s":
        return ("s", op[1], op[2])
    if op[0] == "b":
        return ("b", op[1], op[2]) + tuple(op[3:4])
    if op[1] >= len(proc.designs):
        return ("n",)
    d = proc.designs[op[1]]
    return (op[0], d[1], d[2], proc.config, op[2]) + (() if d[5] is None else (d[5],))


def key_ops(key):
    """the relevant history + the re-indexed op, for a fresh process"""
    if key[0] == "s":
        return [("s", key[1], key[2])]
    if key[0] == "b":
        return [("b", key[1], key[2]) + tuple(key[3:4])]
    if key[0] == "n":
        return [("c", 0, 0)]
    ops = []
    if key[3] is not None:
        ops.append(("s", CONFIG_KEY, key[3]))
    ops.append(("b", key[1], key[2]) + tuple(key[5:6]))
    ops.append((key[0], 0, key[4]))
    return ops


def run_fresh(frames, ops):
    """executed inside a fresh process: replay `ops`, return the output of the last one"""
    p = Proc(frames, check=False)
    out = None
    for i, op in enumerate(ops):
        out = p.step(i, op)
    return out


# ------------------------------------------------------------------------------------------------
# fresh processes
# ------------------------------------------------------------------------------------------------
def _child_env(hashseed="0"):
    env = dict(os.environ)
    for k in ("OMP_NUM_THREADS", "OPENBLAS_NUM_THREADS", "MKL_NUM_THREADS"):
        env[k] = "1"
    repo = os.environ.get("VERIF_REPO", "/repo")
    env["PYTHONPATH"] = repo + os.pathsep + HERE + os.pathsep + env.get("PYTHONPATH", "")
    env["PYTHONHASHSEED"] = str(hashseed)
    return env


class Zygote:
    """A pristine interpreter (formulae imported, never called) that forks one child per request."""

    def __init__(self, frames):
        self.p = subprocess.Popen([sys.executable, os.path.abspath(__file__), "--zygote"],
                                  stdin=subprocess.PIPE, stdout=subprocess.PIPE, env=_child_env())
        self._send(frames)

    def _send(self, obj):
        data = pickle.dumps(obj)
        self.p.stdin.write(len(data).to_bytes(8, "little") + data)
        self.p.stdin.flush()

    def _recv(self):
        n = int.from_bytes(self._read(8), "little")
        return pickle.loads(self._read(n))

    def _read(self, n):
        buf = b""
        while len(buf) < n:
            chunk = self.p.stdout.read(n - len(buf))
            if not chunk:
                raise RuntimeError("zygote died")
            buf += chunk
        return buf

    def run(self, ops_list):
        """one fresh child per entry: replay the ops, return the output of the last one"""
        self._send([("fresh", ops) for ops in ops_list])
        return self._recv()

    def run_history(self, ops):
        """a whole checked history in one fresh child -> (outputs, fresh keys, flags)"""
        self._send([("history", ops)])
        return self._recv()[0]

    def close(self):
        try:
            self._send(None)
            self.p.wait(timeout=10)
        except Exception:  # noqa
            self.p.kill()


def _zygote_main():
    import logging
    import formulae  # noqa: F401  (imported, never used by this process)
    logging.getLogger("formulae").setLevel(logging.CRITICAL)
    # the protocol owns a private copy of the pipe; whatever the library prints (it reports some
    # errors with print()) goes to stderr and cannot corrupt the length-prefixed messages
    inp, outp = sys.stdin.buffer, os.fdopen(os.dup(1), "wb")
    sys.stdout.flush()
    os.dup2(2, 1)

    def read(n):
        buf = b""
        while len(buf) < n:
            chunk = inp.read(n - len(buf))
            if not chunk:
                sys.exit(0)
            buf += chunk
        return buf

    def recv():
        n = int.from_bytes(read(8), "little")
        return pickle.loads(read(n))

    frames = recv()
    while True:
        req = recv()
        if req is None:
            return
        results = []
        width = 8                      # children alive at the same time
        for start in range(0, len(req), width):
            live = []
            for what, ops in req[start:start + width]:
                r, w = os.pipe()
                pid = os.fork()
                if pid == 0:
                    try:
                        os.close(r)
                        for rr, _ in live:
                            os.close(rr)
                        try:
                            if what == "fresh":
                                res = run_fresh(frames, ops)
                            else:
                                res = run_history(frames, ops)[:3]
                        except BaseException as e:  # noqa
                            res = {"t": "raised",
                                   "cls": "harness:" + type(e).__name__ + ":" + str(e)[:200]}
                        with os.fdopen(w, "wb") as fh:
                            fh.write(pickle.dumps(res))
                    finally:
                        os._exit(0)
                os.close(w)
                live.append((r, pid))
            for r, pid in live:
                with os.fdopen(r, "rb") as fh:
                    data = fh.read()
                os.waitpid(pid, 0)
                results.append(pickle.loads(data) if data
                               else {"t": "raised", "cls": "harness:nochild"})
        data = pickle.dumps(results)
        outp.write(len(data).to_bytes(8, "little") + data)
        outp.flush()


def exec_fresh(frames, ops, hashseed="0"):
    """a brand-new interpreter (exec), started with PYTHONHASHSEED=`hashseed`, replays `ops`"""
    payload = base64.b64encode(pickle.dumps((frames, ops)))
    p = subprocess.run([sys.executable, os.path.abspath(__file__), "--exec-fresh"], input=payload,
                       stdout=subprocess.PIPE, stderr=subprocess.PIPE, env=_child_env(hashseed))
    if p.returncode != 0:
        return {"t": "raised", "cls": "harness:exec rc=%d %s" % (p.returncode,
                                                                  p.stderr.decode()[-200:])}
    return pickle.loads(base64.b64decode(p.stdout))


def _exec_fresh_main():
    import logging
    frames, ops = pickle.loads(base64.b64decode(sys.stdin.buffer.read()))
    outp = os.fdopen(os.dup(1), "wb")       # (see _zygote_main: library print()s go to stderr)
    sys.stdout.flush()
    os.dup2(2, 1)
    import formulae  # noqa: F401
    logging.getLogger("formulae").setLevel(logging.CRITICAL)
    outp.write(base64.b64encode(pickle.dumps(run_fresh(frames, ops))))
    outp.flush()


# ------------------------------------------------------------------------------------------------
# histories
# ------------------------------------------------------------------------------------------------
def enumerate_histories(pool, max_len):
    fidx, bidx, eidx, cfgs, tight = POOLS[pool]

    def ext(built):
        ops = [("b", f, d) for f in fidx for d in bidx + ([tight_index(f)] if tight else [])]
        if pool in POOL_BINDINGS:
            ops = [o + (k,) for o in ops for k in POOL_BINDINGS[pool]]
        ops += [("s", CONFIG_KEY, c) for c in cfgs]
        ops += [(kind, i, d) for i, f in enumerate(built)
                for d in eidx + ([tight_index(f)] if tight else []) for kind in ("c", "g")]
        return ops

    out = []

    def rec(h, built):
        if h:
            out.append(list(h))
        if len(h) == max_len:
            return
        for op in ext(built):
            # designs are counted optimistically (a failing build shifts nothing: later
            # indices then refer to no design, which is itself a compared outcome)
            rec(h + [op], built + ([op[1]] if op[0] == "b" else []))
    rec([], [])
    return out


def random_history(rng, pool, max_len):
    fidx, bidx, eidx, cfgs, tight = POOLS[pool]
    n = rng.randrange(1, max_len + 1)
    h, k, built = [], 0, []
    if rng.random() < 0.5:
        h.append(("s", CONFIG_KEY, rng.choice(cfgs[1:] or cfgs)))
    for _ in range(n - len(h)):
        u = rng.random()
        if k == 0 or u < 0.3:
            f = rng.choice(fidx)
            # now and then the frame that has exactly the columns of this formula
            d = tight_index(f) if tight and rng.random() < 0.3 else rng.choice(bidx)
            h.append(("b", f, d))
            built.append(f)
            k += 1
        elif u < 0.8:
            # mostly recent designs, sometimes any
            i = rng.randrange(k) if rng.random() < 0.5 else max(0, k - 1 - rng.randrange(min(k, 3)))
            d = tight_index(built[i]) if tight and rng.random() < 0.15 else rng.choice(eidx)
            h.append((rng.choice(["c", "c", "g"]), i, d))
        else:
            v = rng.random()
            if v < 0.06:
                h.append(("s", CONFIG_KEY, "bogus"))
            elif v < 0.1:
                h.append(("s", "NO_SUCH_OPTION", "error"))
            else:
                h.append(("s", CONFIG_KEY, rng.choice(cfgs)))
    return h


def random_env_history(rng, pool, max_len):
    """like `random_history`; builds of the formulas that need a binding always go through the
    caller-owned Environment object, the other formulas do so half of the time; names used by two
    designs of one history are mostly bound to different objects"""
    fidx, bidx, eidx, cfgs, _ = POOLS[pool]
    n = rng.randrange(2, max_len + 1)
    h, k = [], 0
    if rng.random() < 0.3:
        h.append(("s", CONFIG_KEY, rng.choice(cfgs[1:] or cfgs)))
    for _ in range(n - len(h)):
        u = rng.random()
        if k == 0 or u < 0.45:
            f = rng.choice(BOUND_FORMULAS) if rng.random() < 0.7 else rng.choice(fidx)
            d = rng.choice(bidx)
            if f in BOUND_FORMULAS or rng.random() < 0.5:
                h.append(("b", f, d, rng.choice(POOL_BINDINGS[pool])))
            else:
                h.append(("b", f, d))
            k += 1
        elif u < 0.9:
            i = rng.randrange(k) if rng.random() < 0.5 else max(0, k - 1 - rng.randrange(min(k, 3)))
            h.append((rng.choice(["c", "c", "g"]), i, rng.choice(eidx)))
        else:
            h.append(("s", CONFIG_KEY, rng.choice(cfgs)))
    return h


def run_history(frames, ops, pristine=None):
    """-> (outputs, fresh keys, flags, build specs for the model per op)"""
    p = Proc(frames, check=True, pristine=pristine)
    outs, keys, specs = [], [], []
    for pos, op in enumerate(ops):
        keys.append(fresh_key(p, op))
        before = len(p.designs)
        outs.append(p.step(pos, op))
        spec = None
        if op[0] == "b" and len(p.designs) > before:
            spec = build_spec(p.designs[-1][0], op, frames[op[2]])
        specs.append(spec)
    p.finish(len(ops))
    return outs, keys, p.flags, specs


def build_spec(dm, op, df=None):
    from formulae.terms import Intercept
    req = {"formula": FORMULAS[op[1]][0], "frame": op[2],
           "names": designs.names_json({k: v for k, v in make_namespace().items()
                                        if isinstance(v, (list, str, int))}),
           "response": None, "common": [], "group": []}
    if df is not None:
        used = formula_columns(req["formula"], df.columns)
        if bool(df[used].isna().any().any()):
            # the model has no missing-value step: it is given the rows the implementation kept
            kept = designs.dm_frame(dm, df)
            req["frame_data"] = designs.frame_json(kept)
            req["exact"] = len(kept) in (1, 2, 4, 8)
    if dm.response is not None:
        req["response"] = designs._term_spec(dm.response.term.term)
    if dm.common is not None:
        for t in dm.common.terms.values():
            req["common"].append({"name": "Intercept", "comps": []} if isinstance(t, Intercept)
                                 else designs._term_spec(t))
    if dm.group is not None:
        for t in dm.group.terms.values():
            req["group"].append({"name": t.name,
                                 "expr": None if isinstance(t.expr, Intercept)
                                 else designs._term_spec(t.expr),
                                 "factor": designs._term_spec(t.factor)})
    return req


def worker(args):
    """run a share of the histories one after the other in this process"""
    frames, histories = args
    import logging
    logging.getLogger("formulae").setLevel(logging.CRITICAL)
    pristine = pristine_copies(frames)
    return [run_history(frames, h, pristine) for h in histories]


def project_modelled(ops, outs, specs, na_frames=frozenset()):
    """ops on designs of modelled formulas only (re-indexed), with the implementation's outputs;
    `na_frames`: indices of frames with missing values (evaluations on them are not projected)"""
    mops, mouts = [], []
    index = {}            # design index in the history -> index in the projection
    n_designs, n_proj = 0, 0
    for op, out, spec in zip(ops, outs, specs):
        if op[0] == "s":
            mops.append(["s", op[1], op[2]])
            mouts.append(out)
        elif op[0] == "b":
            created = out["t"] == "built"
            if FORMULAS[op[1]][1] and (spec is None or spec.get("exact", True)):
                # a build that raised has no observed coding decisions: the model needs none to
                # raise as well only if it raises before using them; skip such builds
                if created:
                    mops.append(["b", spec])
                    mouts.append(out)
                    index[n_designs] = n_proj
                    n_proj += 1
            if created:
                n_designs += 1
        else:
            if op[1] in index and op[2] not in na_frames:
                mops.append([op[0], index[op[1]], op[2]])
                mouts.append(out)
    return mops, mouts


def symbolic(ops, outs):
    """ops with the evaluations referring to the position of the build that created their design"""
    creators = [i for i, (o, out) in enumerate(zip(ops, outs)) if o[0] == "b" and out["t"] == "built"]
    sym = []
    for i, (o, out) in enumerate(zip(ops, outs)):
        ref = None
        if o[0] in ("c", "g") and o[1] < len(creators):
            ref = creators[o[1]]
        sym.append((i, tuple(o), ref, o[0] == "b" and out["t"] == "built"))
    return sym


def concrete(sym):
    idx, k, out = {}, 0, []
    for pos, o, ref, created in sym:
        if o[0] == "b":
            if created:
                idx[pos] = k
                k += 1
            out.append(o)
        elif o[0] in ("c", "g"):
            if ref is not None and ref in idx:
                out.append((o[0], idx[ref], o[2]))
        else:
            out.append(o)
    return out


def ddmin(items, test, budget=150, seconds=45):
    """delta debugging: remove chunks of operations while the history still fails"""
    import time
    t0 = time.time()
    n = 2
    while len(items) >= 2 and budget > 0 and time.time() - t0 < seconds:
        chunk = max(1, len(items) // n)
        subsets = [items[i:i + chunk] for i in range(0, len(items), chunk)]
        reduced = False
        for i in range(len(subsets)):
            comp = [x for j, sub in enumerate(subsets) if j != i for x in sub]
            budget -= 1
            if comp and test(comp):
                items, n, reduced = comp, max(n - 1, 2), True
                break
            if budget <= 0 or time.time() - t0 >= seconds:
                break
        if not reduced:
            if chunk == 1:
                break
            n = min(len(items), n * 2)
    return items


def hashseed_stage(tier, seed, res, replay, frames):
    """`design_matrices` is deterministic across processes: builds of formulas that need extra terms
    made of two or more categoric factors, each in brand-new interpreters started with different
    PYTHONHASHSEED values (everything else in this check runs under PYTHONHASHSEED=0); the outputs
    (matrices, term names / slices, column labels, levels) must be identical: Spec.C07.holds with the
    output under the first hash seed as the fresh-state output"""
    from common import ask, rng_for
    r = rng_for(seed, "c07", "hashseed")
    if replay is not None:
        if replay.get("pool") != "hashseed":
            return
        jobs = [([tuple(o) for o in replay["ops"]], [str(x) for x in replay["hashseeds"]])]
    else:
        fs = r.sample(HASH_FORMULAS, 4) if tier == "quick" else list(HASH_FORMULAS)
        frs = [r.choice([0, 2])] if tier == "quick" else [0, 2]
        n_seeds = 3 if tier == "quick" else 6
        hs = ["0"] + [str(x) for x in r.sample(range(1, 2 ** 32), n_seeds)]
        jobs = [([("b", f, d)], hs) for f in fs for d in frs]
    runs = [(ops, h) for ops, hs in jobs for h in hs]
    with ThreadPoolExecutor(max_workers=min(16, os.cpu_count() or 2)) as ex:
        outs = list(ex.map(lambda a: exec_fresh(frames, a[0], a[1]), runs))
    res.count("builds in brand-new interpreters under different PYTHONHASHSEED values", len(runs))
    bad = [o for o in outs if o["t"] == "raised" and str(o.get("cls", "")).startswith("harness:")]
    if bad:
        raise RuntimeError(f"hash-seed stage: fresh interpreter failed: {bad[0]}")
    table, index = [], {}

    def intern(o):
        k = out_key(o)
        if k not in index:
            index[k] = len(table)
            table.append(out_json(o))
        return index[k]
    by_job, pos = [], 0
    for ops, hs in jobs:
        by_job.append(outs[pos:pos + len(hs)])
        pos += len(hs)
    hreqs = [{"impl": [intern(o) for o in js[1:]], "fresh": [intern(js[0])] * (len(js) - 1),
              "unchanged": [], "mops": None} for js in by_job]
    ans = ask([{"op": "c07_check", "frames": [], "builds": [], "outs": table, "histories": hreqs}])[0]
    if "results" not in ans or ans.get("undecodable_outs"):
        raise RuntimeError(f"driver (hash-seed stage): {str(ans)[:300]}")
    for (ops, hs), js, a in zip(jobs, by_job, ans["results"]):
        res.evaluations += len(hs)
        if js[0]["t"] == "built":
            res.count("hash-seed stage: designs built")
            res.nontrivial.add(("hashseed",) + tuple(ops))
        py_holds = all(out_key(o) == out_key(js[0]) for o in js[1:])
        if py_holds != a["holds"]:
            raise RuntimeError(f"driver and harness disagree on the hash-seed stage for {ops}")
        if not a["holds"]:
            k = next(i for i, o in enumerate(js) if out_key(o) != out_key(js[0]))
            res.failures.append({
                "case": {"ops": [list(o) for o in ops], "pool": "hashseed",
                         "formulas": {o[1]: FORMULAS[o[1]][0] for o in ops if o[0] == "b"},
                         "hashseeds": [hs[0], hs[k]],
                         "kind": "one build in two brand-new interpreters started with different "
                                 "PYTHONHASHSEED values"},
                "impl": brief(js[k]), "expected": brief(js[0]), "finding": None,
                "why": [f"design_matrices gives different output in fresh interpreters started with "
                        f"PYTHONHASHSEED={hs[0]} and PYTHONHASHSEED={hs[k]}"]})


def explore(tier, seed, res=None, replay=None):
    from common import Result, rng_for
    import multiprocessing as mp
    res = res or Result()
    res.rule = ("histories of build / evaluate-common / evaluate-group / set-config over %d formulas "
                "x %d frames (4 complete ones, 2 with missing values in used columns, and per formula "
                "one that has exactly the formula's columns, with missing values) x 3 config values; "
                "four of the formulas name caller-owned Treatment() / Sum() instances of the namespace; "
                "three name a callee / an argument that only the extra_namespace of one build binds and "
                "are built through ONE caller-owned Environment object (env=) per history, with a "
                "different binding per build; two name a caller-owned NumPy array (values not in "
                "increasing order) / list as interior knots of bs(); eight need extra terms made of two or "
                "more categoric factors and are also built in brand-new interpreters under different "
                "PYTHONHASHSEED values (identical outputs required); "
                "non-trivial = a history with >= 2 operations in which an evaluation returned a "
                "matrix; distinct by operation sequence" % (len(FORMULAS), N_BASE + len(FORMULAS)))
    frames = make_frames(seed)
    # ---- the histories
    batches = []                 # (pool, ops)
    if replay is not None:
        batches = [(replay.get("pool", "full"), [tuple(o) for o in replay["ops"]])]
    else:
        exh_len = 3 if tier == "quick" else 4
        for h in enumerate_histories("small", exh_len):
            batches.append(("small", h))
        res.exhaustive = True
        res.count("exhaustive histories (pool 'small', length <= %d)" % exh_len, len(batches))
        na_hist = enumerate_histories("na", exh_len - 1)
        for h in na_hist:
            batches.append(("na", h))
        res.count("exhaustive histories (pool 'na': frames with missing values in used columns, with "
                  "and without unused columns, length <= %d)" % (exh_len - 1), len(na_hist))
        enc_hist = enumerate_histories("enc", exh_len - 1)
        for h in enc_hist:
            batches.append(("enc", h))
        res.count("exhaustive histories (pool 'enc': formulas naming caller-owned Treatment() / Sum() "
                  "instances, frames whose first levels differ, length <= %d)" % (exh_len - 1),
                  len(enc_hist))
        n_rand, max_len = (300, 12) if tier == "quick" else (5000, 30)
        for i in range(n_rand):
            batches.append(("full", random_history(rng_for(seed, "c07", "hist", i), "full", max_len)))
        res.count("random histories (pool 'full', length <= %d)" % max_len, n_rand)
        env_hist = enumerate_histories("env", exh_len - 1)
        for h in env_hist:
            batches.append(("env", h))
        res.count("exhaustive histories (pool 'env': builds through ONE caller-owned Environment object "
                  "with an extra_namespace per build binding `fn` / `off` to different objects, length "
                  "<= %d)" % (exh_len - 1), len(env_hist))
        n_env, env_len = (60, 8) if tier == "quick" else (800, 16)
        for i in range(n_env):
            batches.append(("fullenv", random_env_history(rng_for(seed, "c07", "envhist", i),
                                                          "fullenv", env_len)))
        res.count("random histories (pool 'fullenv': plain builds and builds through the caller-owned "
                  "Environment object, length <= %d)" % env_len, n_env)
        arr_hist = enumerate_histories("arr", exh_len - 1)
        for h in arr_hist:
            batches.append(("arr", h))
        res.count("exhaustive histories (pool 'arr': transforms given a caller-owned NumPy array (not "
                  "sorted) / list of knots by name, length <= %d)" % (exh_len - 1), len(arr_hist))
        n_arr, arr_len = (40, 10) if tier == "quick" else (600, 20)
        for i in range(n_arr):
            batches.append(("fullarr", random_history(rng_for(seed, "c07", "arrhist", i), "fullarr",
                                                      arr_len)))
        res.count("random histories (pool 'fullarr': the array-argument formulas mixed with other "
                  "stateful ones, frames with missing values included, length <= %d)" % arr_len, n_arr)
        n_xs, xs_len = (40, 8) if tier == "quick" else (600, 16)
        for i in range(n_xs):
            batches.append(("xstate", random_history(rng_for(seed, "c07", "xstatehist", i), "xstate",
                                                     xs_len)))
        res.count("random histories (pool 'xstate': categoric interactions with a stateful transform "
                  "whose margins are missing, so that full-rankness terms are copied from fitted "
                  "components, length <= %d)" % xs_len, n_xs)
    histories = [h for _, h in batches]

    # ---- run them: one process (quick) / a few long-lived worker processes (thorough)
    n_workers = 1 if (tier == "quick" or replay is not None) else min(12, os.cpu_count() or 1)
    if n_workers == 1:
        runs = worker((frames, histories))
    else:
        shares = [histories[i::n_workers] for i in range(n_workers)]
        with mp.get_context("fork").Pool(n_workers) as pool:
            parts = pool.map(worker, [(frames, s) for s in shares])
        runs = [None] * len(histories)
        for w, part in enumerate(parts):
            for j, r in enumerate(part):
                runs[w + j * n_workers] = r
        res.notes.append(f"{n_workers} worker processes, each running its share of the histories "
                         "sequentially")

    # ---- fresh-state outputs: one forked child of a pristine interpreter per distinct key
    keys = sorted({k for r in runs for k in r[1]}, key=repr)
    # the fresh processes get frames this process has never passed to the library
    frames = make_frames(seed)
    zy = Zygote(frames)
    try:
        fresh_list = zy.run([key_ops(k) for k in keys])
        fresh = dict(zip(keys, fresh_list))
        return _judge(tier, seed, res, replay, frames, batches, runs, fresh, keys, zy, n_workers)
    finally:
        zy.close()


def _judge(tier, seed, res, replay, frames, batches, runs, fresh, keys, zy, n_workers):
    from common import ask, rng_for
    histories = [h for _, h in batches]
    res.count("distinct fresh-process executions (fork of a pristine interpreter)", len(keys))
    harness_bad = [k for k, v in fresh.items() if v["t"] == "raised" and
                   str(v.get("cls", "")).startswith("harness:")]
    if harness_bad:
        raise RuntimeError(f"fresh process failed for {harness_bad[:3]}: "
                           f"{fresh[harness_bad[0]]}")
    # brand-new interpreters for a sample of the keys (quick) / for every key (thorough)
    if replay is not None:
        sample = keys[:4]
    elif tier == "quick":
        r = rng_for(seed, "c07", "exec-sample")
        sample = r.sample(keys, min(8, len(keys)))
    else:
        sample = list(keys)
    with ThreadPoolExecutor(max_workers=min(16, os.cpu_count() or 2)) as ex:
        exec_outs = list(ex.map(lambda k: exec_fresh(frames, key_ops(k)), sample))
    res.count("fresh executions repeated in a brand-new interpreter", len(sample))
    for k, eo in zip(sample, exec_outs):
        if out_key(eo) != out_key(fresh[k]):
            res.failures.append({
                "case": {"ops": key_ops(k), "pool": "full", "kind": "fresh fork vs fresh exec"},
                "impl": brief(fresh[k]), "expected": brief(eo), "finding": None,
                "why": ["the same operations give different output in two fresh processes "
                        "(forked pristine interpreter vs brand-new interpreter)"]})

    # ---- determinism across interpreters started with different hash seeds
    hashseed_stage(tier, seed, res, replay, frames)

    # ---- the driver: Spec.C07.holds on (impl, fresh) pairs, and the model on the projection
    out_table, out_index = [], {}

    def intern(o):
        k = out_key(o)
        if k not in out_index:
            out_index[k] = len(out_table)
            out_table.append(out_json(o))
        return out_index[k]

    build_table, build_index = [], {}

    frames_json = [designs.frame_json(f) for f in frames]
    kept_index = {}
    na_frames = frozenset(i for i, f in enumerate(frames) if NA_FRAMES_NOT_PROJECTED and bool(
        f[[c for c in f.columns if c != "unused"]].isna().any().any()))

    def intern_build(spec):
        spec = dict(spec)
        kept = spec.pop("frame_data", None)
        spec.pop("exact", None)
        if kept is not None:
            # the rows the implementation kept, as one more frame of the table
            kk = json.dumps(kept, sort_keys=True)
            if kk not in kept_index:
                kept_index[kk] = len(frames_json)
                frames_json.append(kept)
            spec["frame"] = kept_index[kk]
        k = json.dumps(spec, sort_keys=True)
        if k not in build_index:
            build_index[k] = len(build_table)
            build_table.append(spec)
        return build_index[k]

    hreqs = []
    for ops, (outs, hkeys, flags, specs) in zip(histories, runs):
        res.evaluations += len(ops)
        for op in ops:
            res.count("op:" + {"b": "build", "c": "evaluate-common", "g": "evaluate-group",
                               "s": "set-config"}[op[0]])
        for o in outs:
            res.count("out:" + o["t"] + (":" + o["cls"] if o["t"] == "raised" else ""))
            if o["t"] == "eval":
                if o["warn"]:
                    res.count("out:eval with a warning")
                if o["new_factors"]:
                    res.count("out:eval with new groups")
        for op, sp in zip(ops, specs):
            if sp is not None and "frame_data" in sp:
                res.count("builds that dropped incomplete rows" + (
                    " on a frame with exactly the formula's columns" if op[2] >= N_BASE else ""))
                if FORMULAS[op[1]][1] and sp.get("exact"):
                    res.count("builds that dropped incomplete rows, compared with the model")
        for op, o in zip(ops, outs):
            if op[0] in ("c", "g") and op[2] >= 4 and o["t"] == "eval":
                res.count("evaluations on a frame with missing values")
        res.count("history length %02d" % len(ops))
        if len(ops) >= 2 and any(o["t"] == "eval" for o in outs):
            res.nontrivial.add(tuple(ops))
        req = {"impl": [intern(o) for o in outs], "fresh": [intern(fresh[k]) for k in hkeys],
               "unchanged": [ok for _, _, ok in flags], "mops": None}
        mops, mouts = project_modelled(ops, outs, specs, na_frames)
        if any(m[0] == "b" for m in mops):
            req["mops"] = [["b", intern_build(m[1])] if m[0] == "b" else m for m in mops]
            req["mimpl"] = [intern(o) for o in mouts]
        hreqs.append(req)
    answers = []
    chunk = 400
    for i in range(0, len(hreqs), chunk):
        part = hreqs[i:i + chunk]
        # re-intern per chunk to keep requests small
        used_o = sorted({x for r in part for x in r["impl"] + r["fresh"] + r.get("mimpl", [])})
        omap = {x: j for j, x in enumerate(used_o)}
        used_b = sorted({m[1] for r in part for m in (r["mops"] or []) if m[0] == "b"})
        bmap = {x: j for j, x in enumerate(used_b)}
        hs = []
        for r in part:
            h = {"impl": [omap[x] for x in r["impl"]], "fresh": [omap[x] for x in r["fresh"]],
                 "unchanged": r["unchanged"], "mops": None}
            if r["mops"] is not None:
                h["mops"] = [["b", bmap[m[1]]] if m[0] == "b" else m for m in r["mops"]]
                h["mimpl"] = [omap[x] for x in r["mimpl"]]
            hs.append(h)
        ans = ask([{"op": "c07_check", "frames": frames_json,
                    "builds": [build_table[x] for x in used_b],
                    "outs": [out_table[x] for x in used_o], "histories": hs}])[0]
        if "results" not in ans:
            raise RuntimeError(f"driver: {ans}")
        if ans.get("undecodable_outs"):
            raise RuntimeError(f"driver could not decode canonical outputs "
                               f"{ans['undecodable_outs'][:5]}")
        answers.extend(ans["results"])

    # ---- verdicts
    def fails_in_fresh_process(cand):
        """does the history `cand` violate the specification when a fresh process runs it?"""
        r = zy.run_history([tuple(o) for o in cand])
        if isinstance(r, dict):
            raise RuntimeError(f"checked history in a fresh process failed: {r}")
        outs, hkeys, flags = r
        missing = sorted({k for k in hkeys if k not in fresh}, key=repr)
        if missing:
            for k, v in zip(missing, zy.run([key_ops(k) for k in missing])):
                fresh[k] = v
        bad = [i for i, (o, k) in enumerate(zip(outs, hkeys)) if out_key(o) != out_key(fresh[k])]
        return (bool(bad) or any(not ok for _, _, ok in flags)), outs, hkeys, flags, bad

    def describe(ops, outs, hkeys, flags, bad):
        why = [f"op {k} {list(ops[k])}: output differs from the fresh-state output" for k in bad]
        why += [f"after op {pos}: NOT {name}" for pos, name, ok in flags if not ok]
        return why

    def failure(pool, ops, outs, hkeys, flags, bad, extra):
        k0 = bad[0] if bad else None
        return {"case": {"ops": [list(o) for o in ops], "pool": pool,
                         "formulas": {i: FORMULAS[i][0] for i in sorted({o[1] for o in ops
                                                                         if o[0] == "b"})},
                         "bindings": {int(o[3]): {k: getattr(v, "__name__", v)
                                                  for k, v in BINDINGS[o[3]].items()}
                                      for o in ops if o[0] == "b" and len(o) > 3},
                         "frames": {i: {"rows": int(len(frames[i])), "columns": list(frames[i].columns),
                                        "missing_values_in": [c for c in frames[i].columns
                                                              if bool(frames[i][c].isna().any())]}
                                    for i in sorted({o[2] for o in ops if o[0] in ("b", "c", "g")
                                                     and isinstance(o[2], int) and o[2] < len(frames)})}},
                "impl": None if k0 is None else brief(outs[k0]),
                "expected": None if k0 is None else brief(fresh[hkeys[k0]]),
                "why": (describe(ops, outs, hkeys, flags, bad) + extra)[:8], "finding": None}

    failing_idx = []
    for j, ((pool, ops), (outs, hkeys, flags, specs), ans) in enumerate(zip(batches, runs, answers)):
        py_holds = all(out_key(o) == out_key(fresh[k]) for o, k in zip(outs, hkeys)) and \
            all(ok for _, _, ok in flags)
        if py_holds != ans["holds"]:
            raise RuntimeError(f"driver and harness disagree on Spec.C07.holds for {ops}: "
                               f"{ans} vs {py_holds}")
        if not ans["holds"]:
            failing_idx.append(j)
        if "model" in ans:
            for k, v in enumerate(ans["model"]):
                if v.startswith("skip"):
                    res.count("model_" + v.split(":")[0] + ":" + v.split(":", 1)[1][:40])
                    continue
                res.traces += 1
                if v == "diff":
                    mo = next((d["out"] for d in ans.get("model_out", []) if d["k"] == k), None)
                    mops, mouts = project_modelled(ops, outs, specs, na_frames)
                    res.mismatches.append({"case": {"ops": [list(o) for o in ops], "pool": pool,
                                                    "projected_op": k},
                                           "impl": brief(mouts[k]) if k < len(mouts) else None,
                                           "model": mo})
            if ans.get("wf") is False:
                res.mismatches.append({"case": {"ops": [list(o) for o in ops]},
                                       "impl": None, "model": "world not well-formed"})
        if len(res.samples) < 4 and len(ops) >= 3 and any(o["t"] == "eval" for o in outs):
            res.samples.append({"ops": [list(o) for o in ops],
                                "outputs": [o["t"] + (":" + o["cls"] if o["t"] == "raised" else "")
                                            for o in outs]})

    if failing_idx:
        res.count("histories violating the specification in the long-running process",
                  len(failing_idx))
        if replay is not None:
            j = failing_idx[0]
            (pool, ops), (outs, hkeys, flags, _) = batches[j], runs[j]
            bad = [i for i, (o, k) in enumerate(zip(outs, hkeys))
                   if out_key(o) != out_key(fresh[k])]
            res.failures.append(failure(pool, ops, outs, hkeys, flags, bad, []))
            return res
        # A history run late in a long-lived process may fail only because of what earlier
        # histories left behind.  A replay must fail from a fresh process: look for failing
        # histories that do so on their own (shortest first), else take everything this process
        # had executed up to the first failing history; then shrink, always re-running the
        # candidate in a fresh process.
        verified = []
        by_len = sorted(failing_idx, key=lambda j: (len(batches[j][1]), j))
        cands = [j for j in by_len if batches[j][0] == "small"][:8] + \
                [j for j in by_len if batches[j][0] != "small"][:12]
        for j in cands:
            pool, ops = batches[j]
            f, outs, hkeys, flags, bad = fails_in_fresh_process(ops)
            if f:
                verified.append((pool, list(ops), outs))
                if len(verified) >= 3:
                    break
        origin = "fails on its own in a fresh process"
        if not verified:
            j = failing_idx[0]
            mine = [i for i in range(j + 1) if i % n_workers == j % n_workers]
            long_ops, base = [], 0
            for i in mine:
                long_ops.append(("s", CONFIG_KEY, MODES[0]))      # what the harness does between histories
                for o, out in zip(batches[i][1], runs[i][0]):
                    long_ops.append((o[0], o[1] + base, o[2]) if o[0] in ("c", "g") else tuple(o))
                base += sum(1 for o, out in zip(batches[i][1], runs[i][0])
                            if o[0] == "b" and out["t"] == "built")
            f, outs, hkeys, flags, bad = fails_in_fresh_process(long_ops)
            if f:
                verified.append(("full", long_ops, outs))
                origin = (f"fails in a fresh process as the concatenation of the {len(mine)} "
                          "histories the process had run")
        for pool, ops, outs in verified:
            sym = symbolic(ops, outs)
            try:
                sym = ddmin(sym, lambda c: fails_in_fresh_process(concrete(c))[0])
            except Exception as e:  # noqa
                res.notes.append(f"shrinking stopped: {e!r}")
            small = concrete(sym)
            f, outs2, hkeys2, flags2, bad2 = fails_in_fresh_process(small)
            if not f:
                small = list(ops)
                f, outs2, hkeys2, flags2, bad2 = fails_in_fresh_process(small)
            res.failures.append(failure(pool, small, outs2, hkeys2, flags2, bad2,
                                        [f"({origin}; shrunk from {len(ops)} operations; "
                                         f"{len(failing_idx)} histories failed in this run)"]))
        if not verified:
            res.notes.append("no failing history could be reproduced in a fresh process; reporting "
                             "them as observed in the long-running process")
            for j in failing_idx[:20]:
                (pool, ops), (outs, hkeys, flags, _) = batches[j], runs[j]
                bad = [i for i, (o, k) in enumerate(zip(outs, hkeys))
                       if out_key(o) != out_key(fresh[k])]
                res.failures.append(failure(pool, ops, outs, hkeys, flags, bad,
                                            ["(observed after earlier histories in the same "
                                             "process; not reproduced in a fresh process)"]))
    return res


if __name__ == "__main__":
    if len(sys.argv) > 1 and sys.argv[1] == "--zygote":
        _zygote_main()
    elif len(sys.argv) > 1 and sys.argv[1] == "--exec-fresh":
        _exec_fresh_main()
