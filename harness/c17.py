"""C17 — matrix containers are internally consistent, for every design and every matrix derived
from it by one or more evaluate_new_data calls (with and without unseen groups)."""
import re
import warnings

import numpy as np
import pandas as pd

import designs
from common import Result, ask, rng_for, known_findings

ASSUMPTIONS = [
    "the specification (Spec.C17.holds) is evaluated by the Lean driver on the slices, shapes and "
    "labels observed from the real objects; equality of the views (as_dataframe, __array__, tuple "
    "unpacking, __getitem__) and the printed shape are checked on the Python side",
    "the Lean model of the containers is compared on designs over the exactly modelled atoms",
    "a second family of designs (seed paths 'fl<i>') uses categorical predictors and grouping factors "
    "whose levels are floats that agree in their first 6 significant digits (b * (1 + j * 2^-k), "
    "24 <= k <= 44): a float column through C()/T()/S() and as grouping factor, a pandas Categorical "
    "with float categories also bare; new frames may carry an unseen float level.  Levels of the "
    "evaluation model are strings or integers (Model/Frame.lean: Level), so these designs are judged "
    "by Spec.C17.holds (unique labels, slices, rows) and the Python-side view checks alone, as is "
    "done for scale / bs / poly atoms; uniqueness of `groups` is covered through the group labels "
    "`effect|factor[group]`, which embed them",
    "a third family (seed paths 'na<i>', and 30% of the 'of<i>' family) has missing values (float NaN, "
    "str None, Categorical NaN) in columns the formula uses, in up to half of the rows, under default, "
    "permuted and -- half of the time -- non-unique row labels (integers or text); 'one row per "
    "retained observation' is judged against the number of complete rows counted by the harness on "
    "the caller's frame (columns = model_description(formula).var_names), for response, common, group "
    "and every derived object; for ALL families the expected row count is now this count, not the "
    "length of the design's own data",
    "a fourth family (seed paths 'of<i>') adds an offset term (column, call, or a constant incl. 0 and "
    "a negative one) in first or last position of a generated formula: slices / views / printing of the "
    "training and derived objects are judged as for every other design (the evaluation model may "
    "decline these designs: counted as model_skip)",
    "`__getitem__` with a name that is not a term name: besides one fixed unknown name, every training "
    "matrix and / or matrices derived from it (a drawn non-empty subset of the chain, in a drawn order) "
    "is indexed with about 3 near-miss names per term, generated from the object's real term names "
    "(a blank added anywhere / next to a separator / around ':' and '|', one or all blanks removed, "
    "tab / newline / no-break space / double blank, different case of the whole name or one character, "
    "leading / trailing characters, a character lost, the lme4 spelling in parentheses, quotes, "
    "reversed components, '*' '&' '||' '/' for ':' '|', the name inside a sum / call / subscript; 15% "
    "get two such edits; names equal to a real term name of the object are left out; random stream "
    "(seed, 'c17', path, 'near-miss', kind)): each must be refused with ValueError (Spec.C17.getItem: "
    "no slice of that name), judged on the Python side like the fixed unknown name.  After the "
    "look-ups every object of the chain (all made before them) and one object derived after them are "
    "observed again and judged by Spec.C17.holds (views tagged 'after the near-miss look-ups').  "
    "Only strings are used as names",
]
ASSUMPTIONS += [
    "every slice must be as wide as its term's own block (Spec.C17.widthsOk, part of Spec.C17.holds): the "
    "widths are asked of the terms themselves (training object: term.data; derived object: "
    "term.eval_new_data(frame) under the policy in force), not read from the slices -- for every group "
    "object, every training object, and the common objects derived in the chain family / after a second "
    "design; obj[name] is also compared with that block on the Python side",
    "a fifth family (seed paths 'ch<i>'): designs with 2-3 group-specific terms over distinct grouping "
    "columns (g, h, f, k, kz; 60% with the same effect in every term, 20% with an interaction factor as "
    "well) and chains of 2-4 evaluate_new_data calls in which every step's frame has unseen levels in "
    "exactly the grouping columns a drawn plan names for that step (a then b, b then a, a-b-a, a-none-b, "
    "none-a-b, a-b-none, {a,b}-a, ...), so that a step may keep its parent's total width while the "
    "terms' widths change; every object of the chain is judged after every step",
    "other-design stage (random stream (seed, 'c17', path, 'other-design'); 2 of 7 cases): AFTER the "
    "design and its chain have been judged, a SECOND design with the same formula text is built on "
    "another generated frame (other length; levels of every categorical column the same / one more / one "
    "fewer / all relabelled); the FIRST design's training objects (Spec.C17.holds incl. widths and labels, "
    "views, printing, look-ups, response, tuple unpacking) and one object derived from it afterwards are "
    "judged again: designs are independent objects",
]
ASSUMPTIONS += [
    "the views are compared EXACTLY: np.asarray(obj), np.array(obj), as_dataframe().to_numpy() (native dtype), "
    "obj[term] for every term, np.asarray(obj)[:, slices[term]] against obj[term], on the training objects, on "
    "every object of every chain of evaluate_new_data calls and on the response (np.asarray / np.array / "
    "as_dataframe) must hold exactly the entries of design_matrix -- arrays of one integer / boolean / floating "
    "dtype are compared by numpy without conversion, arrays of different dtypes entry by entry as Python ints "
    "/ Fractions (NaN = NaN); no float == float after a cast, so an int64 matrix holding 2**53 + 1 and its "
    "float64 copy differ.  A view of another dtype with the same numbers is not a difference",
    "a sixth family (seed paths 'bi<i>', corpus 'bic<i>'; 70 / thorough 2500 designs): frames with int64 / "
    "uint64 columns (`stamp`, `ident`: signed ids / nanosecond time stamps, `cnt`: counts, `ustamp`) most of "
    "whose values lie beyond +-2**53 and are odd (no float64 holds them) and a small int32 id `sid`; formulas "
    "with such a column as response or as numeric predictor (bare, I(), {..}, offset(), times another integer "
    "column or a factor), alone, with / without intercept, with full-rank dummies, with group-specific terms "
    "(stamp | g), (0 + stamp | h), (sid + stamp | g) ..., and 30% with an ordinary float term (then the matrix "
    "is float64); numpy keeps the intercept, full-rank dummies, integer columns, their products and the "
    "Khatri-Rao blocks as integer matrices (counted: 'objects with an integer design_matrix holding entries "
    "beyond 2**53'); new frames get freshly drawn integers.  The evaluation model is not compared on this "
    "family (numpy's wrapping int64 products / float sums are not exact arithmetic): Spec.C17.holds and the "
    "exact view comparison judge it",
]
TRUSTED = ["numpy column_stack / slicing, pandas DataFrame construction (modelled by hstack/slices)"]

CORPUS = [
    ("y ~ I((x + z) * 2) + I(x + z * 2)", "D16"),
    ("yc[yes] ~ x + f", None),
    ("y ~ 0 + h*z*x", None),
    ("y ~ (f | g) + (x | h)", None),
    ("p(s, n) ~ f:x + (0 + f | g:h)", None),
    ("y ~ bs(x, df=4) + poly(z, 2):f", None),
    # group-specific effects with several numeric columns / a numeric interaction (D34: printing)
    ("y ~ (bs(z, df=4) | h)", None),
    ("y ~ x + (0 + poly(z, 2) | g)", None),
    ("y ~ (z:x | h) + (1 | g)", None),
    ("y ~ (poly(x, 2, raw=True):z | h) + f", None),
]

# ------------------------------------------------------------------------------------------------
# exact comparison of two views: the entries as Python numbers (ints stay ints, floats become
# Fractions, NaN = None; designs.mat), never float == float after a cast -- an int64 matrix holding
# 2**53 + 1 and a float64 copy of it are NOT equal.  Arrays of one and the same integer / boolean /
# floating dtype are compared by numpy without any conversion (that comparison is exact)
# ------------------------------------------------------------------------------------------------
def _two_d(a):
    a = np.asarray(a)
    return a[:, None] if a.ndim == 1 else a


def exact_equal(a, b):
    a, b = _two_d(a), _two_d(b)
    if a.shape != b.shape:
        return False
    if a.dtype == b.dtype and a.dtype.kind in "iub":
        return bool(np.array_equal(a, b))
    if a.dtype == b.dtype and a.dtype.kind == "f":
        return bool(np.array_equal(a, b, equal_nan=True))
    return designs.mat(a) == designs.mat(b)


def first_difference(a, b):
    """' (shape ...)' or ', e.g. entry [i, j]: <view> instead of <design_matrix>' for a complaint"""
    a, b = _two_d(a), _two_d(b)
    if a.shape != b.shape:
        return f" (shape {a.shape} instead of {b.shape})"
    ea, eb = designs.mat(a), designs.mat(b)
    cells = [(i, j) for i in range(len(ea)) for j in range(len(ea[i])) if ea[i][j] != eb[i][j]]
    if not cells:
        return ""

    def show(v):
        return "nan" if v is None else str(v[0]) if v[1] == 1 else f"{v[0]}/{v[1]}"
    i, j = cells[0]
    return (f" in {len(cells)} entries (dtypes {a.dtype} / {b.dtype}), e.g. [{i}, {j}]: "
            f"{show(ea[i][j])} instead of {show(eb[i][j])}")


# ------------------------------------------------------------------------------------------------
# designs whose matrices have an INTEGER dtype with entries beyond +-2**53 (ids, nanosecond time
# stamps, large counts stored as int64 / uint64): the intercept, full-rank dummies, integer columns,
# their products and the group-specific blocks built from them stay integer matrices in numpy, and
# every view must hold exactly those integers (seed paths 'bi<i>', corpus 'bic<i>')
# ------------------------------------------------------------------------------------------------
def is_int_path(path):
    return isinstance(path, str) and path.startswith("bi")


def big_ints(r, n, signed):
    """integers most of which no float64 can hold (odd and beyond 2**53): just beyond 2**53,
    nanosecond time stamps, ids up to 2**62, and a few small ones"""
    out = []
    for _ in range(n):
        k = r.random()
        if k < 0.35:
            v = 2 ** 53 + 2 * r.randrange(0, 2 ** 20) + 1
        elif k < 0.6:
            v = (1_600_000_000_000_000_000 + r.randrange(0, 2 * 10 ** 17)) | 1
        elif k < 0.8:
            v = r.randrange(2 ** 53, 2 ** 62) | 1
        else:
            v = r.randrange(0, 1000)
        out.append(-v if signed and r.random() < 0.2 else v)
    for i in r.sample(range(n), min(n, 2)):               # at least two beyond 2**53
        out[i] = 2 ** 53 + 2 * r.randrange(1, 2 ** 30) + 1
    return out


def add_integer_columns(r, df):
    """`stamp`, `ident` (int64, signed), `cnt` (int64, non-negative), `ustamp` (uint64), `sid` (small
    ids, int32)"""
    out = df.copy()
    n = len(out)
    out["stamp"] = np.array(big_ints(r, n, True), dtype=np.int64)
    out["ident"] = np.array(big_ints(r, n, True), dtype=np.int64)
    out["cnt"] = np.array(big_ints(r, n, False), dtype=np.int64)
    out["ustamp"] = np.array(big_ints(r, n, False), dtype=np.uint64)
    out["sid"] = np.array([r.randrange(0, 40) for _ in range(n)], dtype=np.int32)
    return out


INT_TERMS = ["stamp", "stamp", "stamp", "sid", "n", "I(stamp)", "{stamp + 1}", "stamp:sid", "offset(stamp)",
             "ustamp", "stamp:n", "I(sid * 2)", "f", "h", "stamp:f", "f:stamp", "h:sid", "g:stamp", "cu",
             "C(k)", "f:h", "ident", "ident:h"]
INT_GROUPS = ["(1 | g)", "(stamp | g)", "(0 + stamp | h)", "(sid + stamp | g)", "(0 + f | g)", "(stamp | g:h)",
              "(0 + stamp:f | h)", "(stamp | g) + (0 + sid | h)", "(1 | h) + (0 + stamp | g)"]
INT_CORPUS = ["cnt ~ stamp", "cnt ~ 0 + f + stamp", "y ~ stamp + (stamp | g)", "ident ~ sid + (1 | h)",
              "cnt ~ stamp:f + x", "cnt ~ 1"]


def gen_int_formula(r):
    """an integer response (or an ordinary one) on integer predictors, full-rank dummies and their
    products, with / without an intercept, a group-specific part, an ordinary float term"""
    resp = r.choice(["cnt", "cnt", "cnt", "ident", "ident", "y", "n", "yc", "p(s, n)"])
    terms = []
    for t in r.sample(INT_TERMS, r.choice([0, 1, 1, 2, 2, 3])):
        if t not in terms and not (resp == "ident" and "ident" in t):
            terms.append(t)
    if r.random() < 0.3:
        t = designs.gen_term(r, extra=True)
        if "levels=" not in t and "C(co)" not in t and t not in terms:      # (D13 class: C06's)
            terms.append(t)
    if r.random() < 0.45:
        terms.append(r.choice(INT_GROUPS))
    r.shuffle(terms)
    icpt = r.choice(["", "", "0 + ", "1 + "])
    if not terms:
        return f"{resp} ~ " + r.choice(["1", "0 + stamp", "stamp"])
    return f"{resp} ~ {icpt}" + " + ".join(terms)


def refresh_integers(r, nd):
    """new frames carry other integers than the training rows they were drawn from"""
    out = nd.copy()
    for col, signed, dt in (("stamp", True, np.int64), ("ident", True, np.int64), ("ustamp", False, np.uint64)):
        if r.random() < 0.7:
            out[col] = np.array(big_ints(r, len(out), signed), dtype=dt)
    return out


def own_blocks(obj, nd=None):
    """every term's own block on the data of this object, asked of the terms themselves (training
    object: term.data; object derived with the frame `nd`: term.eval_new_data(nd), under the policy
    in force) -- not read from the object's slices.  None when a term cannot be asked."""
    out = []
    try:
        for t in obj.terms.values():
            with warnings.catch_warnings():
                warnings.simplefilter("ignore")
                a = np.asarray(t.data if nd is None else t.eval_new_data(nd))
            out.append(a.reshape(len(a), -1) if a.ndim != 2 else a)
    except Exception:  # noqa
        return None
    return out


_UNSET = object()


def view(obj, n_expected, widened=False, nd=None, blocks=_UNSET):
    dmx = np.asarray(obj.design_matrix)
    if dmx.ndim == 1:
        dmx = dmx[:, None]
    terms = list(obj.terms.values())
    v = {"nrows": int(dmx.shape[0]), "ncols": int(dmx.shape[1]),
         "row_lens": [int(dmx.shape[1])] * int(dmx.shape[0]),
         "slices": [[k, int(s.start), int(s.stop)] for k, s in obj.slices.items()],
         "terms": [t.name for t in terms], "labels": designs._labels(terms),
         "check_labels": not widened, "expected_rows": int(n_expected)}
    if blocks is _UNSET:
        blocks = own_blocks(obj, nd)
    if blocks is not None:
        # Spec.C17.widthsOk: every slice is as wide as its term's own block on this object's data
        v["widths"] = [int(b.shape[1]) for b in blocks]
    return v


def _mutate_name(r, name):
    """one spelling that a reader would take for `name` but that is a different string"""
    k = r.randrange(16)
    blanks = [i for i, c in enumerate(name) if c == " "]
    seps = [i for i, c in enumerate(name) if c in ":|,()[]*+="]
    if k == 0:                                  # a blank anywhere (incl. before / after)
        i = r.randrange(len(name) + 1)
        return name[:i] + " " + name[i:]
    if k == 1:                                  # a blank next to a separator (":", "|", ",", "(", ...)
        if seps:
            i = r.choice(seps) + r.randrange(2)
            return name[:i] + " " + name[i:]
        return name + " "
    if k == 2:                                  # blanks on both sides of every ":" / "|"
        return re.sub(r"\s*([:|])\s*", r" \1 ", name)
    if k == 3:                                  # one blank missing
        if blanks:
            i = r.choice(blanks)
            return name[:i] + name[i + 1:]
        return " " + name
    if k == 4:                                  # all blanks missing
        return name.replace(" ", "") if blanks else name + "  "
    if k == 5:                                  # another kind / amount of white space
        if blanks:
            i = r.choice(blanks)
            return name[:i] + r.choice(["  ", "\t", "\n", "\u00a0"]) + name[i + 1:]
        return name + r.choice(["\t", "\n", "\u00a0"])
    if k == 6:                                  # different case
        return r.choice([name.upper(), name.lower(), name.swapcase(), name.capitalize(), name.title()])
    if k == 7:                                  # case of one character
        i = r.randrange(len(name))
        return name[:i] + name[i].swapcase() + name[i + 1:]
    if k == 8:                                  # trailing / leading characters
        extra = r.choice(["_", "'", ".", "0", "1", "x", ":", "|", "[", "]", "()", "[0]", ",", "~", "+"])
        return name + extra if r.random() < 0.6 else extra + name
    if k == 9:                                  # a character lost at either end / inside
        if len(name) < 2:
            return name + name
        i = r.choice([0, len(name) - 1, r.randrange(len(name))])
        return name[:i] + name[i + 1:]
    if k == 10:                                 # the lme4 spelling of a group term / parenthesised term
        inner = r.choice([name, re.sub(r"\s*\|\s*", " | ", name)])
        return "(" + inner + ")"
    if k == 11:                                 # quoted / back-quoted
        q = r.choice(["`", "'", '"'])
        return q + name + q
    if k == 12:                                 # the components of an interaction / group term reversed
        for sep in (":", "|"):
            if sep in name:
                parts = name.split(sep)
                return sep.join(reversed(parts))
        return name + ":" + name
    if k == 13:                                 # "*" / "&" for ":" and "||" / "/" for "|"
        if ":" in name:
            return name.replace(":", r.choice(["*", " * ", "&", "::", "."]))
        if "|" in name:
            return name.replace("|", r.choice(["||", "/", " || ", ":"]))
        return name + "[" + name + "]"
    if k == 14:                                 # the name twice / with the response / intercept around it
        return r.choice([name + " + " + name, "1 + " + name, "y ~ " + name, "0 + " + name, name + " - 1"])
    return r.choice([name + "[0]", name + "[" + name + "]", "C(" + name + ")", "I(" + name + ")",
                     name.replace("(", "[").replace(")", "]") if "(" in name else name + "()"])


def near_miss_names(r, names, per_term=3):
    """names that are NOT term names of this object but close to one (white space added / missing,
    case, leading / trailing characters, lme4 spelling, reversed components, ...), generated from the
    object's real term names; every name that happens to equal a real term name is left out"""
    real = set(names)
    out = []
    for name in names:
        for _ in range(per_term):
            cand = _mutate_name(r, name)
            if r.random() < 0.15:
                cand = _mutate_name(r, cand)                 # two edits
            if cand not in real and cand not in out:
                out.append(cand)
    if not names:
        out = ["Intercept", " ", ""]
    return out


def near_miss_checks(obj, r):
    """lookups with near-miss names: each must be refused with ValueError (Spec.C17.getItem: a name
    that is not the name of a slice has no sub-matrix).  Returns (complaints, names tried)."""
    bad = []
    names = [t.name for t in obj.terms.values()]
    tried = near_miss_names(r, names)
    for nm in tried:
        try:
            sub = obj[nm]
            bad.append(f"obj[{nm!r}] accepted (shape {np.asarray(sub).shape}) although the term names "
                       f"are {names}")
        except ValueError:
            pass
        except Exception as e:  # noqa
            bad.append(f"obj[{nm!r}] raised {type(e).__name__} instead of ValueError")
    return bad, tried


def api_checks(obj, kind, nd=None, blocks=_UNSET):
    """relations between the views of one object; returns a list of complaints"""
    bad = []
    dmx = np.asarray(obj.design_matrix)
    if blocks is _UNSET:
        blocks = own_blocks(obj, nd)
    if blocks is not None:
        for (name, t), own in zip(obj.terms.items(), blocks):
            try:
                sub = np.asarray(obj[name])
                sub = sub.reshape(len(sub), -1) if sub.ndim != 2 else sub
                if sub.shape != own.shape or not np.array_equal(
                        np.asarray(sub, dtype=float), np.asarray(own, dtype=float), equal_nan=True):
                    bad.append(f"obj[{name!r}] (shape {sub.shape}) is not the term's own block "
                               f"(shape {own.shape})")
                elif sub.dtype.kind in "iu" and own.dtype.kind in "iu" and not exact_equal(sub, own):
                    bad.append(f"obj[{name!r}] is not the term's own block" + first_difference(sub, own))
            except Exception as e:  # noqa
                bad.append(f"obj[{name!r}] against the term's own block raised {type(e).__name__}")
    converted = None
    for how, fn in (("np.asarray(obj)", np.asarray), ("np.array(obj)", np.array)):
        try:
            got = fn(obj)
            if how == "np.asarray(obj)":
                converted = got
            if got is not obj.design_matrix and not exact_equal(got, dmx):
                bad.append(f"{how} differs from design_matrix" + first_difference(got, dmx))
        except Exception as e:  # noqa
            bad.append(f"{how} raised {type(e).__name__}")
    for name, sl in obj.slices.items():
        try:
            sub = obj[name]
            if not exact_equal(sub, dmx[:, sl]):
                bad.append(f"obj[{name!r}] is not the slice" + first_difference(sub, dmx[:, sl]))
            if converted is not None and np.ndim(converted) == 2 and not exact_equal(converted[:, sl], sub):
                bad.append(f"np.asarray(obj)[:, slices[{name!r}]] differs from obj[{name!r}]"
                           + first_difference(converted[:, sl], sub))
        except Exception as e:  # noqa
            bad.append(f"obj[{name!r}] raised {type(e).__name__}")
    try:
        obj["__no such term__"]
        bad.append("unknown term name accepted")
    except ValueError:
        pass
    except Exception as e:  # noqa
        bad.append(f"unknown term name raised {type(e).__name__} instead of ValueError")
    if kind == "common":
        try:
            frame = obj.as_dataframe()
            if not exact_equal(frame.to_numpy(), dmx.reshape(frame.shape)):
                bad.append("as_dataframe() values differ from design_matrix"
                           + first_difference(frame.to_numpy(), dmx.reshape(frame.shape)))
            labs = designs._labels(list(obj.terms.values()))
            if labs is not None and list(frame.columns) != labs:
                bad.append("as_dataframe() columns differ from the labels")
        except Exception as e:  # noqa
            bad.append(f"as_dataframe raised {type(e).__name__}")
    for fn in (str, repr):
        try:
            text = fn(obj)
            m = re.search(r"shape \((\d+), (\d+)\)", text)
            shape = dmx.shape if dmx.ndim == 2 else (dmx.shape[0], 1)
            if not m or (int(m.group(1)), int(m.group(2))) != tuple(shape):
                bad.append(f"{fn.__name__}() does not report the actual shape")
        except Exception as e:  # noqa
            bad.append(f"{fn.__name__}() raised {type(e).__name__}")
    return bad


def response_checks(dm):
    bad = []
    r = dm.response
    if r is None:
        return bad
    try:
        frame = r.as_dataframe()
        a = np.asarray(r.design_matrix)
        if not exact_equal(frame.to_numpy().reshape(a.shape), a):
            bad.append("response.as_dataframe() values differ"
                       + first_difference(frame.to_numpy().reshape(a.shape), a))
    except Exception as e:  # noqa
        bad.append(f"response.as_dataframe raised {type(e).__name__}")
    for how, fn in (("np.asarray(response)", np.asarray), ("np.array(response)", np.array)):
        try:
            got = fn(r)
            if got is not r.design_matrix and not (np.shape(got) == np.shape(r.design_matrix)
                                                   and exact_equal(got, r.design_matrix)):
                bad.append(f"{how} differs from response.design_matrix"
                           + first_difference(got, r.design_matrix))
        except Exception as e:  # noqa
            bad.append(f"{how} raised {type(e).__name__}")
    for fn in (str, repr):
        try:
            text = fn(r)
            if str(r.design_matrix.shape) not in text:
                bad.append("response printout does not report the actual shape")
        except Exception as e:  # noqa
            bad.append(f"response {fn.__name__}() raised {type(e).__name__}")
    return bad


def new_frames(rng, df, with_unseen):
    out = []
    for _ in range(rng.randrange(1, 4)):
        idx = [rng.randrange(len(df)) for _ in range(rng.randrange(1, 7))]
        nd = df.iloc[idx].reset_index(drop=True).copy()
        if with_unseen and rng.random() < 0.6:
            col = rng.choice(["g", "h"] + (["fl"] if "fl" in nd.columns else []))
            k = rng.randrange(len(nd))
            if col == "fl":        # an unseen float level next to a seen one
                nd.loc[k, col] = float(nd.loc[k, col]) * (1 + 2.0 ** -20)
            else:
                nd[col] = nd[col].astype(object)
                nd.loc[k, col] = "NEW_" + col
        out.append(designs.scramble_index(rng, nd))
    return out


# ------------------------------------------------------------------------------------------------
# categorical predictors / grouping factors whose levels are floats that differ only beyond the 6th
# significant digit (numeric ids >= 1e6 stored as float, results of float arithmetic such as
# 0.1 + 0.2 next to 0.3): their labels must still be unique.  Built on top of designs.gen_frame.
# ------------------------------------------------------------------------------------------------
def close_float_levels(r):
    """3-4 distinct floats; the first three agree in (at least) their first 6 significant digits"""
    b = r.choice([0.3, 2.5, 0.7, 1000.0, 1e6, 123456.0, 1e-3, 1e7, 0.1]) * r.randrange(1, 9)
    k = r.randrange(24, 45)
    js = [0] + r.sample(range(1, 8), 2)
    lv = [b * (1 + j * 2.0 ** -k) for j in js]
    if r.random() < 0.4:
        lv.append(b * r.choice([0.5, 2, 10]))          # a well separated level as well
    assert len(set(lv)) == len(lv) and len({str(v) for v in lv}) == len(lv)
    return lv


def add_float_columns(r, df):
    """`fl`: float column (categorical through C()/T()/S() and as grouping factor), `flc`: pandas
    Categorical with float categories in shuffled declared order (categorical also when bare)"""
    n = len(df)
    out = df.copy()
    for name in ("fl", "flc"):
        lv = close_float_levels(r)
        xs = [lv[i % len(lv)] for i in range(n)]       # every level occurs (n >= 8)
        r.shuffle(xs)
        if name == "flc":
            cats = list(lv)
            r.shuffle(cats)
            out[name] = pd.Categorical(xs, categories=cats)
        else:
            out[name] = xs
    return out


FLOAT_CAT = ["C(fl)", "flc", "S(fl)", "T(flc)", "C(fl):x", "f:C(fl)", "flc:h", "C(fl, Treatment)",
             "C(flc, Sum)", "z:flc", "C(fl):flc", "S(flc):g"]
FLOAT_GROUP = ["(1 | fl)", "(x | fl)", "(0 + f | flc)", "(z | C(fl))", "(1 | fl:h)", "(1 | g:flc)",
               "(x | g) + (1 | fl)", "(1 | fl) + (z | h)", "(flc | g)", "(0 + C(fl) | h)",
               "(x | flc) + (1 | fl)", "(1 | C(flc))"]


def gen_float_formula(r):
    terms = r.sample(FLOAT_CAT, r.choice([0, 1, 1, 2]))
    for _ in range(r.randrange(0, 3)):
        t = designs.gen_term(r, extra=True)
        if "levels=" in t or "C(co)" in t:
            continue          # D13 class (cannot be evaluated on a frame lacking a level): C06's
        if t not in terms:
            terms.append(t)
    if not terms or r.random() < 0.6:
        terms.append(r.choice(FLOAT_GROUP))
        if r.random() < 0.3:
            terms.append(designs.gen_group(r))
    r.shuffle(terms)
    resp = r.choice(["y", "y", "yc", "yc[yes]", "p(s, n)"])
    return f"{resp} ~ " + r.choice(["", "", "0 + ", "1 + "]) + " + ".join(terms)


def is_float_path(path):
    return isinstance(path, str) and path.startswith("fl")


# ------------------------------------------------------------------------------------------------
# "one row per retained observation": frames with missing values in columns the formula uses, under
# relabelled (scrambled / non-unique) indexes; the number of retained observations is counted here,
# on the caller's frame, not read from the design
# ------------------------------------------------------------------------------------------------
NA_ABLE = ("y", "x", "z", "yc", "f", "g", "h", "cu", "co")


def is_na_path(path):
    return isinstance(path, str) and path.startswith("na")


def is_offset_path(path):
    return isinstance(path, str) and path.startswith("of")


def used_columns(formula, df):
    import formulae
    try:
        names = formulae.model_description(formula).var_names
    except Exception:  # noqa
        return []
    return [c for c in df.columns if c in names]


def punch_missing(r, df, used):
    """missing values (float NaN, str None, Categorical NaN) in 1..n/2 rows of the used columns that
    can hold them; afterwards the rows are relabelled: default, permuted or -- more often --
    non-unique labels, so that incomplete rows share their label with complete ones"""
    cols = [c for c in used if c in NA_ABLE]
    out = df.reset_index(drop=True).copy()
    n = len(out)
    if cols:
        rows = r.sample(range(n), r.randrange(1, max(2, n // 2)))
        holes = {c: set() for c in cols}
        for i in rows:
            for c in r.sample(cols, r.randrange(1, min(2, len(cols)) + 1)):
                holes[c].add(i)
        for c, hs in holes.items():
            if not hs:
                continue
            col = out[c]
            vals = col.tolist()
            if isinstance(col.dtype, pd.CategoricalDtype):
                out[c] = pd.Categorical([None if i in hs else v for i, v in enumerate(vals)],
                                        categories=col.dtype.categories, ordered=col.dtype.ordered)
            elif pd.api.types.is_numeric_dtype(col):
                out[c] = np.array([np.nan if i in hs else v for i, v in enumerate(vals)], dtype=float)
            else:
                out[c] = np.array([None if i in hs else v for i, v in enumerate(vals)], dtype=object)
    k = r.random()
    if k < 0.5:
        out.index = [r.randrange(0, max(2, n // 2)) for _ in range(n)]       # repeated labels
    elif k < 0.6:
        out.index = [r.choice(["a", "b", "c", "d"]) for _ in range(n)]       # repeated text labels
    else:
        out = designs.scramble_index(r, out)
    return out


def complete_mask(df, used):
    if not used:
        return np.ones(len(df), dtype=bool)
    return ~df[used].isna().any(axis=1).to_numpy()


OFFSETS = ["offset(z)", "offset(3)", "offset(0.5)", "offset(x)", "offset(I(z * 2))", "offset(np.abs(z))",
           "offset(n)", "offset(2)", "offset(0)", "offset(-1)"]


def add_offset(r, formula):
    """the same design with an offset term (a column, a constant, a call) in first / last position"""
    resp, rhs = formula.split(" ~ ", 1)
    off = r.choice(OFFSETS)
    return f"{resp} ~ {off} + {rhs}" if r.random() < 0.4 else f"{resp} ~ {rhs} + {off}"


# ------------------------------------------------------------------------------------------------
# chains whose steps widen DIFFERENT grouping factors: designs with two or three group-specific terms
# over distinct grouping columns; every step's new frame has unseen levels in exactly the columns the
# plan names for it (one column, none, or two), so that a step may keep the total width of its parent
# while the widths of the terms change (seed paths 'ch<i>')
# ------------------------------------------------------------------------------------------------
CHAIN_COLS = ["g", "h", "f", "k", "kz"]
CHAIN_EFFECTS = ["1", "1", "x", "0 + x", "z", "1 + x", "x + z", "center(x)", "0 + f", "0 + h", "f",
                 "0 + x:z", "h"]


def is_chain_path(path):
    return isinstance(path, str) and path.startswith("ch")


def gen_chain_formula(r):
    """-> (formula, grouping columns in the order of their terms, plan: per step the columns that get
    an unseen level)"""
    cols = r.sample(CHAIN_COLS, r.choice([2, 2, 2, 3]))
    effects = [e for e in CHAIN_EFFECTS if not (set(re.findall(r"[a-z]+", e)) & set(cols))]
    same = r.choice(effects) if r.random() < 0.6 else None     # equal effect widths: equal widenings
    groups = []
    for c in cols:
        fac = "C(k)" if c == "k" and r.random() < 0.5 else c
        groups.append(f"({same or r.choice(effects)} | {fac})")
    if r.random() < 0.2:
        a, b = r.sample(cols, 2)
        groups.append(f"(1 | {a}:{b})")
    terms = []
    for _ in range(r.randrange(0, 3)):
        t = designs.gen_term(r, extra=True)
        if "levels=" in t or "C(co)" in t:
            continue
        if t not in terms:
            terms.append(t)
    pos = sorted(r.randrange(len(terms) + 1) for _ in groups)
    for k, (i, g) in enumerate(zip(pos, groups)):              # group terms keep their order
        terms.insert(i + k, g)
    a, b = r.sample(cols, 2)
    plans = [[[a], [b]], [[b], [a]], [[a], [b], [a]], [[a], [], [b]], [[], [a], [b]], [[a], [b], []],
             [[a, b], [a]], [[a], [b], [a, b]], [[a], [b], [b], [a]]]
    if len(cols) > 2:
        c = [x for x in cols if x not in (a, b)][0]
        plans += [[[a], [b], [c]], [[c], [a], [b], [c]], [[a], [c]]]
    plan = r.choice(plans)
    resp = r.choice(["y", "y", "yc", "yc[yes]", "p(s, n)"])
    return f"{resp} ~ " + r.choice(["", "", "0 + ", "1 + "]) + " + ".join(terms), cols, plan


def chain_frames(r, df, plan):
    """one new frame per step: rows of the training frame, and in exactly the columns the plan names
    for the step 1-2 cells replaced by a level the training frame does not have"""
    out = []
    for step, unseen in enumerate(plan):
        m = r.randrange(2, 8)
        nd = df.iloc[[r.randrange(len(df)) for _ in range(m)]].reset_index(drop=True).copy()
        for col in unseen:
            rows = r.sample(range(m), r.randrange(1, 3))
            if col in ("k", "kz"):
                new = r.choice([5, 77, -9, 100 + step])
            else:
                nd[col] = nd[col].astype(object)
                new = r.choice(["NEW_" + col, "A_new", f"zz{step}"])
            for i in rows:
                nd.loc[i, col] = new
        out.append(designs.scramble_index(r, nd))
    return out


# ------------------------------------------------------------------------------------------------
# another frame for a SECOND design with the same formula text (built after the first design has
# been judged): generated afresh, other length, and the levels of every categorical column the same /
# one more / one fewer / all relabelled, so that level and group counts differ between the designs
# ------------------------------------------------------------------------------------------------
OTHER_DESIGN = [None, None, None, None, None, "same-levels", "one-more-level", "one-level-fewer", "relabelled",
                "one-more-level"]


def other_frame(rd, kind, float_cols=False):
    d = designs.gen_frame(rd).reset_index(drop=True)
    n = len(d)
    if float_cols:
        d = add_float_columns(rd, d)
    if kind == "same-levels":
        return d
    for name in ("f", "g", "h", "yc", "cu", "co", "k", "kz", "one"):
        col = d[name]
        is_cat = isinstance(col.dtype, pd.CategoricalDtype)
        vals = col.tolist()
        levels = list(col.dtype.categories) if is_cat else sorted(set(vals))
        numeric = name in ("k", "kz")
        new_level = rd.choice([min(levels) - 3, max(levels) + 7, 5]) if numeric else \
            rd.choice(["A_new", "zz_new", "n_new"])
        if kind == "one-more-level":
            for i in rd.sample(range(n), rd.randrange(1, 3)):
                vals[i] = new_level
            pos = rd.randrange(len(levels) + 1)
            levels = levels[:pos] + [new_level] + levels[pos:]
        elif kind == "one-level-fewer":
            if len(levels) < 2:
                continue
            gone = rd.choice(levels)
            keep = [l for l in levels if l != gone]
            vals = [rd.choice(keep) if v == gone else v for v in vals]
            levels = keep
        else:
            vals = [v + 100 if numeric else str(v) + "_2" for v in vals]
            levels = [v + 100 if numeric else str(v) + "_2" for v in levels]
        d[name] = pd.Categorical(vals, categories=levels, ordered=bool(col.dtype.ordered)) if is_cat \
            else vals
    return d


def explore(tier, seed, res=None, replay=None):
    import formulae
    res = res or Result()
    res.rule = ("generated (formula, frame) designs incl. group-specific terms and non-modelled "
                "transforms, each followed by chains of 1-3 evaluate_new_data calls (60% with an "
                "unseen group under the 'silent' policy), plus designs over categorical predictors / "
                "grouping factors with float levels that differ only beyond the 6th significant "
                "digit, designs on frames with missing values in used columns under relabelled "
                "(non-unique) indexes, designs with an offset term; every chain is also indexed with "
                "near-miss names derived from its real term names (spacing, case, extra / lost "
                "characters, lme4 spelling, ...: all must be refused) and its objects, plus one derived "
                "afterwards, are judged again by Spec.C17.holds; plus designs with 2-3 grouping factors whose "
                "chain steps have unseen levels in different grouping factors per step (slice widths = "
                "the terms' own widths after every step); for 2 of 7 cases a second design with the same "
                "formula text is built on another frame afterwards and the first design is judged again; "
                "plus designs whose matrices have an integer dtype with entries beyond +-2**53 (int64 ids / "
                "time stamps / counts as response and as numeric predictor, alone and with other terms, "
                "training and new frames); all views (np.asarray, np.array, as_dataframe, obj[term]) of every "
                "object are compared exactly (Python ints / Fractions across dtypes) with design_matrix; "
                "non-trivial = a design with >= 2 terms in "
                "some matrix; distinct by formula text")
    rng = rng_for(seed, "c17")
    n_cases = 300 if tier == "quick" else 10000
    cases = []
    if replay is not None:
        cases = [(replay["formula"], replay.get("seed_path", 0))]
    else:
        for f, _ in CORPUS:
            cases.append((f, len(cases)))
        for i in range(n_cases):
            cases.append((None, len(cases)))
        for i in range(100 if tier == "quick" else 3000):
            cases.append((None, f"fl{i}"))
        for i in range(90 if tier == "quick" else 3000):
            cases.append((None, f"na{i}"))
        for i in range(60 if tier == "quick" else 2000):
            cases.append((None, f"of{i}"))
        for i in range(90 if tier == "quick" else 3000):
            cases.append((None, f"ch{i}"))
        for i, f in enumerate(INT_CORPUS):
            cases.append((f, f"bic{i}"))
        for i in range(70 if tier == "quick" else 2500):
            cases.append((None, f"bi{i}"))
    open_ids = {k["id"] for k in known_findings("C17")}
    views, owners, reqs, req_owner = [], [], [], []
    records = []
    for f, path in cases:
        r = rng_for(seed, "c17", path)
        df = designs.gen_frame(r)
        # a replayed generated case draws its formula again (and uses the replayed text), so that the
        # frame edits and new frames that follow come from the same stream as in the original run
        regenerate = f is None or (replay is not None and not (
            isinstance(path, int) and path < len(CORPUS) and CORPUS[path][0] == f)
            and not str(path).startswith("bic"))
        plan = None
        if is_float_path(path):
            df = add_float_columns(r, df)
            g = gen_float_formula(r) if regenerate else None
            res.count("float_level_cases")
        elif is_int_path(path):
            df = add_integer_columns(r, df)
            g = gen_int_formula(r) if regenerate else None
            res.count("integer_matrix_cases")
        elif is_chain_path(path):
            g, _, plan = gen_chain_formula(r)
            res.count("chain_cases: steps with unseen levels in different grouping factors")
        else:
            g = designs.gen_formula(r, extra=True) if regenerate else None
        if is_offset_path(path):
            g = add_offset(r, g) if regenerate else None
            res.count("offset_cases")
        formula = f or g
        used = used_columns(formula, df)
        if is_na_path(path) or (is_offset_path(path) and r.random() < 0.3):
            df = punch_missing(r, df, used)
            res.count("missing_value_cases")
            res.count("missing_value_cases:index " + ("unique" if df.index.is_unique else "non-unique"))
        keep = complete_mask(df, used)
        res.evaluations += 1
        with_unseen = r.random() < 0.6
        news = new_frames(r, df if keep.all() else df[keep], with_unseen) if plan is None else \
            chain_frames(r, df, plan)
        if is_int_path(path):
            news = [refresh_integers(r, nd) for nd in news]
        obs, req = designs.observe(formula, df, designs.NAMES,
                                   [{"df": nd, "mode": "silent"} for nd in news])
        case = {"formula": formula, "seed_path": path}
        if is_int_path(path):
            case["integer_columns_of_the_frame"] = {
                c: [int(v) for v in df[c].tolist()] for c in ("stamp", "ident", "cnt", "ustamp", "sid")
                if c in used}
        if plan is not None:
            case["unseen_levels_per_step_in"] = plan
        if req is None:
            res.count("impl_error:" + obs["err"])
            continue
        dm = obs["_dm"]
        rec = {"case": case, "bad": [], "views": [], "after": [], "lookups": []}
        # retained observations = complete rows of the caller's frame in the columns the formula
        # names (counted here; the design's own idea of its data is not consulted)
        n = int(keep.sum())
        if n != len(df):
            res.count("designs with dropped rows")
        # training objects and chains of evaluate_new_data
        old = formulae.config["EVAL_UNSEEN_CATEGORIES"]
        formulae.config["EVAL_UNSEEN_CATEGORIES"] = "silent"
        try:
            for kind in ("common", "group"):
                obj = getattr(dm, kind)
                if obj is None:
                    continue
                chain = [(obj, n, None)]
                cur = obj
                for nd in news:
                    try:
                        with warnings.catch_warnings():
                            warnings.simplefilter("ignore")
                            cur = cur.evaluate_new_data(nd)
                        chain.append((cur, len(nd), nd))
                    except Exception as e:  # noqa
                        res.count(f"new_data_error:{type(e).__name__}")
                        break
                base_width = np.asarray(obj.design_matrix).shape[-1]
                for step, (o, rows, nd) in enumerate(chain):
                    widened = np.asarray(o.design_matrix).shape[-1] != base_width
                    # the terms' own blocks: every group object and every training object; objects
                    # derived from the common matrix in the chain family (and, below, after a second
                    # design) -- a common term keeps its training width (C17_newTerm_shape_partial)
                    blocks = own_blocks(o, nd) if (kind == "group" or nd is None or plan is not None) \
                        else None
                    v = view(o, rows, widened, nd, blocks)
                    if is_int_path(path):
                        m = np.asarray(o.design_matrix)
                        if m.dtype.kind in "iu":
                            res.count("objects with an integer design_matrix"
                                      + (" holding entries beyond 2**53" if m.size and int(
                                          np.abs(m.astype(object)).max()) > 2 ** 53 else ""))
                    if step:
                        v["stage"] = f"step {step} of the chain of evaluate_new_data calls"
                    rec["views"].append(v)
                    rec["bad"] += [f"{kind}, step {step}: {b}" for b in api_checks(o, kind, nd, blocks)]
                    if kind == "group" and step and v.get("widths") is not None:
                        prev = rec["views"][-2]
                        if prev.get("widths") not in (None, v["widths"]):
                            res.count("chain steps that change the widths of group terms"
                                      + (" at equal total width" if prev["ncols"] == v["ncols"] else ""))
                # look-ups with near-miss names (own random stream: the streams of the frames above are
                # left as they were), on the training object and / or objects derived from it, in a
                # drawn order; every object of the chain -- made before the look-ups -- is then
                # observed again, and one more object is derived after them
                rn = rng_for(seed, "c17", path, "near-miss", kind)
                targets = [o for o, _, _ in chain if rn.random() < 0.6] or [rn.choice(chain)[0]]
                rn.shuffle(targets)
                for o in targets:
                    complaints, tried = near_miss_checks(o, rn)
                    rec["bad"] += complaints
                    rec["lookups"] += [f"{kind}[{nm!r}]" for nm in tried]
                    res.count("near_miss_lookups", len(tried))
                after = list(chain)
                if news and len(chain) > 1:
                    try:
                        with warnings.catch_warnings():
                            warnings.simplefilter("ignore")
                            k = rn.randrange(len(chain) - 1)
                            after.append((chain[k][0].evaluate_new_data(news[k]), len(news[k]), news[k]))
                    except Exception as e:  # noqa
                        res.count(f"new_data_error_after_lookups:{type(e).__name__}")
                for o, rows, nd in after:
                    widened = np.asarray(o.design_matrix).shape[-1] != base_width
                    v = view(o, rows, widened, nd, own_blocks(o, nd) if kind == "group" or nd is None
                             else None)
                    v["stage"] = "after the near-miss look-ups"
                    rec["after"].append(v)
            def whole_design(tag=""):
                bad = response_checks(dm)
                try:
                    a, b, c = dm
                    if a is not dm.response or b is not dm.common or c is not dm.group:
                        bad.append("tuple unpacking does not give (response, common, group)")
                    str(dm), repr(dm)
                except Exception as e:  # noqa
                    bad.append(f"DesignMatrices unpack/print raised {type(e).__name__}")
                if dm.response is not None:
                    rm = np.asarray(dm.response.design_matrix)
                    if rm.shape[0] != n:
                        bad.append("response rows differ from the retained observations")
                return [tag + b for b in bad]
            rec["bad"] += whole_design()
            # other-design stage (own stream, drawn unconditionally: a replay builds the same second
            # design): a SECOND design with the same formula text is built on another frame with other
            # level / group counts AFTER the first design has been judged; the first design's training
            # objects (slices, widths, labels, views, printing, look-ups) and one object derived from it
            # afterwards are then judged again -- designs are independent objects by the statement
            rd = rng_for(seed, "c17", path, "other-design")
            other_kind = rd.choice(OTHER_DESIGN)
            if other_kind:
                stage = "after a second design with the same formula text was built on another frame"
                case["second_design_same_formula_built_afterwards_on"] = (
                    "another generated frame, " + other_kind)
                res.count("second design with the same formula text: " + other_kind)
                d2 = other_frame(rd, other_kind, float_cols=is_float_path(path))
                if is_int_path(path):
                    d2 = add_integer_columns(rd, d2)
                try:
                    with warnings.catch_warnings():
                        warnings.simplefilter("ignore")
                        formulae.design_matrices(formula, d2, extra_namespace=dict(designs.NAMES, np=np))
                except Exception as e:  # noqa
                    res.count(f"second_design_error:{type(e).__name__}")
                for kind in ("common", "group"):
                    obj = getattr(dm, kind)
                    if obj is None:
                        continue
                    again = [(obj, n, None)]
                    if news:
                        try:
                            with warnings.catch_warnings():
                                warnings.simplefilter("ignore")
                                k = rd.randrange(len(news))
                                again.append((obj.evaluate_new_data(news[k]), len(news[k]), news[k]))
                        except Exception as e:  # noqa
                            res.count(f"new_data_error_after_second_design:{type(e).__name__}")
                    base_width = np.asarray(obj.design_matrix).shape[-1]
                    for o, rows, nd in again:
                        blocks = own_blocks(o, nd)
                        v = view(o, rows, np.asarray(o.design_matrix).shape[-1] != base_width, nd, blocks)
                        v["stage"] = stage + ("" if nd is None else " (object derived afterwards)")
                        rec["after"].append(v)
                        rec["bad"] += [f"{kind}, {v['stage']}: {b}" for b in api_checks(o, kind, nd, blocks)]
                rec["bad"] += whole_design(stage + ": ")
        finally:
            formulae.config["EVAL_UNSEEN_CATEGORIES"] = old
        records.append(rec)
        if max((len(v["terms"]) for v in rec["views"]), default=0) >= 2:
            res.nontrivial.add(formula)
        res.count("objects", len(rec["views"]))
        req["new"] = req["new"][:0]        # the containers of the training design are compared
        if is_int_path(path):
            # numpy's int64 / float64 arithmetic on integers beyond 2**53 (products that wrap, sums in
            # float) is not the exact arithmetic of the evaluation model: judged by Spec.C17.holds and
            # the exact comparison of the views alone
            res.count("model_skip:integer columns beyond 2**53 (numpy arithmetic is not exact there)")
        elif is_float_path(path) and ("fl" in dm.model.var_names or "flc" in dm.model.var_names):
            # levels of the evaluation model are strings or integers (Model/Frame.lean: Level):
            # float levels are outside it; these designs are judged by Spec.C17.holds alone
            res.count("model_skip:float levels are not representable in the evaluation model")
        else:
            reqs.append(req)
            req_owner.append((rec, obs))
        if len(res.samples) < 5:
            res.samples.append({"formula": formula, "views": rec["views"][:2]})

    spec = ask([{"op": "c17_spec", "views": rec["views"] + rec["after"]} for rec in records])
    for rec, sp in zip(records, spec):
        names = [t for v in rec["views"] for t in v["terms"]]
        dup_terms = None
        try:
            md = formulae.model_description(rec["case"]["formula"])
            tn = [t.name for t in md.common_terms]
            dup_terms = len(tn) != len(set(tn))
        except Exception:  # noqa
            pass
        rec["dup_terms"] = dup_terms
        problems = list(rec["bad"])
        impl_bad = []
        for v, ok, wok in zip(rec["views"] + rec["after"], sp["holds"], sp["widths_ok"]):
            if not ok:
                problems.append(f"Spec.C17.holds false for object with terms {v['terms']}"
                                + (f" {v['stage']}: slices {v['slices']}" if "stage" in v else "")
                                + ("" if wok else f": the slices {'' if 'stage' in v else v['slices']} "
                                   f"are not as wide as the terms' own blocks {v.get('widths')} "
                                   "(Spec.C17.widthsOk)"))
                impl_bad.append(v)
        if problems:
            fid = None
            if dup_terms and "KF-C17-D16" in open_ids:
                fid = "KF-C17-D16"
                res.known_hit[fid] = res.known_hit.get(fid, 0) + 1
            case = dict(rec["case"])
            if any("accepted" in p or "after the near-miss" in p or "instead of ValueError" in p
                   for p in problems):
                case["lookups"] = rec["lookups"]
            res.failures.append({"case": case, "impl": (impl_bad + rec["views"])[:3], "why": problems[:4],
                                 "finding": fid, "expected": "consistent containers"})
        _ = names
    # model vs implementation on the training containers (exactly modelled atoms only)
    model = ask(reqs)
    for (rec, obs), mo in zip(req_owner, model):
        if rec.get("dup_terms"):
            res.count("model_skip:duplicate term names")
            continue
        if "err" in mo:
            res.count("model_skip:" + mo["err"])
            continue
        res.traces += 1
        diffs = designs.compare(obs, mo)
        if diffs:
            res.mismatches.append({"case": rec["case"], "diff": diffs[:5],
                                   "impl": {k: designs.strip(obs).get(k) for k in ("common",)},
                                   "model": mo["train"].get("common")})
    return res
