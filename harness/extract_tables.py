"""Translator: re-reads /repo on every run and regenerates lean/FormulaeModel/Generated/Tables.lean.

What is extracted (by `ast` pattern matching on the source, or by introspection of the live
module objects where the table *is* a Python object):

* parser.py      the precedence chain: per binary level the matched token kinds, that it is a
                 `while` loop with both operands parsed at the next level, the unary operators,
                 the right operand of `~` / `=`, and whether `parse` checks for end of input
* resolver.py    token kind -> Python operator used on the term objects
* call_resolver  BINARY_OPERATORS / UNARY_OPERATORS / LazyOperator.SYMBOLS
* config.py      Config.FIELDS
* transforms.py  the TRANSFORMS registry (alias classes by object identity) and ENCODINGS
* matrices.py    the accepted na_action values

An unrecognised source shape does not make this script fail: it emits `…ShapeOk := false`, so
the Lean project still builds the model and the driver, and `Properties/Tie.lean` (which proves
`…ShapeOk = true` and the equality with the documented tables by `decide`) is what breaks.
"""
import ast
import os
import sys

REPO = os.environ.get("VERIF_REPO", "/repo")
OUT = os.path.join(os.path.dirname(os.path.abspath(__file__)), "..", "lean", "FormulaeModel",
                   "Generated", "Tables.lean")


def _src(rel):
    with open(os.path.join(REPO, rel)) as f:
        return ast.parse(f.read())


def _methods(tree, cls):
    for node in tree.body:
        if isinstance(node, ast.ClassDef) and node.name == cls:
            return {n.name: n for n in node.body if isinstance(n, ast.FunctionDef)}
    return {}


def _self_call(node):
    """`self.name(...)` -> name"""
    if (isinstance(node, ast.Call) and isinstance(node.func, ast.Attribute)
            and isinstance(node.func.value, ast.Name) and node.func.value.id == "self"):
        return node.func.attr
    return None


def _match_kinds(test):
    """`self.match("K")` / `self.match(["K1", "K2"])` -> [kinds]"""
    if _self_call(test) != "match" or len(test.args) != 1:
        return None
    a = test.args[0]
    if isinstance(a, ast.Constant) and isinstance(a.value, str):
        return [a.value]
    if isinstance(a, (ast.List, ast.Tuple)) and all(
            isinstance(e, ast.Constant) and isinstance(e.value, str) for e in a.elts):
        return [e.value for e in a.elts]
    return None


def _assign_call(stmt, target):
    """`target = self.f()` -> f"""
    if (isinstance(stmt, ast.Assign) and len(stmt.targets) == 1
            and isinstance(stmt.targets[0], ast.Name) and stmt.targets[0].id == target):
        return _self_call(stmt.value)
    return None


def _strip_doc(body):
    if body and isinstance(body[0], ast.Expr) and isinstance(body[0].value, ast.Constant) \
            and isinstance(body[0].value.value, str):
        return body[1:]
    return body


def extract_parser():
    """Returns dict(levels, names, unary, tilde_right, eof, ok, why)."""
    res = dict(levels=[], names=[], unary=[], tilde_right=0, eof=False, ok=True, why=[])

    def bad(msg):
        res["ok"] = False
        res["why"].append(msg)

    try:
        m = _methods(_src("formulae/parser.py"), "Parser")
    except Exception as e:  # noqa
        bad(f"cannot parse parser.py: {e}")
        return res

    # parse(): expression, then end-of-input check
    body = _strip_doc(m["parse"].body) if "parse" in m else []
    eof = False
    for node in ast.walk(m["parse"]) if "parse" in m else []:
        if isinstance(node, ast.If):
            calls = [_self_call(n) for n in ast.walk(node.test)]
            has_raise = any(isinstance(n, ast.Raise) for n in ast.walk(node))
            negated = isinstance(node.test, ast.UnaryOp) and isinstance(node.test.op, ast.Not)
            if "at_end" in calls and has_raise and negated:
                eof = True
    res["eof"] = eof
    first = None
    for st in body:
        first = _assign_call(st, "expr") or (
            _self_call(st.value) if isinstance(st, ast.Return) else None)
        break
    if first != "expression":
        bad("parse() does not start with self.expression()")

    def returns_call(name, callee):
        b = _strip_doc(m[name].body) if name in m else []
        return len(b) == 1 and isinstance(b[0], ast.Return) and _self_call(b[0].value) == callee

    if not returns_call("expression", "assignment"):
        bad("expression() is not `return self.assignment()`")

    def one_shot(name, kind):
        """expr = self.L(); if self.match(kind): ... right = self.R() ...  -> (L, R)"""
        b = _strip_doc(m[name].body) if name in m else []
        if len(b) < 2:
            bad(f"{name}: unexpected body")
            return None, None
        left = _assign_call(b[0], "expr")
        if not isinstance(b[1], ast.If) or _match_kinds(b[1].test) != [kind]:
            bad(f"{name}: second statement is not `if self.match({kind!r})`")
            return left, None
        right = None
        for st in b[1].body:
            r = _assign_call(st, "right")
            if r:
                right = r
        return left, right

    a_left, a_right = one_shot("assignment", "EQUAL")
    t_left, t_right = one_shot("tilde", "TILDE")
    if a_left != "tilde":
        bad("assignment() does not descend to tilde()")
    if a_right != t_right:
        bad("`=` and `~` take different right operands")

    # the binary chain
    name = t_left
    seen = set()
    while name and name != "unary" and name not in seen:
        seen.add(name)
        b = _strip_doc(m[name].body) if name in m else []
        if len(b) != 3 or not isinstance(b[1], ast.While) or not isinstance(b[2], ast.Return):
            bad(f"{name}: not `expr = next(); while match(ops): ...; return expr`")
            break
        nxt = _assign_call(b[0], "expr")
        kinds = _match_kinds(b[1].test)
        right = None
        builds_binary = False
        for st in b[1].body:
            right = _assign_call(st, "right") or right
            if (isinstance(st, ast.Assign) and isinstance(st.value, ast.Call)
                    and isinstance(st.value.func, ast.Name) and st.value.func.id == "Binary"):
                args = st.value.args
                if (len(args) == 3 and all(isinstance(x, ast.Name) for x in args)
                        and [x.id for x in args] == ["expr", "operator", "right"]):
                    builds_binary = True
        if kinds is None or nxt is None or right != nxt or not builds_binary:
            bad(f"{name}: operands/operators not in the expected shape")
            break
        if not (isinstance(b[2].value, ast.Name) and b[2].value.id == "expr"):
            bad(f"{name}: does not return expr")
        res["levels"].append(kinds)
        res["names"].append(name)
        name = nxt
    if name != "unary":
        bad("binary chain does not end in unary()")

    # unary
    b = _strip_doc(m["unary"].body) if "unary" in m else []
    if (len(b) == 2 and isinstance(b[0], ast.If) and _match_kinds(b[0].test)
            and isinstance(b[1], ast.Return) and _self_call(b[1].value) == "call"):
        res["unary"] = _match_kinds(b[0].test)
        rec = [_assign_call(st, "right") for st in b[0].body]
        if "unary" not in rec:
            bad("unary(): operand is not unary()")
    else:
        bad("unary(): unexpected shape")

    if t_right in res["names"]:
        res["tilde_right"] = res["names"].index(t_right)
    else:
        bad(f"right operand of ~ ({t_right}) is not a level of the chain")
    return res


def _kind(k):
    return "." + k


def lean_parser_table(p):
    levels = ", ".join("[" + ", ".join(_kind(k) for k in lv) + "]" for lv in p["levels"])
    unary = ", ".join(_kind(k) for k in p["unary"])
    why = "".join(f"\n-- shape: {w}" for w in p["why"])
    return f"""def parserTable : Parser.Table :=
  {{ levels := [{levels}],
    unaryOps := [{unary}],
    tildeRight := {p['tilde_right']},
    eofCheck := {'true' if p['eof'] else 'false'} }}

def parserLevelNames : List String := [{", ".join('"%s"' % n for n in p['names'])}]

def parserShapeOk : Bool := {'true' if p['ok'] else 'false'}{why}
"""



# ------------------------------------------------------------------------------------------------
# resolver.py
# ------------------------------------------------------------------------------------------------
_PYOP = {"Add": "add", "Sub": "sub", "Pow": "pow", "MatMult": "matmul", "Mult": "mul",
         "Div": "truediv", "BitOr": "or_"}
GOLDEN = os.path.join(os.path.dirname(os.path.abspath(__file__)), "golden")


def _is_accept(node, side):
    """`expr.<side>.accept(self)`"""
    return (isinstance(node, ast.Call) and isinstance(node.func, ast.Attribute)
            and node.func.attr == "accept" and isinstance(node.func.value, ast.Attribute)
            and node.func.value.attr == side and isinstance(node.func.value.value, ast.Name)
            and node.func.value.value.id == "expr")


def _golden_ok(name, fn_nodes):
    """Compare the AST dump of some functions with the stored one (shape tie for code that is
    modelled by hand rather than table-driven)."""
    import json
    def norm(fn):
        fn = ast.parse(ast.unparse(fn)).body[0]
        fn.body = _strip_doc(fn.body) or [ast.Pass()]
        return ast.unparse(fn)
    dump = {k: norm(v) for k, v in fn_nodes.items()}
    path = os.path.join(GOLDEN, name + ".json")
    if os.environ.get("VERIF_WRITE_GOLDEN") == "1":
        os.makedirs(GOLDEN, exist_ok=True)
        with open(path, "w") as f:
            json.dump(dump, f, indent=1, sort_keys=True)
    if not os.path.exists(path):
        return False, [f"golden/{name}.json missing"]
    with open(path) as f:
        gold = json.load(f)
    diff = [k for k in sorted(set(gold) | set(dump)) if gold.get(k) != dump.get(k)]
    return not diff, [f"{name}: {k} differs from the modelled source" for k in diff]


def extract_resolver():
    res = dict(ops=[], ok=True, why=[])

    def bad(msg):
        res["ok"] = False
        res["why"].append(msg)

    try:
        m = _methods(_src("formulae/resolver.py"), "Resolver")
    except Exception as e:  # noqa
        bad(f"cannot parse resolver.py: {e}")
        return res
    fn = m.get("visitBinaryExpr")
    if fn is None:
        bad("no visitBinaryExpr")
        return res

    def walk_ifs(stmts):
        for st in stmts:
            if isinstance(st, ast.If):
                yield st
                yield from walk_ifs(st.orelse)

    for st in walk_ifs(fn.body):
        t = st.test
        if not (isinstance(t, ast.Compare) and isinstance(t.left, ast.Name) and t.left.id == "otype"
                and len(t.ops) == 1 and isinstance(t.ops[0], ast.Eq)
                and isinstance(t.comparators[0], ast.Constant)):
            bad("visitBinaryExpr: unexpected test")
            continue
        kind = t.comparators[0].value
        ret = st.body[0] if st.body else None
        if not (isinstance(ret, ast.Return) and isinstance(ret.value, ast.BinOp)):
            bad(f"visitBinaryExpr[{kind}]: not `return <left> op <right>`")
            continue
        b = ret.value
        opname = _PYOP.get(type(b.op).__name__)
        left_ok = _is_accept(b.left, "left")
        if (not left_ok and isinstance(b.left, ast.Call) and isinstance(b.left.func, ast.Name)
                and b.left.func.id == "Response" and len(b.left.args) == 1
                and _is_accept(b.left.args[0], "left") and opname == "add"):
            left_ok, opname = True, "tilde"
        if opname is None or not left_ok or not _is_accept(b.right, "right"):
            bad(f"visitBinaryExpr[{kind}]: operands/operator not recognised")
            continue
        res["ops"].append((kind, opname))
    others = {k: m[k] for k in ("resolve", "visitGroupingExpr", "visitUnaryExpr", "visitCallExpr",
                                "visitVariableExpr", "visitLiteralExpr", "visitQuotedNameExpr")
              if k in m}
    ok, why = _golden_ok("resolver_visitors", others)
    if not ok:
        res["ok"] = False
        res["why"] += why
    try:
        md = _src("formulae/model_description.py")
        fns = {n.name: n for n in md.body if isinstance(n, ast.FunctionDef)}
        ok, why = _golden_ok("model_description", fns)
        if not ok:
            res["ok"] = False
            res["why"] += why
    except Exception as e:  # noqa
        bad(f"model_description.py: {e}")
    return res


def lean_resolver(r):
    ops = ", ".join(f"(.{k}, .{o})" for k, o in r["ops"])
    why = "".join(f"\n-- shape: {w}" for w in r["why"])
    return f"""def resolverOps : Resolver.OpTable := [{ops}]

def resolverShapeOk : Bool := {'true' if r['ok'] else 'false'}{why}
"""


def extract_config():
    """Config.FIELDS (class attribute, read by `ast`) and the accepted na_action values."""
    why = []
    fields = []
    try:
        tree = _src("formulae/config.py")
        for node in tree.body:
            if isinstance(node, ast.ClassDef) and node.name == "Config":
                for st in node.body:
                    if (isinstance(st, ast.Assign) and len(st.targets) == 1
                            and isinstance(st.targets[0], ast.Name) and st.targets[0].id == "FIELDS"):
                        val = ast.literal_eval(st.value)
                        fields = [(str(k), [str(x) for x in v]) for k, v in val.items()]
        if not fields:
            why.append("Config.FIELDS not found")
        m = _methods(tree, "Config")
        ok, w = _golden_ok("config_methods", {k: m[k] for k in ("__init__", "__setitem__",
                                                                "__setattr__", "__getitem__") if k in m})
        if not ok:
            why += w
    except Exception as e:  # noqa
        why.append(f"config.py: {e}")
    na = []
    try:
        tree = _src("formulae/matrices.py")
        for node in ast.walk(tree):
            if (isinstance(node, ast.Compare) and isinstance(node.left, ast.Name)
                    and node.left.id == "na_action" and len(node.ops) == 1
                    and isinstance(node.ops[0], ast.NotIn)):
                na = [str(x) for x in ast.literal_eval(node.comparators[0])]
        if not na:
            why.append("na_action check not found in design_matrices")
    except Exception as e:  # noqa
        why.append(f"matrices.py: {e}")
    import json

    def lst(xs):
        return "[" + ", ".join(json.dumps(x) for x in xs) + "]"
    flds = "[" + ", ".join(f"({json.dumps(k)}, {lst(v)})" for k, v in fields) + "]"
    shape = "".join(f"\n-- shape: {w}" for w in why)
    return f"""def configFields : List (String × List String) := {flds}

def naActions : List String := {lst(na)}

def configShapeOk : Bool := {'true' if not why else 'false'}{shape}
"""


def extract_aliases():
    """groups of names of the formula namespace ({**TRANSFORMS, **ENCODINGS}) that are bound to one
    and the same object (read from the live module by identity)"""
    import json
    why, groups = [], []
    try:
        if REPO not in sys.path:
            sys.path.insert(0, REPO)
        from formulae.transforms import TRANSFORMS
        from formulae.categorical import ENCODINGS
        ns = {**TRANSFORMS, **ENCODINGS}
        by_id = {}
        for k in sorted(ns):
            by_id.setdefault(id(ns[k]), []).append(k)
        groups = sorted(g for g in by_id.values())
    except Exception as e:  # noqa
        why.append(f"cannot import the registries: {e}")
    txt = "[" + ", ".join("[" + ", ".join(json.dumps(x) for x in g) + "]" for g in groups) + "]"
    shape = "".join(f"\n-- shape: {w}" for w in why)
    return f"""def aliasGroups : List (List String) := {txt}

def aliasShapeOk : Bool := {'true' if not why else 'false'}{shape}
"""


KNOWN_KINDS = None


def generate():
    parts = ["import FormulaeModel.Model.Parser", "import FormulaeModel.Model.Resolver",
             "-- GENERATED by harness/extract_tables.py from the working tree of /repo on every run."
             " Do not edit.",
             "namespace FormulaeModel.Generated", "open FormulaeModel", ""]
    p = extract_parser()
    parts.append(lean_parser_table(p))
    r = extract_resolver()
    parts.append(lean_resolver(r))
    sys.path.insert(0, os.path.dirname(os.path.abspath(__file__)))
    from extract_c11 import extract_c11
    parts.append(extract_c11())
    from extract_c13 import extract_coding, lean_coding_tables
    parts.append(lean_coding_tables(extract_coding()))
    parts.append(extract_config())
    from extract_c14 import extract_transforms, lean_transforms_table
    parts.append(lean_transforms_table(extract_transforms()))
    parts.append(extract_aliases())
    from extract_c12 import extract_c12
    parts.append(extract_c12())
    from extract_c07 import extract_c07
    parts.append(extract_c07())
    parts.append("end FormulaeModel.Generated\n")
    return "\n".join(parts), dict(parser=p, resolver=r)


def main():
    text, info = generate()
    out = os.path.normpath(OUT)
    old = None
    if os.path.exists(out):
        with open(out) as f:
            old = f.read()
    if old != text:
        os.makedirs(os.path.dirname(out), exist_ok=True)
        with open(out + ".tmp", "w") as f:
            f.write(text)
        os.replace(out + ".tmp", out)
    return info


if __name__ == "__main__":
    info = main()
    import json
    json.dump(info, sys.stdout, indent=1)
    print()
