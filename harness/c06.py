"""C06 — evaluating new data reproduces the training encoding: for any rows `is` of the training
frame, evaluate_new_data returns exactly the rows `is` of the training matrix."""
import warnings

import designs
from common import Result, ask, rng_for, known_findings

ASSUMPTIONS = [
    "the model-level theorem C06_rows (Properties/C06.lean) says that prediction on any row list of "
    "the training frame returns those rows of the training matrix, for every design outside the two "
    "recorded defect classes; the items below tie it to the code",
    "Spec.C06.holds (new matrix = selected training rows, relative tolerance 1e-9) is evaluated by "
    "the Lean driver on the matrices the implementation returned, for all generated atoms incl. "
    "scale / bs / poly / nested transforms; the exact model is compared on the modelled atoms",
    "defect classes D13 / D14 are decided by Lean predicates on (formula, training frame, new "
    "frame) and a failure is a known finding only if the implementation's output also equals the "
    "model's (which mirrors both defects)",
]
TRUSTED = ["numpy/scipy floating point for scale, bs, poly (parameters are frozen: checked through "
           "the row identity itself)"]

STATEFUL = ["center(x)", "scale(x)", "bs(z, df=4)", "poly(x, 2)", "center(scale(z))",
            "scale(center(x) + z)", "poly(center(z), 3)", "bs(x, df=3, degree=2):f",
            "center(x):scale(z)", "standardize(x):g", "I(center(x) * 2)"]
DEFECT_ATOMS = ["binary(k)", "binary(k, 2)", "B(h, 'q')", "C(f, levels=lv_f)", "C(co)",
                "T(co, 'lo')", "S(f, levels=lv_f)"]
CORPUS = ["y ~ C(f, levels=lv_f)", "y ~ C(co) + x", "y ~ binary(k)", "y ~ binary(k, 2) + f",
          "y ~ scale(x) + (scale(x) | g)", "y ~ poly(x, 3) + bs(z, df=5)", "y ~ co + cu + (x | co)",
          "y ~ 0 + (h + z)*x", "y ~ (f | g + h) - (1 | h)", "y ~ center(x):f + (center(x) | g)"]


def selections(r, n):
    """row selections: single row, subset missing levels, permutation, repetition, shifted range"""
    out = [[r.randrange(n)]]
    out.append(sorted(r.sample(range(n), max(1, n // 3))))
    perm = list(range(n))
    r.shuffle(perm)
    out.append(perm)
    out.append([r.randrange(n) for _ in range(r.randrange(2, n + 3))])
    out.append(list(range(n // 2)))              # first half: different mean / range / level set
    out.append([r.randrange(n)] * 3)
    return out


def gen_formula(r):
    terms = []
    for _ in range(r.randrange(1, 4)):
        t = designs.gen_term(r, extra=True)
        if r.random() < 0.35:
            t = r.choice(STATEFUL)
        if r.random() < 0.12:
            t = r.choice(DEFECT_ATOMS)
        if t not in terms:
            terms.append(t)
    if r.random() < 0.4:
        terms.append(designs.gen_group(r))
    return "y ~ " + r.choice(["", "", "0 + "]) + " + ".join(terms)


def consistent_with(cls, c, obs):
    """Signature of the recorded defects when the exact model is not available for the design:
    D13 and the refusing form of D14 raise ValueError; the silent form of D14 changes only the
    columns of terms that contain a binary()/B() call."""
    if c["err"]:
        return c["err"] == "ValueError"
    if cls != "D14" or c["new"] is None:
        return False
    part = obs[c["part"]]
    want = [part["matrix"][i] for i in c["idx"]]
    bad_cols = {j for rw, rn in zip(want, c["new"]) for j, (a, b) in enumerate(zip(rw, rn))
                if not designs.same([[a]], [[b]], True)}
    if len(want) != len(c["new"]) or any(len(a) != len(b) for a, b in zip(want, c["new"])):
        return False
    allowed = set()
    for name, start, stop in part["slices"]:
        if "binary(" in name or "B(" in name:
            allowed.update(range(start, stop))
    return bad_cols <= allowed


def explore(tier, seed, res=None, replay=None):
    res = res or Result()
    res.rule = ("generated designs (nested / interacting stateful transforms, C/T/S codings, ordered "
                "categoricals, group-specific terms) x 6 row selections (single row, subset, "
                "permutation, repetition, first half, triple); non-trivial = a selection that is not "
                "the identity on a design with a categorical or stateful atom; distinct by (formula, "
                "selection)")
    n_cases = 300 if tier == "quick" else 10000
    cases = []
    if replay is not None:
        cases = [(replay["formula"], replay.get("seed_path", 0))]
    else:
        for f in CORPUS:
            cases.append((f, len(cases)))
        for _ in range(n_cases):
            cases.append((None, len(cases)))
    open_ids = {k["id"] for k in known_findings("C06")}
    reqs_spec, reqs_model, reqs_pipe, owners = [], [], [], []
    for f, path in cases:
        r = rng_for(seed, "c06", path)
        df = designs.gen_frame(r)
        formula = f or gen_formula(r)
        res.evaluations += 1
        sels = selections(r, len(df))
        news = [{"df": designs.scramble_index(r, df.iloc[idx]), "mode": "error"} for idx in sels]
        obs, req = designs.observe(formula, df, designs.NAMES, news)
        case = {"formula": formula, "seed_path": path}
        if req is None:
            res.count("impl_error:" + obs["err"])
            continue
        checks = []
        for idx, nobs in zip(sels, obs["new"]):
            for part in ("common", "group"):
                if obs.get(part) is None:
                    continue
                new = nobs.get(part) or {}
                checks.append({"part": part, "idx": idx, "train": obs[part]["matrix"],
                               "new": new.get("matrix"), "err": new.get("err")})
        reqs_spec.append({"op": "c06_spec", "formula": formula, "frame": req["frame"],
                          "names": req["names"],
                          "checks": [{k: c[k] for k in ("idx", "train", "new")} for c in checks]})
        reqs_model.append(req)
        # the whole pipeline in Lean on formula + data alone, training and prediction
        reqs_pipe.append({"op": "pipeline", "formula": formula, "frame": designs.frame_json(df),
                          "names": designs.names_json(designs.NAMES), "na_action": "drop",
                          "new": req["new"]})
        owners.append((case, obs, checks))
        res.nontrivial.update((formula, tuple(idx)) for idx in sels[:4])
        if len(res.samples) < 5:
            res.samples.append({"formula": formula, "selection": sels[1]})
    spec = ask(reqs_spec)
    model = ask(reqs_model)
    for (case, obs, _), po in zip(owners, ask(reqs_pipe)):
        if "err" in po:
            res.count("pipeline_skip:" + po["err"])
            continue
        res.count("pipeline_compared")
        d = designs.compare(obs, po)
        if d:
            res.mismatches.append({"case": case, "diff": ["pipeline:" + x for x in d[:5]]})
    for (case, obs, checks), sp, mo in zip(owners, spec, model):
        model_ok = "err" not in mo
        diffs = designs.compare(obs, mo) if model_ok else None
        if model_ok:
            res.traces += 1
            if diffs:
                res.mismatches.append({"case": case, "diff": diffs[:5]})
        else:
            res.count("model_skip:" + mo["err"])
        if "err" in sp:
            res.count("spec_skip:" + sp["err"])
            continue
        for c, v in zip(checks, sp["checks"]):
            res.count("row_identities_checked")
            if v["holds"]:
                continue
            fid = None
            for cls in v["classes"]:
                k = f"KF-C06-{cls}"
                if k not in open_ids:
                    continue
                if model_ok:
                    # known only if the model (which mirrors the defect) predicts the same output
                    if not diffs:
                        fid = k
                        break
                elif consistent_with(cls, c, obs):
                    # design outside the exact model: the failure must have the defect's signature
                    fid = k
                    break
            if fid:
                res.known_hit[fid] = res.known_hit.get(fid, 0) + 1
            res.failures.append({"case": dict(case, part=c["part"], idx=c["idx"]),
                                 "impl": {"error": c["err"]} if c["err"] else {"rows": "differ"},
                                 "expected": "the selected rows of the training matrix",
                                 "classes": v["classes"], "finding": fid,
                                 "why": f"{c['part']}.evaluate_new_data on rows {c['idx'][:8]} "
                                        + (f"raised {c['err']}" if c["err"] else
                                           "differs from the training rows")})
    return res
