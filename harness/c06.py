"""C06 — evaluating new data reproduces the training encoding: for any rows `is` of the training
frame, evaluate_new_data returns exactly the rows `is` of the training matrix."""
import re
import warnings

import numpy as np
import pandas as pd

import designs
from common import Result, ask, rng_for, known_findings

ASSUMPTIONS = [
    "the model-level theorem C06_rows (Properties/C06.lean) says that prediction on any row list of "
    "the training frame returns those rows of the training matrix, for every design outside the two "
    "recorded defect classes; the items below tie it to the code",
    "Spec.C06.holds (new matrix = selected training rows, relative tolerance 1e-9) is evaluated by "
    "the Lean driver on the matrices the implementation returned, for all generated atoms incl. "
    "scale / bs / poly / nested transforms; the exact model is compared on the modelled atoms",
    "defect classes D13 / D14 are decided by Lean predicates on (formula, training frame, new "
    "frame) and a failure is a known finding only if the implementation's output also equals the "
    "model's (which mirrors both defects)",
]
ASSUMPTIONS += [
    "splines with interior knots taken from the calling namespace: bs(v, knots=kn_v) with degree 1-3, "
    "with / without intercept=True, with both, one or none of lower_bound / upper_bound (names from "
    "the namespace too), alone, in interactions and as group-specific slopes; the knots are strictly "
    "inside the training range of v, so the boundary knots are the training minimum / maximum when "
    "no bound is written; every design is also evaluated on the rows that are extreme in neither x "
    "nor z (a frame whose own range is narrower than the training range)",
    "history stage: ONE frame object holding training rows is evaluated by the common and the group "
    "matrix, edited IN PLACE so that it holds other training rows (every column assigned anew; "
    ".loc edits of some rows; rows dropped in place; sorted in place), and evaluated again by the same "
    "matrix objects with no other frame in between; the second result is judged by the same predicate "
    "(Spec.C06.holds: the training rows of the frame's contents at the time of the call); a failure "
    "that the evaluation of a fresh frame with the same contents shows in exactly the same way is the "
    "one already reported there (known classes D13 / D14) and is only counted",
]
ASSUMPTIONS += [
    "operator stage: a share of the designs holds one term built by a distributive operator whose LEFT "
    "operand is categorical (a plain factor, a pandas categorical or a C / S / T call): a / b, "
    "a / (b + c), (a + b) / c, a:(b + c), (a + b):c, a * b, a*(b + c), (a + b)*c, (a + b + c)**2 with b, c "
    "categorical or numeric (plain or a stateful transform), alone or next to the other terms, with and "
    "without the intercept, so that one factor occurs in several terms of one design with DIFFERENT "
    "codings (reduced as main effect, full inside the product); every such design is judged by the "
    "same row identity (Spec.C06.holds) for the same selections: a new matrix of another width than "
    "the training matrix is a failure, not a skipped case",
    "other-design stage: for about half of the designs a SECOND design with the same formula text is "
    "built, before the first design is asked for anything, on another frame (designs.observe's "
    "`disturb`): generated afresh (other numeric ranges, other length), and with the levels of every "
    "categorical column either the same, extended by a level that sorts first / last, reduced by a "
    "level, or all relabelled (integer ids shifted); the first design's evaluate_new_data is then "
    "judged by Spec.C06.holds against ITS training matrix as everywhere (a second design is an "
    "independent object by the statement: nothing about it is compared)",
]
TRUSTED = ["numpy/scipy floating point for scale, bs, poly (parameters are frozen: checked through "
           "the row identity itself)"]

STATEFUL = ["center(x)", "scale(x)", "bs(z, df=4)", "poly(x, 2)", "center(scale(z))",
            "scale(center(x) + z)", "poly(center(z), 3)", "bs(x, df=3, degree=2):f",
            "center(x):scale(z)", "standardize(x):g", "I(center(x) * 2)"]
DEFECT_ATOMS = ["binary(k)", "binary(k, 2)", "B(h, 'q')", "C(f, levels=lv_f)", "C(co)",
                "T(co, 'lo')", "S(f, levels=lv_f)"]
CORPUS = ["y ~ C(f, levels=lv_f)", "y ~ C(co) + x", "y ~ binary(k)", "y ~ binary(k, 2) + f",
          "y ~ scale(x) + (scale(x) | g)", "y ~ poly(x, 3) + bs(z, df=5)", "y ~ co + cu + (x | co)",
          "y ~ 0 + (h + z)*x", "y ~ (f | g + h) - (1 | h)", "y ~ center(x):f + (center(x) | g)"]
# a stateful transform REGISTERED BY THE USER through the public decorator, whose keyword options
# act every time it is applied, not only when its parameters are fitted (eleventh seeded wave, C06_Q:
# keyword arguments no longer passed once `params_set`); registered for the duration of `explore`
USER_CORPUS = ["y ~ clipz_c06(x, clip=1) + f", "y ~ clipz_c06(z, clip=0.5, shift=2):f + (clipz_c06(x, clip=1) | g)",
               "y ~ 0 + h + clipz_c06(x, shift=-1):clipz_c06(z, clip=0.75)",
               "y ~ clipz_c06(x) + (0 + clipz_c06(z, 1.25, shift=0.5) | h)",
               "y ~ center(clipz_c06(x, clip=1)) + clipz_c06(center(x), clip=0.5)"]


def register_user_transform():
    from formulae.transforms import register_stateful_transform

    class ClipZ:
        """(x - median) / spread of the TRAINING column, clipped to [-clip, clip], plus shift"""
        __transform_name__ = "clipz_c06"

        def __init__(self):
            self.params_set = False
            self.median = None
            self.spread = None

        def __call__(self, x, clip=None, shift=0.0):
            x = np.asarray(x, dtype=float)
            if not self.params_set:
                self.median = float(np.median(x))
                self.spread = float(np.max(np.abs(x - self.median))) or 1.0
                self.params_set = True
            out = (x - self.median) / self.spread * 2
            if clip is not None:
                out = np.clip(out, -clip, clip)
            return out + shift
    register_stateful_transform(ClipZ)


KNOT_ATOMS = ["bs(x, knots=kn_x)", "bs(z, knots=kn_z)", "bs(x, knots=kn_x, degree=2)",
              "bs(z, knots=kn_z, degree=1)", "bs(z, knots=kn_z, intercept=True)",
              "bs(x, knots=kn_x, lower_bound=lo_x, upper_bound=hi_x)",
              "bs(z, knots=kn_z, degree=2, lower_bound=lo_z, upper_bound=hi_z)",
              "bs(x, knots=kn_x, lower_bound=lo_x)", "bs(z, knots=kn_z, degree=2, upper_bound=hi_z)",
              "bs(x, knots=kn_x):f", "h:bs(z, knots=kn_z, degree=2)", "bs(x, knots=kn_x, degree=1):z",
              "bs(center(x), knots=kn_cx)", "(0 + bs(x, knots=kn_x) | g)",
              "(bs(z, knots=kn_z, degree=2) | h)", "(bs(x, knots=kn_x, upper_bound=hi_x) | cu)"]


def knot_names(r2, df):
    """interior knots and bounds for the numeric columns of THIS frame: 1-3 knots strictly inside the
    training range (data values or midpoints between them), bounds at or beyond the training
    minimum / maximum"""
    out = {}
    for v, col in (("x", df["x"]), ("z", df["z"]), ("cx", df["x"] - df["x"].mean())):
        vals = sorted(set(float(a) for a in col))
        inner = vals[1:-1] + [(a + b) / 2 for a, b in zip(vals, vals[1:])]
        inner = sorted(set(a for a in inner if vals[0] < a < vals[-1]))
        k = min(len(inner), r2.randrange(1, 4))
        # towards the middle of the range: most sub-frames still enclose them
        mid = inner[len(inner) // 4: max(len(inner) // 4 + k, 3 * len(inner) // 4)] or inner
        out["kn_" + v] = sorted(r2.sample(mid, min(k, len(mid)))) if mid else [(vals[0] + vals[-1]) / 2]
        out["lo_" + v] = vals[0] - r2.choice([0, 0.5, 2])
        out["hi_" + v] = vals[-1] + r2.choice([0, 0.25, 3])
    return out


def interior_rows(df):
    """rows that carry neither the minimum nor the maximum of x or z (fallback: of x alone)"""
    ext = {c: (df[c].min(), df[c].max()) for c in ("x", "z")}
    rows = [i for i in range(len(df))
            if all(df[c].iloc[i] not in ext[c] for c in ("x", "z"))]
    if not rows:
        rows = [i for i in range(len(df)) if df["x"].iloc[i] not in ext["x"]]
    return rows or [0]


EDITS = ["assign", "assign", "loc", "loc", "drop", "sort"]


def plan_history(rh, df, idx_a):
    """-> (edit kind, parameters, idx_b): an in-place edit of a frame that holds rows idx_a of df,
    after which it holds rows idx_b of df"""
    n, m = len(df), len(idx_a)
    kind = rh.choice(EDITS)
    if kind == "drop" and m < 2:
        kind = "assign"
    if kind == "assign":                  # every column assigned anew
        idx_b = [rh.randrange(n) for _ in range(m)]
        if idx_b == idx_a:
            idx_b[0] = (idx_b[0] + 1) % n
        return kind, None, idx_b
    if kind == "loc":                     # some rows overwritten through .loc, column by column
        pos = sorted(rh.sample(range(m), rh.randrange(1, m + 1)))
        idx_b = list(idx_a)
        for p in pos:
            idx_b[p] = (idx_a[p] + rh.randrange(1, n)) % n
        return kind, pos, idx_b
    if kind == "drop":                    # rows dropped in place
        pos = sorted(rh.sample(range(m), rh.randrange(1, m)))
        return kind, pos, [i for p, i in enumerate(idx_a) if p not in pos]
    col, asc = rh.choice(["x", "z", "y"]), rh.random() < 0.5      # sorted in place
    order = list(df[col].iloc[idx_a].reset_index(drop=True).sort_values(kind="stable", ascending=asc).index)
    return kind, (col, asc), [idx_a[p] for p in order]


def apply_history_edit(new, df, kind, par, idx_b):
    """modifies the frame object `new` itself"""
    if kind == "assign":
        for c in df.columns:
            new[c] = df[c].iloc[idx_b].values
    elif kind == "loc":
        labels = [new.index[p] for p in par]
        for c in df.columns:
            new.loc[labels, c] = df[c].iloc[[idx_b[p] for p in par]].values
    elif kind == "drop":
        new.drop(index=[new.index[p] for p in par], inplace=True)
    else:
        new.sort_values(par[0], kind="stable", ascending=par[1], inplace=True)
    return new


def run_history(dm, df, idx_a, kind, par, idx_b):
    """-> {part: {"first": .., "second": ..}} or None when the edit did not produce rows idx_b"""
    import formulae
    new = df.iloc[idx_a].copy()
    new.index = range(500, 500 + len(new))          # unique labels: .loc edits address single rows
    out = {}
    old = formulae.config["EVAL_UNSEEN_CATEGORIES"]
    formulae.config["EVAL_UNSEEN_CATEGORIES"] = "error"

    def ev(obj):
        try:
            with warnings.catch_warnings():
                warnings.simplefilter("ignore")
                return {"matrix": designs.mat(obj.evaluate_new_data(new).design_matrix)}
        except Exception as e:  # noqa
            return {"err": type(e).__name__}
    try:
        parts = [p for p in ("common", "group") if getattr(dm, p) is not None]
        for p in parts:
            out[p] = {"first": ev(getattr(dm, p))}
        apply_history_edit(new, df, kind, par, idx_b)
        try:
            pd.testing.assert_frame_equal(new.reset_index(drop=True),
                                          df.iloc[idx_b].reset_index(drop=True), check_dtype=False,
                                          check_categorical=False)
        except AssertionError:
            return None
        for p in parts:
            out[p]["second"] = ev(getattr(dm, p))
    finally:
        formulae.config["EVAL_UNSEEN_CATEGORIES"] = old
    return out


OP_LEFT = ["f", "g", "h", "cu", "co", "C(k)", "C(f, Sum)", "C(g, Sum)", "S(g)", "T(f, 'b')",
           "C(g, Treatment('v'))", "C(h, Treatment)", "C(cu)", "T(h, 'q')"]
OP_RIGHT_NUM = ["x", "z", "center(x)", "scale(z)", "I(x + 1)", "poly(z, 2)"]
OP_SHAPES = ["{a} / {b}", "{a} / {b}", "{a} / {b}", "{a} / ({b} + {c})", "({a} + {b}) / {c}",
             "{a}:({b} + {c})", "({a} + {b}):{c}", "{a} * {b}", "{a}*({b} + {c})", "({a} + {b})*{c}",
             "({a} + {b} + {c})**2", "{a} / {b} + {c}", "{c} + {a} / {b}"]


def _atom_var(a):
    toks = re.findall(r"[A-Za-z_][A-Za-z_0-9]*", a)
    return next(t for t in toks if t in ("f", "g", "h", "cu", "co", "k", "x", "z"))


def gen_operator_term(ro):
    """a term built by a distributive operator; the left operand (and the first of a summed left
    operand) is categorical, the others categorical or numeric, all over different variables"""
    a = ro.choice(OP_LEFT)
    used = {_atom_var(a)}
    rest = []
    while len(rest) < 2:
        t = ro.choice(OP_RIGHT_NUM) if ro.random() < 0.5 else ro.choice(OP_LEFT)
        if _atom_var(t) not in used:
            used.add(_atom_var(t))
            rest.append(t)
    return ro.choice(OP_SHAPES).format(a=a, b=rest[0], c=rest[1])


DISTURB = [None, None, None, "same-levels", "one-more-level", "one-level-fewer", "relabelled",
           "one-more-level"]


def gen_disturb(rd, kind):
    """another frame for a second design with the same formula text: generated afresh; the levels of
    its categorical columns are the same / extended by one / reduced by one / all different"""
    d = designs.gen_frame(rd).reset_index(drop=True)
    n = len(d)
    if kind == "same-levels":
        return d
    for name in ("f", "g", "h", "yc", "cu", "co", "k", "kz", "one"):
        col = d[name]
        is_cat = isinstance(col.dtype, pd.CategoricalDtype)
        vals = col.tolist()
        levels = list(col.dtype.categories) if is_cat else sorted(set(vals))
        if name in ("k", "kz"):
            new_level = rd.choice([min(levels) - 3, max(levels) + 7, 5])
            relabel = lambda v: v + 100                                   # noqa: E731
        else:
            new_level = rd.choice(["A_new", "zz_new", "n_new"])
            relabel = lambda v: str(v) + "_2"                             # noqa: E731
        if kind == "one-more-level":
            for i in rd.sample(range(n), rd.randrange(1, 3)):
                vals[i] = new_level
            pos = rd.randrange(len(levels) + 1)
            levels = levels[:pos] + [new_level] + levels[pos:]
        elif kind == "one-level-fewer":
            if len(levels) < 2:
                continue
            gone = rd.choice(levels)
            keep = [l for l in levels if l != gone]
            vals = [rd.choice(keep) if v == gone else v for v in vals]
            levels = keep
        else:
            vals = [relabel(v) for v in vals]
            levels = [relabel(v) for v in levels]
        d[name] = pd.Categorical(vals, categories=levels, ordered=bool(col.dtype.ordered)) if is_cat \
            else vals
    return d


def selections(r, n):
    """row selections: single row, subset missing levels, permutation, repetition, shifted range"""
    out = [[r.randrange(n)]]
    out.append(sorted(r.sample(range(n), max(1, n // 3))))
    perm = list(range(n))
    r.shuffle(perm)
    out.append(perm)
    out.append([r.randrange(n) for _ in range(r.randrange(2, n + 3))])
    out.append(list(range(n // 2)))              # first half: different mean / range / level set
    out.append([r.randrange(n)] * 3)
    return out


def gen_formula(r):
    terms = []
    for _ in range(r.randrange(1, 4)):
        t = designs.gen_term(r, extra=True)
        if r.random() < 0.35:
            t = r.choice(STATEFUL)
        if r.random() < 0.12:
            t = r.choice(DEFECT_ATOMS)
        if t not in terms:
            terms.append(t)
    if r.random() < 0.4:
        terms.append(designs.gen_group(r))
    return "y ~ " + r.choice(["", "", "0 + "]) + " + ".join(terms)


def consistent_with(cls, c, obs):
    """Signature of the recorded defects when the exact model is not available for the design:
    D13 and the refusing form of D14 raise ValueError; the silent form of D14 changes only the
    columns of terms that contain a binary()/B() call."""
    if c["err"]:
        return c["err"] == "ValueError"
    if cls != "D14" or c["new"] is None:
        return False
    part = obs[c["part"]]
    want = [part["matrix"][i] for i in c["idx"]]
    bad_cols = {j for rw, rn in zip(want, c["new"]) for j, (a, b) in enumerate(zip(rw, rn))
                if not designs.same([[a]], [[b]], True)}
    if len(want) != len(c["new"]) or any(len(a) != len(b) for a, b in zip(want, c["new"])):
        return False
    allowed = set()
    for name, start, stop in part["slices"]:
        if "binary(" in name or "B(" in name:
            allowed.update(range(start, stop))
    return bad_cols <= allowed


def explore(tier, seed, res=None, replay=None):
    res = res or Result()
    res.rule = ("generated designs (nested / interacting stateful transforms, splines with knots and "
                "bounds from the namespace, C/T/S codings, ordered categoricals, group-specific terms) "
                "x 8 row selections (single row, subset, permutation, repetition, first half, triple, "
                "the rows extreme in neither x nor z, the contents of an edited frame) + one history "
                "per design (a frame object evaluated, edited in place to other training rows, "
                "evaluated again on the same matrix objects); a share of the designs holds a term built "
                "by a distributive operator (/ : * ** over sums) with a categorical left operand, with "
                "and without intercept; for half of the designs a second design with the same formula "
                "text is built on another frame (other levels / level count / labels) before the first "
                "is evaluated on new data; non-trivial = a selection that is not "
                "the identity on a design with a categorical or stateful atom; distinct by (formula, "
                "selection)")
    n_cases = 300 if tier == "quick" else 10000
    cases = []
    if replay is not None:
        cases = [(replay["formula"], replay.get("seed_path", 0))]
    else:
        for f in CORPUS:
            cases.append((f, len(cases)))
        for _ in range(n_cases):
            cases.append((None, len(cases)))
        # (appended after the generated cases: their seed paths stay what they were)
        for f in USER_CORPUS:
            cases.append((f, len(cases)))
    open_ids = {k["id"] for k in known_findings("C06")}
    from formulae.transforms import TRANSFORMS
    register_user_transform()
    try:
        return _explore(tier, seed, res, replay, cases, open_ids)
    finally:
        TRANSFORMS.pop("clipz_c06", None)


def _explore(tier, seed, res, replay, cases, open_ids):
    reqs_spec, reqs_model, reqs_pipe, owners = [], [], [], []
    for f, path in cases:
        r = rng_for(seed, "c06", path)
        df = designs.gen_frame(r)
        formula = f or gen_formula(r)
        res.evaluations += 1
        sels = selections(r, len(df))
        news = [{"df": designs.scramble_index(r, df.iloc[idx]), "mode": "error"} for idx in sels]
        # additions draw from their own generators (the cases above stay what they were; drawn
        # unconditionally so that a replay, which is given the formula, sees the same frames)
        r2 = rng_for(seed, "c06", path, "knots")
        names = dict(designs.NAMES, **knot_names(r2, df))
        u1, a1, u2, a2 = r2.random(), r2.choice(KNOT_ATOMS), r2.random(), r2.choice(KNOT_ATOMS)
        if f is None and u1 < 0.3:
            formula += " + " + a1 + (" + " + a2 if u2 < 0.25 and a2 != a1 else "")
        # operator stage (own stream, drawn unconditionally)
        ro = rng_for(seed, "c06", path, "operators")
        uo, op_term, alone, op_icpt = ro.random(), gen_operator_term(ro), ro.random(), ro.choice(["", "0 + "])
        if f is None and uo < 0.3:
            if alone < 0.4:
                formula = "y ~ " + op_icpt + op_term
            else:
                formula += " + " + op_term
            res.count("designs with a distributive operator over a categorical left operand"
                      + (" (no intercept)" if " ~ 0 + " in formula else " (intercept)"))
        # other-design stage (own stream, drawn unconditionally: a replay builds the same second design)
        rd = rng_for(seed, "c06", path, "other-design")
        dist_kind = rd.choice(DISTURB)
        disturb = gen_disturb(rd, dist_kind) if dist_kind else None
        if dist_kind:
            res.count("second design with the same formula text built first: " + dist_kind)
        if "knots=" in formula:
            res.count("designs with bs(v, knots=<namespace>)"
                      + (" and a written bound" if "_bound" in formula else ""))
        rh = rng_for(seed, "c06", path, "history")
        idx_a = list(sels[rh.choice([1, 3, 3, 5])])
        kind, par, idx_b = plan_history(rh, df, idx_a)
        sels = sels + [interior_rows(df), idx_b]
        news += [{"df": designs.scramble_index(r2, df.iloc[idx]), "mode": "error"} for idx in sels[-2:]]
        obs, req = designs.observe(formula, df, names, news, disturb=disturb)
        case = {"formula": formula, "seed_path": path}
        if dist_kind:
            case["second_design_same_formula_built_first_on"] = "another generated frame, " + dist_kind
        if req is None:
            res.count("impl_error:" + obs["err"])
            continue
        req["names"] = designs.names_json(designs.NAMES)     # (knots / bounds: bs is not in the exact model)
        if any(k in formula for k in ("kn_", "lo_", "hi_")):
            case["names"] = {k: v for k, v in names.items() if k[:3] in ("kn_", "lo_", "hi_")
                             and k in formula}
        checks = []
        for idx, nobs in zip(sels, obs["new"]):
            for part in ("common", "group"):
                if obs.get(part) is None:
                    continue
                new = nobs.get(part) or {}
                checks.append({"part": part, "idx": idx, "train": obs[part]["matrix"],
                               "new": new.get("matrix"), "err": new.get("err")})
        # history: one frame object, evaluated / edited in place / evaluated again
        hist = run_history(obs["_dm"], df, idx_a, kind, par, idx_b)
        if hist is None:
            res.count("history_skipped:the edit did not produce the planned rows")
        else:
            res.count("histories:" + kind)
            for part, h in hist.items():
                fresh = (obs["new"][-1].get(part) or {})
                for when, idx in (("first", idx_a), ("second", idx_b)):
                    checks.append({"part": part, "idx": idx, "train": obs[part]["matrix"],
                                   "new": h[when].get("matrix"), "err": h[when].get("err"),
                                   "history": {"frame_holds_rows": idx_a, "edit": kind,
                                               "then_holds_rows": idx_b, "call": when},
                                   "fresh": fresh if when == "second" else None})
        reqs_spec.append({"op": "c06_spec", "formula": formula, "frame": req["frame"],
                          "names": req["names"],
                          "checks": [{k: c[k] for k in ("idx", "train", "new")} for c in checks]})
        reqs_model.append(req)
        # the whole pipeline in Lean on formula + data alone, training and prediction
        reqs_pipe.append({"op": "pipeline", "formula": formula, "frame": designs.frame_json(df),
                          "names": designs.names_json(designs.NAMES), "na_action": "drop",
                          "new": req["new"]})
        owners.append((case, obs, checks))
        res.nontrivial.update((formula, tuple(idx)) for idx in sels[:4])
        if len(res.samples) < 5:
            res.samples.append({"formula": formula, "selection": sels[1]})
    spec = ask(reqs_spec, chunk=1000)      # (bounded request size: every check carries its training matrix)
    model = ask(reqs_model)
    for (case, obs, _), po in zip(owners, ask(reqs_pipe)):
        if "err" in po:
            res.count("pipeline_skip:" + po["err"])
            continue
        res.count("pipeline_compared")
        d = designs.compare(obs, po)
        if d:
            res.mismatches.append({"case": case, "diff": ["pipeline:" + x for x in d[:5]]})
    for (case, obs, checks), sp, mo in zip(owners, spec, model):
        model_ok = "err" not in mo
        diffs = designs.compare(obs, mo) if model_ok else None
        if model_ok:
            res.traces += 1
            if diffs:
                res.mismatches.append({"case": case, "diff": diffs[:5]})
        else:
            res.count("model_skip:" + mo["err"])
        if "err" in sp:
            res.count("spec_skip:" + sp["err"])
            continue
        for c, v in zip(checks, sp["checks"]):
            res.count("row_identities_checked")
            if v["holds"]:
                continue
            if c.get("history"):
                # judged by the same relation; the same failure on a fresh frame with the same
                # contents (recorded classes) has been reported by the selection stage already
                fresh = c.get("fresh")
                if c["history"]["call"] == "first":
                    fresh = next((k for k in checks if not k.get("history") and k["part"] == c["part"]
                                  and k["idx"] == c["idx"]), None)
                    fresh = fresh and {"matrix": fresh["new"], "err": fresh["err"]}
                if fresh and ((c["err"] and c["err"] == fresh.get("err")) or (
                        not c["err"] and fresh.get("matrix") is not None
                        and designs.same(c["new"], fresh["matrix"], True))):
                    res.count("history_failure_same_as_on_a_fresh_frame (reported there)")
                    continue
                res.failures.append({
                    "case": dict(case, part=c["part"], history=c["history"]),
                    "impl": {"error": c["err"]} if c["err"] else {"rows": "differ"},
                    "expected": "the training rows of the frame's contents at the time of the call",
                    "classes": v["classes"], "finding": None,
                    "why": f"{c['part']}.evaluate_new_data, {c['history']['call']} call on a frame "
                           f"object edited in place ({c['history']['edit']}): "
                           + (f"raised {c['err']}" if c["err"] else "differs from the training rows "
                              f"{c['idx'][:8]} it holds")})
                continue
            fid = None
            for cls in v["classes"]:
                k = f"KF-C06-{cls}"
                if k not in open_ids:
                    continue
                if model_ok:
                    # known only if the model (which mirrors the defect) predicts the same output
                    if not diffs:
                        fid = k
                        break
                elif consistent_with(cls, c, obs):
                    # design outside the exact model: the failure must have the defect's signature
                    fid = k
                    break
            if fid:
                res.known_hit[fid] = res.known_hit.get(fid, 0) + 1
            res.failures.append({"case": dict(case, part=c["part"], idx=c["idx"]),
                                 "impl": {"error": c["err"]} if c["err"] else {"rows": "differ"},
                                 "expected": "the selected rows of the training matrix",
                                 "classes": v["classes"], "finding": fid,
                                 "why": f"{c['part']}.evaluate_new_data on rows {c['idx'][:8]} "
                                        + (f"raised {c['err']}" if c["err"] else
                                           "differs from the training rows")})
    return res
