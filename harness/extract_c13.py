"""Translator part for C13 (ENCODINGS registry, signatures of Treatment/Sum/C/T/S, coded defaults)."""
import ast
import os
import sys
import inspect  # noqa: F401

from extract_tables import _src, _strip_doc, _methods, _self_call, REPO  # noqa: F401

# ------------------------------------------------------------------------------------------------
# C13: contrast codings — registry, signatures, default reference / omitted level
# ------------------------------------------------------------------------------------------------
def _lean_str(s):
    import json
    return json.dumps(str(s), ensure_ascii=True)


def extract_coding():
    """ENCODINGS keys, the objects behind C/T/S/Treatment/Sum in the formula namespace, the
    parameters and defaults of Treatment/Sum/C/T/S (inspect.signature on the live objects), and the
    defaults written in the code: `reference = 0` when `self.reference is None`
    (Treatment.code_without_intercept) and `return len(levels) - 1` when `self.omit is None`
    (Sum._omit_index), by `ast`."""
    res = dict(encodings=[], registry=[], signatures=[], default_reference=None,
               default_omit="", ok=True, why=[])

    def bad(msg):
        res["ok"] = False
        res["why"].append(msg)

    try:
        if REPO not in sys.path:
            sys.path.insert(0, REPO)
        import importlib
        import inspect
        cat = importlib.import_module("formulae.categorical")
        tr = importlib.import_module("formulae.transforms")
        res["encodings"] = [str(k) for k in cat.ENCODINGS]

        def ident(o):
            return f"{getattr(o, '__module__', '?')}.{getattr(o, '__qualname__', '?')}"

        for name in ("C", "S", "T"):
            if name in tr.TRANSFORMS:
                res["registry"].append((name, ident(tr.TRANSFORMS[name])))
            else:
                bad(f"TRANSFORMS has no {name}")
        for name in sorted(cat.ENCODINGS):
            res["registry"].append((name, ident(cat.ENCODINGS[name])))

        def params(fn, drop_self=False):
            ps = list(inspect.signature(fn).parameters.values())
            if drop_self:
                ps = ps[1:]
            out = []
            for q in ps:
                if q.kind not in (q.POSITIONAL_OR_KEYWORD,):
                    bad(f"{fn}: parameter {q.name} of kind {q.kind}")
                out.append((q.name, "<required>" if q.default is q.empty else repr(q.default)))
            return out

        for name in ("Treatment", "Sum"):
            cls = getattr(cat, name, None)
            if cls is None:
                bad(f"categorical.{name} missing")
                continue
            res["signatures"].append((name, params(cls.__init__, drop_self=True)))
        for name in ("C", "T", "S"):
            fn = getattr(tr, name, None)
            if fn is None:
                bad(f"transforms.{name} missing")
                continue
            res["signatures"].append((name, params(fn)))
    except Exception as e:  # noqa
        bad(f"cannot import formulae.categorical / transforms: {e!r}")

    try:
        tree = _src("formulae/categorical.py")
        m = _methods(tree, "Treatment").get("code_without_intercept")
        found = None
        for node in ast.walk(m) if m else []:
            if (isinstance(node, ast.If) and isinstance(node.test, ast.Compare)
                    and ast.unparse(node.test) == "self.reference is None" and len(node.body) == 1
                    and isinstance(node.body[0], ast.Assign)
                    and ast.unparse(node.body[0].targets[0]) == "reference"
                    and isinstance(node.body[0].value, ast.Constant)
                    and isinstance(node.body[0].value.value, int)
                    and node.body[0].value.value >= 0):
                found = node.body[0].value.value
        if found is None:
            bad("Treatment.code_without_intercept: no `if self.reference is None: reference = <int>`")
        res["default_reference"] = found
        m = _methods(tree, "Sum").get("_omit_index")
        found = None
        for node in ast.walk(m) if m else []:
            if (isinstance(node, ast.If) and ast.unparse(node.test) == "self.omit is None"):
                rets = [n for n in node.body if isinstance(n, ast.Return)]
                if len(rets) == 1 and rets[0].value is not None:
                    found = ast.unparse(rets[0].value)
        if found is None:
            bad("Sum._omit_index: no `if self.omit is None: return <expr>`")
        res["default_omit"] = found or ""
    except Exception as e:  # noqa
        bad(f"cannot analyse categorical.py: {e!r}")
    return res


def lean_coding_tables(c):
    def pairs(ps):
        return "[" + ", ".join(f"({_lean_str(a)}, {_lean_str(b)})" for a, b in ps) + "]"

    sigs = ",\n   ".join(f"({_lean_str(n)}, {pairs(ps)})" for n, ps in c["signatures"])
    dref = "none" if c["default_reference"] is None else f"some {c['default_reference']}"
    why = "".join(f"\n-- shape: {w}" for w in c["why"])
    return f"""def encodingsKeys : List String := [{", ".join(_lean_str(k) for k in c['encodings'])}]

def codingRegistry : List (String × String) := {pairs(c['registry'])}

def codingSignatures : List (String × List (String × String)) :=
  [{sigs}]

def treatmentDefaultReference : Option Nat := {dref}

def sumDefaultOmit : String := {_lean_str(c['default_omit'])}

def codingShapeOk : Bool := {'true' if c['ok'] else 'false'}{why}
"""
