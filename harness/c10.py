"""C10 — unseen levels and new groups at prediction follow the configured policy; the
configuration accepts only its documented keys and values."""
import warnings

import numpy as np
import pandas as pd

import designs
from common import Result, ask, rng_for, known_findings

ASSUMPTIONS = [
    "the zero-row rule, the new-group rule, factors_with_new_levels, the slice bookkeeping and the "
    "raise/warn policy (Spec.C10) are evaluated by the Lean driver on pairs of real evaluations: the "
    "new frame, and the reference frame in which every unseen value is replaced by a seen one",
    "which variables a column involves is taken from the term objects' var_names (C09 checks those)",
    "about half of the new frames hand some used string / categorical columns over with pandas "
    "'category' dtype declaring categories that no row has (absent training levels and labels unknown "
    "to training, shuffled; `co` ordered or not): 'unseen' is decided from the values present in the "
    "rows, so such a frame must behave like the plain-object reference frame (no raise / no warning "
    "when no row is unseen)",
    "missing values (None / NaN) in categorical columns of NEW data are not generated: the statement "
    "speaks of levels absent in training and does not settle whether a missing value is one (the "
    "unchanged library treats it as an unseen level: raises in 'error', zero row / appended group "
    "otherwise)",
]
TRUSTED = ["pandas Categorical(x, categories=...).codes == -1 for unseen values (modelled by isUnseen)"]

CAT_VARS = ["f", "g", "h", "cu", "co", "k"]
CORPUS = ["y ~ f + x", "y ~ f:x + g", "y ~ f:g", "y ~ (1 | g)", "y ~ (x | g) + (1 | h)", "y ~ (f | g)",
          "y ~ (x | g:h)", "y ~ x + (1 | g) + (z | g) + (1 | cu)", "y ~ C(k) + (x | k)",
          "y ~ co + (0 + f | co)", "y ~ T(f, 'b'):x + (center(x) | h)", "y ~ S(g) + f"]


def gen_formula(r):
    terms = []
    for _ in range(r.randrange(1, 4)):
        t = designs.gen_term(r, extra=(r.random() < 0.2))
        if "levels=" in t or "C(co)" in t:
            continue          # D13 class: belongs to C06
        if t not in terms:
            terms.append(t)
    if r.random() < 0.65:
        terms.append(designs.gen_group(r))
        if r.random() < 0.4:
            terms.append(designs.gen_group(r))
    if not terms:
        terms = ["f"]
    return "y ~ " + r.choice(["", "", "0 + "]) + " + ".join(terms)


DECLARABLE = ["f", "g", "h", "cu", "co"]      # string / categorical columns (k holds integers)


def make_new(r, df, used):
    """rows of the training frame with unseen values placed in some used categorical variables;
    in about half of the frames some used categorical columns are handed over with pandas
    'category' dtype DECLARING categories no row has (training levels that do not occur, and labels
    absent from training: a filtered slice of a bigger frame) -- the policy is about the values
    present in the rows, not about the declared categories.
    returns (new frame, reference frame, {row: [vars]}, {var: [declared unused labels]})"""
    idx = [r.randrange(len(df)) for _ in range(r.randrange(2, 8))]
    nd = df.iloc[idx].reset_index(drop=True).copy()
    for c in CAT_VARS:
        if c in nd.columns and isinstance(nd[c].dtype, pd.CategoricalDtype):
            nd[c] = nd[c].astype(object)
    ref = nd.copy()
    cands = [v for v in CAT_VARS if v in used]
    rows = {}
    if cands and r.random() < 0.85:
        for v in r.sample(cands, r.randrange(1, min(3, len(cands)) + 1)):
            for k in r.sample(range(len(nd)), r.randrange(1, max(2, len(nd) // 2))):
                if v == "k":
                    nd.loc[k, v] = 99
                else:
                    nd[v] = nd[v].astype(object)
                    nd.loc[k, v] = "NEW_" + v
                rows.setdefault(k, []).append(v)
    declared = {}
    r2 = rng_for(r.random(), "declared")       # one draw from the case's stream
    dcands = [v for v in DECLARABLE if v in used]
    if dcands and r2.random() < 0.5:
        for v in r2.sample(dcands, r2.randrange(1, len(dcands) + 1)):
            present = list(dict.fromkeys(nd[v].tolist()))
            absent = [l for l in designs.LV[v] if l not in present and r2.random() < 0.5]
            extras = ["EXTRA_" + v] + (["ZZ_" + v] if r2.random() < 0.3 else [])
            cats = present + absent + extras
            r2.shuffle(cats)
            # `co` was an ordered categorical in training; the new column may or may not be
            nd[v] = pd.Categorical(nd[v].tolist(), categories=cats,
                                   ordered=(v == "co" and r2.random() < 0.5))
            declared[v] = extras
    # row labels must not matter: same (possibly permuted / non-unique) index on both frames
    nd = designs.scramble_index(r, nd)
    ref.index = nd.index
    return nd, ref, rows, declared


def evaluate(obj, nd, mode):
    import formulae
    old = formulae.config["EVAL_UNSEEN_CATEGORIES"]
    # a sequence of mode changes: the last one must be the one in force
    for m in ("silent", "error", mode):
        formulae.config["EVAL_UNSEEN_CATEGORIES"] = m
    try:
        with warnings.catch_warnings(record=True) as w:
            warnings.simplefilter("always")
            new = obj.evaluate_new_data(nd)
        return new, None, designs.formulae_warned(w)
    except Exception as e:  # noqa
        return None, type(e).__name__, False
    finally:
        formulae.config["EVAL_UNSEEN_CATEGORIES"] = old


def outcome(t):
    new, err, warn = t
    return (err, warn, None if new is None else designs.mat(new.design_matrix),
            None if new is None else list(getattr(new, "factors_with_new_levels", ())))


def explore(tier, seed, res=None, replay=None):
    import formulae
    from formulae.terms import Intercept
    res = res or Result()
    res.rule = ("generated designs x placements of unseen values in predictor / effect / grouping "
                "variables (incl. one factor of an interaction), new columns of object dtype or of category "
                "dtype declaring unused categories, x 3 modes set through a sequence of "
                "config changes, the same frame object evaluated again in the opposite order of "
                "modes and after an in-place edit; non-trivial = a case with at least one unseen value; distinct by "
                "(formula, placement, mode)")
    n_cases = 300 if tier == "quick" else 8000
    cases = []
    if replay is not None:
        cases = [(replay["formula"], replay.get("seed_path", 0))]
    else:
        for f in CORPUS:
            cases.append((f, len(cases)))
        for _ in range(n_cases):
            cases.append((None, len(cases)))
    reqs, owners = [], []
    model_reqs, model_owners = [], []
    for f, path in cases:
        r = rng_for(seed, "c10", path)
        df = designs.gen_frame(r)
        formula = f or gen_formula(r)
        res.evaluations += 1
        obs, req0 = designs.observe(formula, df, designs.NAMES)
        if req0 is None:
            res.count("impl_error:" + obs["err"])
            continue
        dm = obs["_dm"]
        used = set(dm.model.var_names)
        nd, ref, rows, declared = make_new(r, df, used)
        # the evaluation model on the same new frame under the three policies
        obs_m, req_m = designs.observe(formula, df, designs.NAMES,
                                       [{"df": nd, "mode": m} for m in ("error", "warning", "silent")])
        if req_m is not None:
            model_reqs.append(req_m)
            model_owners.append(({"formula": formula, "seed_path": path}, obs_m))
        for mode in ("error", "warning", "silent"):
            case = {"formula": formula, "seed_path": path, "mode": mode,
                    "unseen": {str(k): v for k, v in rows.items()}}
            if declared:
                case["declared_unused_categories"] = declared
                res.count("evaluations_on_frames_declaring_unused_categories"
                          + ("" if rows else "_and_no_unseen_row"))
            req = {"op": "c10_spec", "mode": mode}
            if dm.common is not None:
                terms = list(dm.common.terms.values())
                col_vars = []
                for t in terms:
                    w = dm.common.slices[t.name].stop - dm.common.slices[t.name].start
                    col_vars += [sorted(t.var_names)] * w
                cvars = set().union(*[set(t.var_names) for t in terms])
                row_unseen = [[v for v in rows.get(k, []) if v in cvars] for k in range(len(nd))]
                new, err, warn = evaluate(dm.common, nd, mode)
                refm, rerr, _ = evaluate(dm.common, ref, "error")
                req["common"] = {"ref": None if refm is None else designs.mat(refm.design_matrix),
                                 "new": None if new is None else designs.mat(new.design_matrix),
                                 "err": err, "warn": warn, "col_vars": col_vars,
                                 "row_unseen": row_unseen, "any_unseen": any(row_unseen),
                                 "ref_err": rerr}
            if dm.group is not None:
                terms = list(dm.group.terms.values())
                gvars = set().union(*[set(t.var_names) for t in terms])
                any_unseen = any(v in gvars for vs in rows.values() for v in vs)
                new, err, warn = evaluate(dm.group, nd, mode)
                refm, rerr, _ = evaluate(dm.group, ref, "error")
                tlist = []
                for t in terms:
                    fv = set(t.factor.var_names)
                    ev = set() if isinstance(t.expr, Intercept) else set(t.expr.var_names)
                    sl = dm.group.slices[t.name]
                    p = (sl.stop - sl.start) // max(1, len(t.groups))
                    tlist.append({
                        "name": t.name, "factor": t.factor.name, "p": p,
                        "row_new": [any(v in fv for v in rows.get(k, [])) for k in range(len(nd))],
                        "row_eff": [any(v in ev for v in rows.get(k, [])) for k in range(len(nd))],
                        "ref": None if refm is None else designs.mat(refm[t.name]),
                        "new": None if new is None else designs.mat(new[t.name])})
                req["group"] = {
                    "terms": tlist, "err": err, "warn": warn, "any_unseen": any_unseen,
                    "factors_with_new_levels": [] if new is None else list(new.factors_with_new_levels),
                    "slices": [] if new is None else [[k, s.start, s.stop] for k, s in new.slices.items()],
                    "ncols": 0 if new is None else int(new.design_matrix.shape[1]), "ref_err": rerr}
            reqs.append(req)
            owners.append(case)
            if rows:
                res.nontrivial.add((formula, path, mode))
        # the policy is applied at EVERY evaluation: the same frame object evaluated again in the
        # opposite order of modes, and after an in-place edit, must behave like a fresh evaluation
        for part in ("common", "group"):
            obj = getattr(dm, part)
            if obj is None:
                continue
            first = {m: outcome(evaluate(obj, nd, m)) for m in ("error", "warning", "silent")}
            again = {m: outcome(evaluate(obj, nd, m)) for m in ("silent", "warning", "error")}
            res.count("re-evaluations")
            for m in first:
                if first[m] != again[m]:
                    res.failures.append({
                        "case": {"formula": formula, "seed_path": path, "mode": m, "part": part,
                                 "history": "error, warning, silent, silent, warning, error"},
                        "impl": {"first": first[m][:2], "again": again[m][:2]},
                        "expected": "the same outcome", "finding": None,
                        "why": f"{part}: evaluating the same new frame again under '{m}' after other "
                               "modes gives another outcome (policy not applied at every evaluation)"})
            edited = nd                                   # the same object, edited in place
            for v in used & set(nd.columns):
                edited[v] = list(reversed(edited[v].tolist()))
            inplace = outcome(evaluate(obj, edited, "silent"))
            fresh = outcome(evaluate(obj, edited.copy(deep=True), "silent"))
            if inplace != fresh:
                res.failures.append({
                    "case": {"formula": formula, "seed_path": path, "mode": "silent", "part": part,
                             "history": "frame edited in place between two evaluations"},
                    "impl": {"in_place": inplace[:2], "fresh_copy": fresh[:2]},
                    "expected": "the same outcome", "finding": None,
                    "why": f"{part}: a frame edited in place is evaluated as it was before the edit"})
        if len(res.samples) < 5:
            res.samples.append({"formula": formula, "unseen": {str(k): v for k, v in rows.items()}})
    out = ask(reqs)
    for case, req, sp in zip(owners, reqs, out):
        for part in ("common", "group"):
            v = sp.get(part)
            if v is None:
                continue
            if req[part].get("ref_err"):
                res.count("reference_evaluation_failed:" + req[part]["ref_err"])
                continue
            res.count(f"{part}_evaluations")
            bad = [k for k, ok in v.items() if k.endswith("_ok") and not ok]
            if bad:
                res.failures.append({
                    "case": case, "impl": {"part": part, "err": req[part]["err"],
                                           "warn": req[part]["warn"],
                                           "factors": req[part].get("factors_with_new_levels")},
                    "expected": v.get("expected_factors"), "finding": None,
                    "why": f"{part}: " + ", ".join(b[:-3] for b in bad) + " violated"})
    for (case, obs_m), mo in zip(model_owners, ask(model_reqs)):
        if "err" in mo:
            res.count("model_skip:" + mo["err"])
            continue
        res.traces += 1
        diffs = designs.compare(obs_m, mo)
        if diffs:
            res.mismatches.append({"case": case, "diff": diffs[:5]})
    # configuration: exhaustive over a small key / value grid against the model
    keys = ["EVAL_UNSEEN_CATEGORIES", "eval_unseen_categories", "UNKNOWN", ""]
    vals = ["error", "warning", "silent", "Error", "ignore", "", "raise"]
    creqs = [{"op": "c10_config", "key": k, "value": v} for k in keys for v in vals]
    cout = ask(creqs)
    old = formulae.config["EVAL_UNSEEN_CATEGORIES"]
    for rq, mo in zip(creqs, cout):
        res.evaluations += 1
        res.traces += 1
        try:
            formulae.config[rq["key"]] = rq["value"]
            io = {"ok": True, "value": formulae.config[rq["key"]]}
        except Exception as e:  # noqa
            io = {"err": type(e).__name__}
        finally:
            formulae.config["EVAL_UNSEEN_CATEGORIES"] = old
        if io != mo:
            res.mismatches.append({"case": rq, "impl": io, "model": mo})
        documented = rq["key"] == "EVAL_UNSEEN_CATEGORIES" and rq["value"] in ("error", "warning",
                                                                               "silent")
        if documented != ("ok" in io):
            res.failures.append({"case": rq, "impl": io, "finding": None,
                                 "expected": "accepted" if documented else "refused",
                                 "why": "configuration accepts / refuses an undocumented / documented "
                                        "key or value"})
    default = type(formulae.config)()["EVAL_UNSEEN_CATEGORIES"]
    if default != "error":
        res.failures.append({"case": {"config": "default"}, "impl": default, "expected": "error",
                             "finding": None, "why": "default mode is not 'error'"})
    return res
