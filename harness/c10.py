"""C10 — unseen levels and new groups at prediction follow the configured policy; the
configuration accepts only its documented keys and values."""
import json
import warnings

import numpy as np
import pandas as pd

import designs
from common import Result, ask, rng_for, known_findings

ASSUMPTIONS = [
    "the zero-row rule, the new-group rule, factors_with_new_levels, the slice bookkeeping and the "
    "raise/warn policy (Spec.C10) are evaluated by the Lean driver on pairs of real evaluations: the "
    "new frame, and the reference frame in which every unseen value is replaced by a seen one",
    "which variables a column involves is taken from the term objects' var_names (C09 checks those)",
    "about half of the new frames hand some used string / categorical columns over with pandas "
    "'category' dtype declaring categories that no row has (absent training levels and labels unknown "
    "to training, shuffled; `co` ordered or not): 'unseen' is decided from the values present in the "
    "rows, so such a frame must behave like the plain-object reference frame (no raise / no warning "
    "when no row is unseen)",
    "re-evaluations on one design object: the policy verdict of Spec.C10 is a function of (mode, what "
    "the evaluation returned / raised / warned, the frame, the reference evaluation); an evaluation "
    "whose observation is identical to one already sent to the driver for the same mode is not sent "
    "again (it is counted)",
    "configuration histories run on the process-global formulae.config, starting from the default "
    "value; the Lean model (Config.set folded over the sequence, Driver op c10_config_seq) keeps the "
    "previous state on a refused assignment; predictions after an assignment are judged under the "
    "mode the model says is in force",
    "two configuration objects: histories also interleave operations on a SECOND Config instance "
    "(Config(), Config({key: value}) with documented and undocumented values, item / attribute "
    "assignment on it, before and after assignments to the global object) with assignments to the "
    "global formulae.config; the Lean model of the global object (c10_config_seq) is folded over the "
    "assignments to the global object only, the value in force is read back after every operation on "
    "the other instance and a prediction with unseen values follows each of them, judged by Spec.C10 "
    "under the mode that model says is in force; the other instance is compared with the same model "
    "folded over its own assignments",
    "missing values (None / NaN) in categorical columns of NEW data are not generated: the statement "
    "speaks of levels absent in training and does not settle whether a missing value is one (the "
    "unchanged library treats it as an unseen level: raises in 'error', zero row / appended group "
    "otherwise)",
]
TRUSTED = ["pandas Categorical(x, categories=...).codes == -1 for unseen values (modelled by isUnseen)"]

CAT_VARS = ["f", "g", "h", "cu", "co", "k"]
CORPUS = ["y ~ f + x", "y ~ f:x + g", "y ~ f:g", "y ~ (1 | g)", "y ~ (x | g) + (1 | h)", "y ~ (f | g)",
          "y ~ (x | g:h)", "y ~ x + (1 | g) + (z | g) + (1 | cu)", "y ~ C(k) + (x | k)",
          "y ~ co + (0 + f | co)", "y ~ T(f, 'b'):x + (center(x) | h)", "y ~ S(g) + f"]


def gen_formula(r):
    terms = []
    for _ in range(r.randrange(1, 4)):
        t = designs.gen_term(r, extra=(r.random() < 0.2))
        if "levels=" in t or "C(co)" in t:
            continue          # D13 class: belongs to C06
        if t not in terms:
            terms.append(t)
    if r.random() < 0.65:
        terms.append(designs.gen_group(r))
        if r.random() < 0.4:
            terms.append(designs.gen_group(r))
    if not terms:
        terms = ["f"]
    return "y ~ " + r.choice(["", "", "0 + "]) + " + ".join(terms)


DECLARABLE = ["f", "g", "h", "cu", "co"]      # string / categorical columns (k holds integers)


def make_new(r, df, used):
    """rows of the training frame with unseen values placed in some used categorical variables;
    in about half of the frames some used categorical columns are handed over with pandas
    'category' dtype DECLARING categories no row has (training levels that do not occur, and labels
    absent from training: a filtered slice of a bigger frame) -- the policy is about the values
    present in the rows, not about the declared categories.
    returns (new frame, reference frame, {row: [vars]}, {var: [declared unused labels]})"""
    idx = [r.randrange(len(df)) for _ in range(r.randrange(2, 8))]
    nd = df.iloc[idx].reset_index(drop=True).copy()
    for c in CAT_VARS:
        if c in nd.columns and isinstance(nd[c].dtype, pd.CategoricalDtype):
            nd[c] = nd[c].astype(object)
    ref = nd.copy()
    cands = [v for v in CAT_VARS if v in used]
    rows = {}
    # now and then the unseen value is a FALSY one (the integer id 0, the empty string): a level like
    # any other (eleventh seeded wave, C10_Q: "no unseen level" tested by truthiness); own stream,
    # derived from the rows drawn so far, so that the other draws stay those of earlier runs
    rf = rng_for(len(df), tuple(idx), "falsy-unseen")
    if cands and r.random() < 0.85:
        for v in r.sample(cands, r.randrange(1, min(3, len(cands)) + 1)):
            falsy = rf.random() < 0.3
            for k in r.sample(range(len(nd)), r.randrange(1, max(2, len(nd) // 2))):
                if v == "k":
                    nd.loc[k, v] = 0 if falsy else 99
                else:
                    nd[v] = nd[v].astype(object)
                    nd.loc[k, v] = "" if falsy else "NEW_" + v
                rows.setdefault(k, []).append(v)
    declared = {}
    r2 = rng_for(r.random(), "declared")       # one draw from the case's stream
    dcands = [v for v in DECLARABLE if v in used]
    if dcands and r2.random() < 0.5:
        for v in r2.sample(dcands, r2.randrange(1, len(dcands) + 1)):
            present = list(dict.fromkeys(nd[v].tolist()))
            absent = [l for l in designs.LV[v] if l not in present and r2.random() < 0.5]
            extras = ["EXTRA_" + v] + (["ZZ_" + v] if r2.random() < 0.3 else [])
            cats = present + absent + extras
            r2.shuffle(cats)
            # `co` was an ordered categorical in training; the new column may or may not be
            nd[v] = pd.Categorical(nd[v].tolist(), categories=cats,
                                   ordered=(v == "co" and r2.random() < 0.5))
            declared[v] = extras
    # row labels must not matter: same (possibly permuted / non-unique) index on both frames
    nd = designs.scramble_index(r, nd)
    ref.index = nd.index
    return nd, ref, rows, declared


def evaluate(obj, nd, mode):
    import formulae
    old = formulae.config["EVAL_UNSEEN_CATEGORIES"]
    # a sequence of mode changes: the last one must be the one in force
    for m in ("silent", "error", mode):
        formulae.config["EVAL_UNSEEN_CATEGORIES"] = m
    try:
        with warnings.catch_warnings(record=True) as w:
            warnings.simplefilter("always")
            new = obj.evaluate_new_data(nd)
        return new, None, designs.formulae_warned(w)
    except Exception as e:  # noqa
        return None, type(e).__name__, False
    finally:
        formulae.config["EVAL_UNSEEN_CATEGORIES"] = old


def common_request(dm, nd, rows, ev, refm, rerr):
    """the part of a c10_spec request that speaks about one evaluation `ev` = (new, err, warn) of
    the common matrix on `nd` (refm / rerr: the evaluation of the reference frame)"""
    terms = list(dm.common.terms.values())
    col_vars = []
    for t in terms:
        w = dm.common.slices[t.name].stop - dm.common.slices[t.name].start
        col_vars += [sorted(t.var_names)] * w
    cvars = set().union(*[set(t.var_names) for t in terms])
    row_unseen = [[v for v in rows.get(k, []) if v in cvars] for k in range(len(nd))]
    new, err, warn = ev
    return {"ref": None if refm is None else designs.mat(refm.design_matrix),
            "new": None if new is None else designs.mat(new.design_matrix),
            "err": err, "warn": warn, "col_vars": col_vars,
            "row_unseen": row_unseen, "any_unseen": any(row_unseen), "ref_err": rerr}


def group_request(dm, nd, rows, ev, refm, rerr):
    """the same for the group-specific matrix"""
    from formulae.terms import Intercept
    terms = list(dm.group.terms.values())
    gvars = set().union(*[set(t.var_names) for t in terms])
    any_unseen = any(v in gvars for vs in rows.values() for v in vs)
    new, err, warn = ev
    tlist = []
    for t in terms:
        fv = set(t.factor.var_names)
        ev_ = set() if isinstance(t.expr, Intercept) else set(t.expr.var_names)
        sl = dm.group.slices[t.name]
        p = (sl.stop - sl.start) // max(1, len(t.groups))
        tlist.append({
            "name": t.name, "factor": t.factor.name, "p": p,
            "row_new": [any(v in fv for v in rows.get(k, [])) for k in range(len(nd))],
            "row_eff": [any(v in ev_ for v in rows.get(k, [])) for k in range(len(nd))],
            "ref": None if refm is None else designs.mat(refm[t.name]),
            "new": None if new is None else designs.mat(new[t.name])})
    return {
        "terms": tlist, "err": err, "warn": warn, "any_unseen": any_unseen,
        "factors_with_new_levels": [] if new is None else list(new.factors_with_new_levels),
        "slices": [] if new is None else [[k, s.start, s.stop] for k, s in new.slices.items()],
        "ncols": 0 if new is None else int(new.design_matrix.shape[1]), "ref_err": rerr}


PART_REQUEST = {"common": common_request, "group": group_request}


def outcome(t):
    new, err, warn = t
    return (err, warn, None if new is None else designs.mat(new.design_matrix),
            None if new is None else list(getattr(new, "factors_with_new_levels", ())))


MODE_KEY = "EVAL_UNSEEN_CATEGORIES"
DOCUMENTED = ("error", "warning", "silent")
CFG_KEYS = [MODE_KEY, "eval_unseen_categories", "UNKNOWN", ""]
CFG_VALS = ["error", "warning", "silent", "Error", "ignore", "", "raise", "anything"]
CONFIG_FORMULAS = ["y ~ f + x + (1 | g)", "y ~ 0 + g:x + (z | h)", "y ~ cu + (x | f)"]


def is_documented(key, value):
    return key == MODE_KEY and value in DOCUMENTED


def config_sequences(seed, tier):
    """sequences of assignments [(style, key, value)]: every documented mode in force followed by
    every refused (key, value) of the grid in both spellings (exhaustive), and drawn longer
    sequences mixing accepted and refused assignments"""
    seqs = []
    for m in DOCUMENTED:
        for k in CFG_KEYS:
            for v in CFG_VALS:
                if not is_documented(k, v):
                    for style in ("item", "attr"):
                        seqs.append([("item", MODE_KEY, m), (style, k, v)])
    for i in range(80 if tier == "quick" else 3000):
        r = rng_for(seed, "c10", "config-seq", i)
        steps = []
        for _ in range(r.randrange(2, 7)):
            if r.random() < 0.5:
                k, v = MODE_KEY, r.choice(DOCUMENTED)
            else:
                k, v = r.choice(CFG_KEYS[:2] if r.random() < 0.8 else CFG_KEYS), r.choice(CFG_VALS)
            steps.append((r.choice(("item", "attr")), k, v))
        seqs.append(steps)
    return seqs


OTHER_STYLES = ("new", "new_dict", "oitem", "oattr")


def two_object_sequences(seed, tier):
    """sequences in which operations on a SECOND Config instance are interleaved with assignments to
    the global one.  Styles: `new` = Config(), `new_dict` = Config({key: value}), `oitem` / `oattr`
    = assignment on the most recent other instance (created by Config() if there is none yet).
    Exhaustive: every global mode in force x every single operation on another instance (each
    documented value and two undocumented ones), with and without a later global assignment; and
    drawn longer mixtures."""
    seqs = []
    vals = list(DOCUMENTED) + ["Error", "anything"]
    for m in DOCUMENTED:
        g = ("item", MODE_KEY, m)
        seqs.append([g, ("new", "", "")])
        for v in vals:
            seqs.append([g, ("new_dict", MODE_KEY, v)])
            for style in ("oitem", "oattr"):
                seqs.append([g, ("new", "", ""), (style, MODE_KEY, v)])
                # the other instance exists BEFORE the global assignment
                seqs.append([("new", "", ""), g, (style, MODE_KEY, v)])
        seqs.append([("new_dict", MODE_KEY, "silent"), g, ("oitem", "UNKNOWN", m)])
    for i in range(60 if tier == "quick" else 2000):
        r = rng_for(seed, "c10", "two-config-seq", i)
        steps = []
        for _ in range(r.randrange(2, 8)):
            u = r.random()
            if u < 0.4:
                steps.append((r.choice(("item", "attr")), MODE_KEY, r.choice(DOCUMENTED)))
            elif u < 0.5:
                steps.append((r.choice(("item", "attr")), r.choice(CFG_KEYS), r.choice(CFG_VALS)))
            elif u < 0.62:
                steps.append(("new", "", ""))
            elif u < 0.78:
                steps.append(("new_dict", MODE_KEY, r.choice(vals)))
            else:
                k, v = ((MODE_KEY, r.choice(vals)) if r.random() < 0.85
                        else (r.choice(CFG_KEYS), r.choice(CFG_VALS)))
                steps.append((r.choice(("oitem", "oattr")), k, v))
        seqs.append(steps)
    return seqs


def config_stage(res, seed, tier, replay=None):
    """The configuration as a history: after EVERY assignment the value in force is read back and
    compared with the Lean model of the configuration folded over the same sequence (a refused
    assignment yields no new state: the previous value stays in force); after every refused
    assignment, and at the end of every sequence, a design is evaluated on a frame with unseen
    values without touching the configuration, and that evaluation is judged by Spec.C10 under the
    mode the MODEL says is in force."""
    import formulae
    cfg = formulae.config
    old = cfg[MODE_KEY] if cfg[MODE_KEY] in DOCUMENTED else "error"
    # designs to predict with: both parts meet an unseen value
    preds = []
    for j, formula in enumerate(CONFIG_FORMULAS):
        for attempt in range(50):
            r = rng_for(seed, "c10", "config-design", j, attempt)
            df = designs.gen_frame(r)
            obs, req0 = designs.observe(formula, df, designs.NAMES)
            if req0 is None:
                continue
            dm = obs["_dm"]
            nd, ref, rows, _ = make_new(r, df, set(dm.model.var_names))
            hit = {v for vs in rows.values() for v in vs}
            if all(hit & set().union(*[set(t.var_names) for t in getattr(dm, p).terms.values()])
                   for p in ("common", "group")):
                break
        else:
            continue
        refs = {p: evaluate(getattr(dm, p), ref, "error")[:2] for p in ("common", "group")}
        preds.append({"formula": formula, "design": j, "attempt": attempt, "dm": dm, "nd": nd,
                      "rows": rows, "refs": refs})
    if replay is not None:
        seqs = [[tuple(st) for st in replay["config_steps"]]]
    else:
        seqs = config_sequences(seed, tier) + two_object_sequences(seed, tier)
    Config = type(cfg)
    runs = []
    try:
        for si, steps in enumerate(seqs):
            cfg[MODE_KEY] = "error"                       # a history starts from the default
            pr = preds[(replay or {}).get("design", si) % len(preds)] if preds else None
            ios, evs = [], []
            other, oseq = None, []          # the most recent other instance, its own assignments
            for i, (style, k, v) in enumerate(steps):
                before = cfg[MODE_KEY]
                try:
                    if style == "item":
                        cfg[k] = v
                    elif style == "attr":
                        setattr(cfg, k, v)
                    elif style == "new":
                        other, oseq = Config(), []
                    elif style == "new_dict":
                        made = Config({k: v})
                        other, oseq = made, [[k, v]]
                    else:
                        if other is None:
                            other, oseq = Config(), []
                        oseq = oseq + [[k, v]]
                        if style == "oitem":
                            other[k] = v
                        else:
                            setattr(other, k, v)
                    io = {"ok": True}
                except Exception as e:  # noqa
                    io = {"err": type(e).__name__}
                if style in OTHER_STYLES:
                    io["other_seq"] = None if other is None else list(oseq)
                    try:
                        io["other_value"] = None if other is None else other[MODE_KEY]
                    except Exception as e:  # noqa
                        io["other_value"] = "unreadable:" + type(e).__name__
                io["value"] = cfg[MODE_KEY]
                io["value_attr"] = getattr(cfg, MODE_KEY)
                io["before"] = before
                ios.append(io)
                if pr is not None and ("err" in io or i == len(steps) - 1 or style in OTHER_STYLES):
                    for part in ("common", "group"):
                        obj = getattr(pr["dm"], part)
                        try:
                            with warnings.catch_warnings(record=True) as w:
                                warnings.simplefilter("always")
                                new = obj.evaluate_new_data(pr["nd"].copy(deep=True))
                            ev = (new, None, designs.formulae_warned(w))
                        except Exception as e:  # noqa
                            ev = (None, type(e).__name__, False)
                        evs.append((i, part, ev))
            runs.append((steps, pr, ios, evs))
    finally:
        cfg[MODE_KEY] = old
    # the Lean model speaks about ONE configuration object: it is folded over the assignments to the
    # GLOBAL object only (operations on another instance are no steps of that object); the state the
    # harness puts every history in (`cfg[MODE_KEY] = "error"`) is its step 0
    model = []
    greqs = [{"op": "c10_config_seq", "steps": [[MODE_KEY, "error"]] + [
        [k, v] for st, k, v in steps if st not in OTHER_STYLES]} for steps, _, _, _ in runs]
    for (steps, _, _, _), mo in zip(runs, ask(greqs)):
        per, g = [], 0
        for st, _, _ in steps:
            if st not in OTHER_STYLES:
                g += 1
                per.append(mo["steps"][g])
            else:
                per.append({"other": True, "value": mo["steps"][g]["value"]})
        model.append({"steps": per})
    # every other instance is a configuration object of its own: the model folded over ITS
    # assignments (a refused first step keeps `Config()`'s initial state: the value of a new object)
    oreqs, oown = [], []
    for ri, (steps, _, ios, _) in enumerate(runs):
        for i, io in enumerate(ios):
            if io.get("other_seq") is not None:
                oreqs.append({"op": "c10_config_seq", "steps": [["", ""]] + io["other_seq"]})
                oown.append((ri, i))
    for (ri, i), mo in zip(oown, ask(oreqs) if oreqs else []):
        runs[ri][2][i]["other_model"] = mo["steps"][-1]
    sreqs, sowners = [], []
    for (steps, pr, ios, evs), mo in zip(runs, model):
        res.evaluations += 1
        res.count("configuration sequences")
        for i, ((style, k, v), io, ms) in enumerate(zip(steps, ios, mo["steps"])):
            res.traces += 1
            case = {"config_steps": [list(st) for st in steps[:i + 1]], "start": "error (default)"}
            impl = {kk: io[kk] for kk in ("ok", "err", "value") if kk in io}
            if style in OTHER_STYLES:
                # an operation on ANOTHER Config instance: no assignment to the global configuration
                res.count("operations on a second Config instance")
                accepted = style == "new" or (v in DOCUMENTED if style == "new_dict"
                                              else is_documented(k, v))
                om = io.get("other_model")
                if om is not None and io["other_value"] != om["value"]:
                    res.mismatches.append({"case": dict(case, object="second Config instance"),
                                           "impl": {"value": io["other_value"]}, "model": om})
                why = None
                if io["value"] != ms["value"] or io["value"] != io["before"] \
                        or io["value_attr"] != io["before"]:
                    why = (f"an operation on ANOTHER Config object ({style}) changed the value in force "
                           f"of the global configuration from {io['before']!r} to {io['value']!r} "
                           f"(model of the global object: {ms['value']!r})")
                    res.count("operations on a second Config instance that changed the global one")
                elif accepted != ("ok" in io):
                    why = ("a second Config instance accepts / refuses an undocumented / documented "
                           "key or value")
                elif "ok" in io and style != "new" and io["other_value"] != v:
                    why = "an accepted assignment to a second Config instance is not its value afterwards"
                if why:
                    res.failures.append({"case": case, "impl": dict(impl, other=io["other_value"]),
                                         "finding": None,
                                         "expected": {"value in force (global)": io["before"],
                                                      "model": ms}, "why": why})
                continue
            if impl != ms:
                res.mismatches.append({"case": case, "impl": impl, "model": ms})
            why = None
            if is_documented(k, v) != ("ok" in io):
                why = "configuration accepts / refuses an undocumented / documented key or value"
            elif "err" in io and (io["value"] != io["before"] or io["value_attr"] != io["before"]):
                why = (f"a REFUSED assignment changed the value in force from {io['before']!r} to "
                       f"{io['value']!r}")
                res.count("refused assignments that changed the configuration")
            elif io["value"] not in DOCUMENTED or io["value_attr"] != io["value"]:
                why = "the configuration holds an undocumented value"
            elif "ok" in io and io["value"] != v:
                why = "an accepted assignment is not the value in force afterwards"
            if "err" in io:
                res.count("refused assignments read back")
            if why:
                res.failures.append({"case": case, "impl": impl, "finding": None,
                                     "expected": {"value in force": io["before"] if "err" in io else v,
                                                  "model": ms}, "why": why})
        for i, part, ev in evs:
            mode = mo["steps"][i]["value"]
            rq = {"op": "c10_spec", "mode": mode,
                  part: PART_REQUEST[part](pr["dm"], pr["nd"], pr["rows"], ev, *pr["refs"][part])}
            sreqs.append(rq)
            sowners.append(({"config_steps": [list(st) for st in steps[:i + 1]],
                             "start": "error (default)", "design": pr["design"],
                             "formula": pr["formula"], "part": part, "mode_in_force": mode,
                             "unseen": {str(a): b for a, b in pr["rows"].items()}}, part, ev))
            if "err" in ios[i]:
                res.count("predictions after a refused assignment")
            res.nontrivial.add(("config", tuple(steps[:i + 1]), part))
    for (case, part, ev), rq, sp in zip(sowners, sreqs, ask(sreqs)):
        v = sp.get(part) or {}
        bad = [k for k, ok in v.items() if k.endswith("_ok") and not ok]
        if bad:
            res.failures.append({
                "case": case, "impl": {"part": part, "err": ev[1], "warn": ev[2]},
                "expected": f"behaviour of mode '{case['mode_in_force']}' (the last ACCEPTED assignment)",
                "finding": None,
                "why": f"{part} after a sequence of configuration assignments: "
                       + ", ".join(b[:-3] for b in bad) + " violated"})


def explore(tier, seed, res=None, replay=None):
    import formulae
    from formulae.terms import Intercept
    res = res or Result()
    res.rule = ("generated designs x placements of unseen values in predictor / effect / grouping "
                "variables (incl. one factor of an interaction), new columns of object dtype or of category "
                "dtype declaring unused categories, x 3 modes set through a sequence of "
                "config changes, the same frame object (and equal copies of it) evaluated again in the "
                "opposite order of modes and in a drawn order with 'warning' repeated, every such "
                "evaluation judged by Spec.C10 itself, and after an in-place edit; the configuration as "
                "a history of accepted and refused assignments (value in force read back after every "
                "step, prediction after every refused one), also with operations on a second Config instance "
                "interleaved (global value read back and a prediction after each of them); non-trivial = a case with at least one unseen value; distinct by "
                "(formula, placement, mode)")
    n_cases = 300 if tier == "quick" else 8000
    cases = []
    if replay is not None and "config_steps" in replay:
        config_stage(res, seed, tier, replay)
        return res
    if replay is not None:
        cases = [(replay["formula"], replay.get("seed_path", 0))]
    else:
        for f in CORPUS:
            cases.append((f, len(cases)))
        for _ in range(n_cases):
            cases.append((None, len(cases)))
    reqs, owners = [], []
    model_reqs, model_owners = [], []
    for f, path in cases:
        r = rng_for(seed, "c10", path)
        df = designs.gen_frame(r)
        # (a replay of a generated case is given its formula: the generator is still run, so that the
        # draws that follow -- the new frame, the unseen values -- are those of the original run)
        generated = gen_formula(r) if (f is None or (replay is not None and path >= len(CORPUS))) \
            else None
        formula = f or generated
        res.evaluations += 1
        obs, req0 = designs.observe(formula, df, designs.NAMES)
        if req0 is None:
            res.count("impl_error:" + obs["err"])
            continue
        dm = obs["_dm"]
        used = set(dm.model.var_names)
        nd, ref, rows, declared = make_new(r, df, used)
        # the evaluation model on the same new frame under the three policies
        obs_m, req_m = designs.observe(formula, df, designs.NAMES,
                                       [{"df": nd, "mode": m} for m in ("error", "warning", "silent")])
        if req_m is not None:
            model_reqs.append(req_m)
            model_owners.append(({"formula": formula, "seed_path": path}, obs_m))
        refs = {}         # part -> (evaluation of the reference frame, its error class)
        # what Spec.C10 is already asked about: (part, mode, everything the predicate sees); a later
        # evaluation with the very same observation has the same verdict and is not sent again
        judged = set()
        for mode in ("error", "warning", "silent"):
            case = {"formula": formula, "seed_path": path, "mode": mode,
                    "unseen": {str(k): v for k, v in rows.items()}}
            if declared:
                case["declared_unused_categories"] = declared
                res.count("evaluations_on_frames_declaring_unused_categories"
                          + ("" if rows else "_and_no_unseen_row"))
            req = {"op": "c10_spec", "mode": mode}
            for part in ("common", "group"):
                obj = getattr(dm, part)
                if obj is None:
                    continue
                ev = evaluate(obj, nd, mode)
                refs[part] = evaluate(obj, ref, "error")[:2]
                req[part] = PART_REQUEST[part](dm, nd, rows, ev, *refs[part])
                judged.add((part, mode, json.dumps(req[part], sort_keys=True)))
            reqs.append(req)
            owners.append(case)
            if rows:
                res.nontrivial.add((formula, path, mode))
        # the policy is applied at EVERY evaluation: the same frame object evaluated again in the
        # opposite order of modes, and after an in-place edit, must behave like a fresh evaluation
        for part in ("common", "group"):
            obj = getattr(dm, part)
            if obj is None:
                continue
            # every one of these evaluations is judged by the policy itself (Spec.C10 through the
            # driver: raise / warn iff an unseen value occurs, zero rule, new-group rule), not only
            # by equality with an earlier pass: position k of the history of THIS design object
            #   0-2  error, warning, silent on the frame object (after the three evaluations above)
            #   3-5  silent, warning, error on the same object
            #   6-.. a drawn sequence of modes with 'warning' at least twice in a row, on the same
            #        object and on equal but distinct copies of it
            history = [(m, "same object") for m in ("error", "warning", "silent", "silent", "warning",
                                                    "error")]
            rh = rng_for(seed, "c10", path, part, "repeat")
            tail = [rh.choice(("error", "warning", "silent")) for _ in range(rh.randrange(1, 4))]
            k = rh.randrange(len(tail) + 1)
            tail[k:k] = ["warning", "warning"]
            history += [(m, rh.choice(("same object", "equal copy"))) for m in tail]
            done = []
            for k, (m, which) in enumerate(history):
                frame = nd if which == "same object" else nd.copy(deep=True)
                ev = evaluate(obj, frame, m)
                done.append(outcome(ev))
                rq = {"op": "c10_spec", "mode": m,
                      part: PART_REQUEST[part](dm, nd, rows, ev, *refs[part])}
                res.count("re-evaluations judged by the policy")
                if m == "warning" and any(a == "warning" for a, _ in history[:k]) and rows:
                    res.count("repeated 'warning' evaluations of a frame with unseen values")
                key = (part, m, json.dumps(rq[part], sort_keys=True))
                if key in judged:
                    res.count("re-evaluations whose observation equals one already sent to the driver")
                    continue
                judged.add(key)
                reqs.append(rq)
                owners.append({"formula": formula, "seed_path": path, "mode": m, "part": part,
                               "unseen": {str(i): v for i, v in rows.items()},
                               "history": "error, warning, silent, then "
                                          + ", ".join(f"{a} ({b})" for a, b in history[:k + 1]),
                               "position": k})
            first = dict(zip(("error", "warning", "silent"), done[0:3]))
            again = dict(zip(("silent", "warning", "error"), done[3:6]))
            res.count("re-evaluations")
            for m in first:
                if first[m] != again[m]:
                    res.failures.append({
                        "case": {"formula": formula, "seed_path": path, "mode": m, "part": part,
                                 "history": "error, warning, silent, silent, warning, error"},
                        "impl": {"first": first[m][:2], "again": again[m][:2]},
                        "expected": "the same outcome", "finding": None,
                        "why": f"{part}: evaluating the same new frame again under '{m}' after other "
                               "modes gives another outcome (policy not applied at every evaluation)"})
        for part in ("common", "group"):
            obj = getattr(dm, part)
            if obj is None:
                continue
            edited = nd                                   # the same object, edited in place
            for v in used & set(nd.columns):
                edited[v] = list(reversed(edited[v].tolist()))
            inplace = outcome(evaluate(obj, edited, "silent"))
            fresh = outcome(evaluate(obj, edited.copy(deep=True), "silent"))
            if inplace != fresh:
                res.failures.append({
                    "case": {"formula": formula, "seed_path": path, "mode": "silent", "part": part,
                             "history": "frame edited in place between two evaluations"},
                    "impl": {"in_place": inplace[:2], "fresh_copy": fresh[:2]},
                    "expected": "the same outcome", "finding": None,
                    "why": f"{part}: a frame edited in place is evaluated as it was before the edit"})
        if len(res.samples) < 5:
            res.samples.append({"formula": formula, "unseen": {str(k): v for k, v in rows.items()}})
    out = ask(reqs)
    for case, req, sp in zip(owners, reqs, out):
        for part in ("common", "group"):
            v = sp.get(part)
            if v is None:
                continue
            if req[part].get("ref_err"):
                res.count("reference_evaluation_failed:" + req[part]["ref_err"])
                continue
            res.count(f"{part}_evaluations")
            bad = [k for k, ok in v.items() if k.endswith("_ok") and not ok]
            if bad:
                res.failures.append({
                    "case": case, "impl": {"part": part, "err": req[part]["err"],
                                           "warn": req[part]["warn"],
                                           "factors": req[part].get("factors_with_new_levels")},
                    "expected": v.get("expected_factors"), "finding": None,
                    "why": f"{part}: " + ", ".join(b[:-3] for b in bad) + " violated"})
    for (case, obs_m), mo in zip(model_owners, ask(model_reqs)):
        if "err" in mo:
            res.count("model_skip:" + mo["err"])
            continue
        res.traces += 1
        diffs = designs.compare(obs_m, mo)
        if diffs:
            res.mismatches.append({"case": case, "diff": diffs[:5]})
    # configuration: exhaustive over a small key / value grid against the model
    keys = ["EVAL_UNSEEN_CATEGORIES", "eval_unseen_categories", "UNKNOWN", ""]
    vals = ["error", "warning", "silent", "Error", "ignore", "", "raise"]
    creqs = [{"op": "c10_config", "key": k, "value": v} for k in keys for v in vals]
    cout = ask(creqs)
    old = formulae.config["EVAL_UNSEEN_CATEGORIES"]
    for rq, mo in zip(creqs, cout):
        res.evaluations += 1
        res.traces += 1
        try:
            formulae.config[rq["key"]] = rq["value"]
            io = {"ok": True, "value": formulae.config[rq["key"]]}
        except Exception as e:  # noqa
            io = {"err": type(e).__name__}
        finally:
            formulae.config["EVAL_UNSEEN_CATEGORIES"] = old
        if io != mo:
            res.mismatches.append({"case": rq, "impl": io, "model": mo})
        documented = rq["key"] == "EVAL_UNSEEN_CATEGORIES" and rq["value"] in ("error", "warning",
                                                                               "silent")
        if documented != ("ok" in io):
            res.failures.append({"case": rq, "impl": io, "finding": None,
                                 "expected": "accepted" if documented else "refused",
                                 "why": "configuration accepts / refuses an undocumented / documented "
                                        "key or value"})
    config_stage(res, seed, tier)
    default = type(formulae.config)()["EVAL_UNSEEN_CATEGORIES"]
    if default != "error":
        res.failures.append({"case": {"config": "default"}, "impl": default, "expected": "error",
                             "finding": None, "why": "default mode is not 'error'"})
    return res
