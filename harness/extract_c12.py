"""Translator part for C12 (CallResolver operator tables and LazyOperator.SYMBOLS from the live module)."""
import ast
import os
import sys
import operator  # noqa: F401

from extract_tables import _src, _strip_doc, _methods, _self_call, REPO  # noqa: F401

def extract_c12():
    """C12: `CallResolver.BINARY_OPERATORS`, `CallResolver.UNARY_OPERATORS` and
    `LazyOperator.SYMBOLS`, read from the live module (the tables *are* Python objects; the
    operator functions are recorded by `__name__`).  Returns Lean text (always compiling);
    `callTablesShapeOk := false` when a table is not a dict of str -> function of the `operator`
    module / str -> str."""
    import json
    import operator as _op
    ok, why = True, []
    tabs = {"callBinaryOps": [], "callUnaryOps": [], "callSymbols": []}
    try:
        if REPO not in sys.path:
            sys.path.insert(0, REPO)
        import importlib
        mod = importlib.import_module("formulae.terms.call_resolver")
        src = os.path.realpath(getattr(mod, "__file__", ""))
        if not src.startswith(os.path.realpath(REPO) + os.sep):
            ok = False
            why.append(f"call_resolver imported from {src}, not from {REPO}")
        for lean_name, table in (("callBinaryOps", mod.CallResolver.BINARY_OPERATORS),
                                 ("callUnaryOps", mod.CallResolver.UNARY_OPERATORS)):
            if not isinstance(table, dict):
                ok = False
                why.append(f"{lean_name}: not a dict")
                continue
            for k, fn in table.items():
                name = getattr(fn, "__name__", None)
                if not isinstance(k, str) or not isinstance(name, str):
                    ok = False
                    why.append(f"{lean_name}: entry {k!r} is not str -> named function")
                    continue
                if getattr(_op, name, None) is not fn:
                    ok = False
                    why.append(f"{lean_name}: {k} -> {name} is not operator.{name}")
                tabs[lean_name].append((k, name))
        sym = mod.LazyOperator.SYMBOLS
        if not isinstance(sym, dict):
            ok = False
            why.append("SYMBOLS: not a dict")
        else:
            for k, v in sym.items():
                if not isinstance(k, str) or not isinstance(v, str):
                    ok = False
                    why.append(f"SYMBOLS: entry {k!r} is not str -> str")
                    continue
                tabs["callSymbols"].append((k, v))
    except Exception as e:  # noqa
        ok = False
        why.append(f"cannot read call_resolver tables: {e!r}")

    def lst(pairs):
        return "[" + ", ".join(f"({json.dumps(a)}, {json.dumps(b)})" for a, b in pairs) + "]"

    out = ["-- C12: operator tables of formulae/terms/call_resolver.py (live module objects)"]
    for name in ("callBinaryOps", "callUnaryOps", "callSymbols"):
        out.append(f"def {name} : List (String \u00d7 String) := {lst(tabs[name])}")
    out.append(f"def callTablesShapeOk : Bool := {'true' if ok else 'false'}"
               + "".join(f"\n-- shape: {w}" for w in why))
    return "\n".join(out) + "\n"


KNOWN_KINDS = None
