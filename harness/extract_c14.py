"""Translator part for C14 (stateful transform registry, __call__ defaults, params_set assignments, np.std keywords)."""
import ast
import os
import sys
import inspect  # noqa: F401

from extract_tables import _src, _strip_doc, _methods, _self_call, REPO  # noqa: F401

# ------------------------------------------------------------------------------------------------
# transforms.py (C14): stateful registry, call defaults, who sets params_set, np.std keywords
# ------------------------------------------------------------------------------------------------
def _const_repr(node):
    if isinstance(node, ast.Constant):
        return repr(node.value)
    if isinstance(node, ast.UnaryOp) and isinstance(node.op, ast.USub) and isinstance(
            node.operand, ast.Constant):
        return "-" + repr(node.operand.value)
    return None


def extract_transforms():
    """Returns dict(registry, bs_defaults, poly_defaults, sets_params, std_keywords, ok, why)."""
    res = dict(registry=[], bs_defaults=[], poly_defaults=[], sets_params=[], std_keywords=[],
               ok=True, why=[])

    def bad(msg):
        res["ok"] = False
        res["why"].append(msg)

    try:
        tree = _src("formulae/transforms.py")
    except Exception as e:  # noqa
        bad(f"cannot parse transforms.py: {e}")
        return res
    classes = {n.name: n for n in tree.body if isinstance(n, ast.ClassDef)}
    registry = {}
    for name, node in classes.items():
        decorated = any(isinstance(d, ast.Name) and d.id == "register_stateful_transform"
                        for d in node.decorator_list)
        if not decorated:
            continue
        key = name
        for st in node.body:
            if (isinstance(st, ast.Assign) and len(st.targets) == 1
                    and isinstance(st.targets[0], ast.Name)
                    and st.targets[0].id == "__transform_name__"
                    and isinstance(st.value, ast.Constant)):
                key = st.value.value
        registry[key] = name
        sets = False
        for n in ast.walk(node):
            if (isinstance(n, ast.Assign) and len(n.targets) == 1
                    and isinstance(n.targets[0], ast.Attribute)
                    and n.targets[0].attr == "params_set"
                    and isinstance(n.value, ast.Constant) and n.value.value is True):
                sets = True
        res["sets_params"].append((name, sets))
    # aliases: TRANSFORMS.update({... "standardize": Scale ...})
    for node in tree.body:
        if (isinstance(node, ast.Expr) and isinstance(node.value, ast.Call)
                and isinstance(node.value.func, ast.Attribute) and node.value.func.attr == "update"
                and isinstance(node.value.func.value, ast.Name)
                and node.value.func.value.id == "TRANSFORMS" and node.value.args
                and isinstance(node.value.args[0], ast.Dict)):
            d = node.value.args[0]
            for k, v in zip(d.keys, d.values):
                if isinstance(k, ast.Constant) and isinstance(v, ast.Name) and v.id in classes \
                        and v.id in registry.values():
                    registry[k.value] = v.id
    res["registry"] = sorted(registry.items())
    res["sets_params"].sort()

    def defaults(cls, store):
        m = _methods(tree, cls).get("__call__")
        if m is None:
            bad(f"{cls}.__call__ not found")
            return
        args = m.args.args[1:]           # drop self
        ds = m.args.defaults
        pos = args[len(args) - len(ds):]
        for a, dv in zip(pos, ds):
            r = _const_repr(dv)
            if r is None:
                bad(f"{cls}.__call__: default of {a.arg} is not a literal")
                r = "?"
            store.append((a.arg, r))

    defaults("BSpline", res["bs_defaults"])
    defaults("Polynomial", res["poly_defaults"])
    # keywords of the np.std(...) call in Scale.__call__ (ddof must be absent: population std)
    m = _methods(tree, "Scale").get("__call__")
    found = False
    for n in ast.walk(m) if m is not None else []:
        if (isinstance(n, ast.Call) and isinstance(n.func, ast.Attribute) and n.func.attr == "std"
                and isinstance(n.func.value, ast.Name) and n.func.value.id == "np"):
            found = True
            res["std_keywords"] = sorted(k.arg or "**" for k in n.keywords)
    if not found:
        bad("Scale.__call__ does not call np.std")
    return res


def _lean_str_pairs(pairs):
    return "[" + ", ".join('("%s", "%s")' % (a, b) for a, b in pairs) + "]"


def lean_transforms_table(t):
    why = "".join(f"\n-- shape: {w}" for w in t["why"])
    sets = "[" + ", ".join('("%s", %s)' % (a, "true" if b else "false")
                           for a, b in t["sets_params"]) + "]"
    kws = "[" + ", ".join('"%s"' % k for k in t["std_keywords"]) + "]"
    return f"""def statefulRegistry : List (String × String) := {_lean_str_pairs(t['registry'])}

def bsCallDefaults : List (String × String) := {_lean_str_pairs(t['bs_defaults'])}

def polyCallDefaults : List (String × String) := {_lean_str_pairs(t['poly_defaults'])}

def setsParamsSet : List (String × Bool) := {sets}

def scaleStdKeywords : List String := {kws}

def transformsShapeOk : Bool := {'true' if t['ok'] else 'false'}{why}
"""


KNOWN_KINDS = None
