"""C13 — contrast codings.

Correspondence of `Treatment(ref).code_*` / `Sum(omit).code_*`, of `C` / `T` / `S` with their
`contrast`, `ref` / `omit` and `levels` arguments through `design_matrices`, with the Lean model
(Model/Coding.lean); evaluation of the specification (Spec/C13.lean: shape, reference row, zero
sums, explicit inverse of [1 | M], labels, level order, rows) by the Lean driver on the
implementation's actual matrices; alias relation T/S vs C; and the interchange *test*: exact
rational comparison of the column spaces of designs whose factors are coded differently."""
import contextlib
import io
import itertools
import json
from fractions import Fraction

from common import Result, ask, rng_for

ASSUMPTIONS = [
    "levels are compared through str(): generated levels are ASCII strings or integers 0..9, on "
    "which str is injective and (single digits) order preserving",
    "matrices hold integers (the implementation's float matrices are converted after checking "
    "that every entry is integral)",
    "the evaluated factor is observed on the term's component (levels, contrast_matrix, "
    "spans_intercept) and on the design matrix columns / term labels, which are checked to agree",
    "C13 quantifies over `levels=` that are arrangements of the observed levels; a listed level "
    "that does not occur in the rows (D13) is compared with the model only (it belongs to C06)",
    "explicit level orders are handed over as list and as tuple (the documented types: identical "
    "expectation, model and specification) and as numpy array / pandas Index: for the last two a "
    "refusal is accepted and counted (the unchanged library refuses them: ValueError / "
    "AttributeError from list operations), an evaluated factor is judged like the list form",
    "prediction path: the rows evaluate_new_data returns are judged by Spec.C13.rowsFollowLevels "
    "against the levels and contrast matrix the factor remembered (which the training-time "
    "specification has judged); a refusal on a column in which every level occurs is a failure, a "
    "refusal on a column lacking a level (explicit levels= / ordered categoricals: D13) is counted "
    "only (it belongs to C06); cases outside the scope of the statement are not predicted",
    "interchange: that equal factor spaces give equal column spaces of the design is the "
    "tensor-product argument of DESIGN.md (trusted mathematics); it is *tested* here by exact "
    "rational Gaussian elimination on complete-factorial data, on formulas whose terms need one "
    "coded subterm each (outside the known defects D6-D9, D20 of C03/C04); a second family puts "
    "numeric:factor interactions N:F next to purely numeric terms over x, z, w (main effects, "
    "interactions, triple products) that equal N (margin present), strictly contain N, are strictly "
    "contained in N or overlap N (margin present or absent), with and without the intercept and the "
    "main effects of the factors; numeric columns are small integers, so every entry is an exact integer",
    "calling scope: every fourth design case and every sixth interchange case is run once more from a "
    "scope that binds names of the formula built-ins (formulae.transforms.TRANSFORMS and "
    "formulae.categorical.ENCODINGS: C, T, S, Sum, Treatment, ... ; at least one name the formula uses) "
    "to unrelated objects (numbers, strings, None, list, arrays, numpy functions, a user class and an "
    "instance of it) and stateless look-alike functions (values -> strings, values -> values, a constant "
    "column, integer codes), as locals or globals of a generated caller function or in extra_namespace; "
    "the built-ins win, so the shadowed run is judged by exactly the request (model, Spec predicates) of "
    "the clean run; names that are not registry names (data columns, level-list names) are never shadowed",
]
TRUSTED = ["numpy integer/float arithmetic on 0/±1 matrices is exact",
           "fractions.Fraction Gaussian elimination (harness/c13.py:rank)"]

FINDING_ALIAS = "KF-C13-D25"


# ------------------------------------------------------------------------------------------------
# helpers
# ------------------------------------------------------------------------------------------------
def _quiet(fn):
    """formulae prints on exceptions inside Call.set_data; keep the check's stdout clean."""
    buf = io.StringIO()
    with contextlib.redirect_stdout(buf):
        return fn()


def _int_matrix(a):
    """numpy 2-d array -> list of rows of ints, or None when an entry is not integral."""
    import numpy as np
    a = np.asarray(a)
    if a.ndim != 2:
        return None
    out = []
    for row in a.tolist():
        r = []
        for v in row:
            if isinstance(v, bool) or not isinstance(v, (int, float)) or v != v or int(v) != v:
                return None
            r.append(int(v))
        out.append(r)
    return out


def _plain(v):
    """numpy scalars -> python scalars"""
    return v.item() if hasattr(v, "item") else v


def lit(v):
    """a level as a literal of the formula language"""
    return '"%s"' % v if isinstance(v, str) else str(v)


def s_(v):
    return None if v is None else str(v)


# the sequence type an explicit `levels` argument is passed in.  "list" and "tuple" are the documented
# types (same expectation); "array" (numpy) and "index" (pandas) are further sequences a caller may
# hold the levels in: the library may refuse them, but when it evaluates, the given order counts
LEVEL_CONTAINERS = ("list", "tuple", "array", "index")
DOCUMENTED_CONTAINERS = ("list", "tuple")
AS_KEY = "__levels_as__"


def as_container(values, kind):
    import numpy as np
    import pandas as pd
    values = list(values)
    if kind == "tuple":
        return tuple(values)
    if kind == "array":
        return np.array(values)
    if kind == "index":
        return pd.Index(values)
    return values


def namespace(env):
    """the extra_namespace of a case: level lists (JSON-friendly in the case) turned into the
    sequence type the spelling asks for"""
    kinds = env.get(AS_KEY, {})
    return {k: as_container(v, kinds.get(k, "list")) for k, v in env.items() if k != AS_KEY}


def levels_container(sp):
    """sequence type of the explicit level orders of a spelling ("list" when it has none)"""
    if all(sp.get(k) is None for k in ("levels", "l1", "l2")):
        return "list"
    return sp.get("levels_as", "list")


def sl_(vs):
    return None if vs is None else [str(v) for v in vs]


# ------------------------------------------------------------------------------------------------
# shadowed calling scopes: the names of the formula built-ins (formulae.transforms.TRANSFORMS,
# formulae.categorical.ENCODINGS: C, T, S, Sum, Treatment, ...) bound to unrelated objects in the scope
# that calls design_matrices.  The built-ins win (Call.set_type), so the expected factor never depends
# on these bindings: a shadowed case is judged by exactly the request of its clean twin.
# ------------------------------------------------------------------------------------------------
def _as_text(values, *a, **k):
    """a user's own helper that happens to be called like a built-in: 'as string'"""
    import numpy as np
    return np.asarray(values).astype(str)


def _same(values, *a, **k):
    """a stateless look-alike: gives the values back"""
    return values


def _sevens(*a, **k):
    import numpy as np
    first = a[0] if a else next(iter(k.values()))
    return np.full(len(first), 7.0)


def _reversed_codes(values, *a, **k):
    """a user's own 'coding': integer codes in reverse alphabetical order"""
    import numpy as np
    v = [str(x) for x in values]
    order = sorted(set(v), reverse=True)
    return np.array([order.index(x) for x in v])


class _UserClass:
    """a user's class that happens to be called Sum / Treatment / C ..."""

    def __init__(self, *a, **k):
        self.args = a


def _np(attr):
    import numpy as np
    return getattr(np, attr)


SHADOW_OBJECTS = {
    "int 20": lambda n: 20, "float 0.5": lambda n: 0.5, "int n_rows": lambda n: n,
    "str 'label'": lambda n: "label", "str 'Sum'": lambda n: "Sum", "None": lambda n: None,
    "list [1, 2, 3]": lambda n: [1, 2, 3], "np.arange(n_rows)": lambda n: _np("arange")(n),
    "np.eye(2)": lambda n: _np("eye")(2), "np.sum": lambda n: _np("sum"),
    "function values -> values.astype(str)": lambda n: _as_text,
    "function values -> values": lambda n: _same,
    "function -> column of sevens": lambda n: _sevens,
    "function values -> reversed integer codes": lambda n: _reversed_codes,
    "user class": lambda n: _UserClass, "user class instance": lambda n: _UserClass(),
}
SHADOW_WHERE = ("extra_namespace", "caller_locals", "caller_globals")
CONTRAST_NAMES = ("C", "T", "S", "Sum", "Treatment")


def registry_names():
    from formulae.categorical import ENCODINGS
    from formulae.transforms import TRANSFORMS
    return sorted(set(TRANSFORMS) | set(ENCODINGS))


def gen_scope(rng, formula):
    """-> {"where": ..., "bound": {name: description}}: every name is a registry name; at least one
    built-in the formula uses is bound (when it uses one), the contrast names more often than the rest"""
    import re
    names = registry_names()
    descs = sorted(SHADOW_OBJECTS)
    used = [nm for nm in names if re.search(r"(?<![\w.])%s(?![\w])" % re.escape(nm), formula)]
    picked = [nm for nm in names if rng.random() < (0.6 if nm in CONTRAST_NAMES else 0.2)]
    if used and not set(used) & set(picked):
        picked.append(rng.choice(used))
    if not picked:
        picked.append(rng.choice(names))
    return {"where": rng.choice(SHADOW_WHERE), "bound": {nm: rng.choice(descs) for nm in sorted(picked)}}


def scope_objects(scope, n_rows):
    return {nm: SHADOW_OBJECTS[d](n_rows) for nm, d in scope["bound"].items()}


def make_builder(scope, ns, n_rows):
    """design_matrices(formula, data) as called from a scope that binds the names of `scope`
    (None: the clean scope of this module) with extra_namespace `ns`"""
    from formulae import design_matrices
    if scope is None:
        return lambda formula, data: design_matrices(formula, data, extra_namespace=ns)
    objs = scope_objects(scope, n_rows)
    if scope["where"] == "extra_namespace":
        full = dict(ns)
        full.update(objs)
        return lambda formula, data: design_matrices(formula, data, extra_namespace=full)
    names = sorted(objs)
    if scope["where"] == "caller_locals":
        src = "def caller(_dm_, _formula_, _data_, _ns_, _vals_):\n"
        for i, nm in enumerate(names):
            src += "    %s = _vals_[%d]\n" % (nm, i)
        src += "    return _dm_(_formula_, _data_, extra_namespace=_ns_)\n"
        glob = {}
    elif scope["where"] == "caller_globals":
        src = ("def caller(_dm_, _formula_, _data_, _ns_, _vals_):\n"
               "    return _dm_(_formula_, _data_, extra_namespace=_ns_)\n")
        glob = dict(objs)
    else:
        raise ValueError(scope["where"])
    exec(src, glob)                                                     # pylint: disable=exec-used
    caller = glob["caller"]
    vals = [objs[nm] for nm in names]
    return lambda formula, data: caller(design_matrices, formula, data, ns, vals)


# ------------------------------------------------------------------------------------------------
# kind "code": Treatment(arg).code_*(levels), Sum(arg).code_*(levels)
# ------------------------------------------------------------------------------------------------
def impl_code(case):
    from formulae import categorical
    try:
        enc = getattr(categorical, case["enc"])(case["arg"])
        levels = list(case["levels"])
        cm = enc.code_with_intercept(levels) if case["with"] else enc.code_without_intercept(levels)
        m = _int_matrix(cm.matrix)
        if m is None:
            return {"err": "NonIntegralMatrix"}
        # a matrix without rows or columns: keep the row count (one empty row per level)
        labels = cm.labels
        if not isinstance(labels, (list, tuple)) or not all(isinstance(x, str) for x in labels):
            return {"err": "BadLabels"}
        return {"matrix": m, "labels": list(labels), "shape": list(cm.matrix.shape)}
    except Exception as e:  # noqa
        return {"err": type(e).__name__}


def req_code(case, impl):
    return {"op": "c13_code", "enc": case["enc"], "arg": s_(case["arg"]),
            "levels": sl_(case["levels"]), "with": case["with"], "impl": impl}


def level_names(n, style, rng=None):
    """n distinct levels; not in alphabetical order for style 1."""
    if style == 0:
        return ["L%02d" % i for i in range(n)]
    if style == 1:
        base = ["q", "B", "zz", "a", "10", "m", "2", "Ab", "k_1", "c c", "x", "D", "0", "y.y"]
        names = [base[i % len(base)] + ("" if i < len(base) else str(i // len(base))) for i in range(n)]
        return names
    if style == 2:
        return list(range(n))                       # integer levels
    names = ["v%d" % i for i in range(n)]
    rng.shuffle(names)
    return names


def gen_code_cases(tier, seed):
    cases = []
    nmax = 12 if tier == "quick" else 30
    for n in range(0, nmax + 1):
        for style in (0, 1, 2):
            if style == 2 and n > 10:
                continue
            levels = level_names(n, style)
            absent = "nope" if style != 2 else 99
            args = [None] + levels + [absent]
            for enc in ("Treatment", "Sum"):
                for arg in args:
                    for w in (False, True):
                        cases.append({"kind": "code", "enc": enc, "arg": arg, "levels": levels,
                                      "with": w})
    # duplicated levels: correspondence only (first occurrence is the reference)
    for levels in (["a", "b", "a"], ["a", "a"], ["b", "a", "b", "c"]):
        for enc in ("Treatment", "Sum"):
            for arg in [None] + sorted(set(levels)):
                for w in (False, True):
                    cases.append({"kind": "code", "enc": enc, "arg": arg, "levels": levels,
                                  "with": w})
    rng = rng_for(seed, "c13", "code")
    for _ in range(60 if tier == "quick" else 600):
        n = rng.randrange(1, 9 if tier == "quick" else 25)
        levels = level_names(n, 3, rng)
        arg = rng.choice([None] + levels + ["zz"])
        cases.append({"kind": "code", "enc": rng.choice(["Treatment", "Sum"]), "arg": arg,
                      "levels": levels, "with": rng.random() < 0.5})
    return cases


# ------------------------------------------------------------------------------------------------
# kind "design": a factor written in a spelling, through design_matrices
# ------------------------------------------------------------------------------------------------
def contrast_text(ca):
    if ca is None:
        return None
    if "cls" in ca:
        return ca["cls"]
    if ca.get("arg") is None:
        return ca["inst"] + "()"
    return "%s(%s)" % (ca["inst"], lit(ca["arg"]))


def call_text(fn, inner, second, second_kw, levels_name, kw):
    """`fn(inner, second, levels)` positionally or with keywords."""
    parts = [inner]
    if kw:
        if second is not None:
            parts.append("%s=%s" % (second_kw, second))
        if levels_name is not None:
            parts.append("levels=%s" % levels_name)
    else:
        if second is not None or levels_name is not None:
            parts.append(second if second is not None else "None")
        if levels_name is not None:
            parts.append(levels_name)
    return "%s(%s)" % (fn, ", ".join(parts))


def spelling_text(sp, var, env, tag="lv"):
    """formula text of a spelling of the factor `var`; level lists go to `env`."""
    kw = bool(sp.get("kw"))

    def lvname(key, suffix):
        if sp.get(key) is None:
            return None
        name = "%s_%s%s" % (tag, var, suffix)
        env[name] = list(sp[key])
        if sp.get("levels_as", "list") != "list":
            env.setdefault(AS_KEY, {})[name] = sp["levels_as"]
        return name

    k = sp["kind"]
    if k == "plain":
        return var
    if k == "c":
        return call_text("C", var, contrast_text(sp.get("contrast")), "contrast",
                         lvname("levels", ""), kw)
    if k == "t":
        return call_text("T", var, None if sp.get("arg") is None else lit(sp["arg"]), "ref",
                         lvname("levels", ""), kw)
    if k == "s":
        return call_text("S", var, None if sp.get("arg") is None else lit(sp["arg"]), "omit",
                         lvname("levels", ""), kw)
    inner = call_text("C", var, contrast_text(sp.get("c1")), "contrast", lvname("l1", "_in"), kw)
    if k == "cc":
        return call_text("C", inner, contrast_text(sp.get("c2")), "contrast", lvname("l2", "_out"),
                         kw)
    if k == "tc":
        return call_text("T", inner, None if sp.get("arg") is None else lit(sp["arg"]), "ref",
                         None, kw)
    if k == "sc":
        return call_text("S", inner, None if sp.get("arg") is None else lit(sp["arg"]), "omit",
                         None, kw)
    raise ValueError(k)


def make_column(col):
    import pandas as pd
    t = col["type"]
    vals = list(col["values"])
    if t in ("str", "int"):
        return pd.Series(vals)
    if t == "cat":
        return pd.Series(pd.Categorical(vals, categories=col["categories"], ordered=False))
    if t == "ocat":
        return pd.Series(pd.Categorical(vals, categories=col["categories"], ordered=True))
    raise ValueError(t)


def spelling_json(sp):
    """the spelling with every level / argument as a string (driver protocol)"""
    def ca(c):
        if c is None:
            return None
        if "cls" in c:
            return {"cls": c["cls"]}
        return {"inst": c["inst"], "arg": s_(c.get("arg"))}

    k = sp["kind"]
    if k == "plain":
        return {"kind": "plain"}
    if k == "c":
        return {"kind": "c", "contrast": ca(sp.get("contrast")), "levels": sl_(sp.get("levels"))}
    if k in ("t", "s"):
        return {"kind": k, "arg": s_(sp.get("arg")), "levels": sl_(sp.get("levels"))}
    if k == "cc":
        return {"kind": "cc", "c1": ca(sp.get("c1")), "l1": sl_(sp.get("l1")),
                "c2": ca(sp.get("c2")), "l2": sl_(sp.get("l2"))}
    return {"kind": k, "c1": ca(sp.get("c1")), "l1": sl_(sp.get("l1")), "arg": s_(sp.get("arg"))}


def design_formula(case):
    env = {}
    expr = spelling_text(case["spelling"], "g", env)
    return ("y ~ " if case["intercept"] else "y ~ 0 + ") + expr, env


def impl_design(case):
    import numpy as np
    import pandas as pd
    col = case["col"]
    n = len(col["values"])
    df = pd.DataFrame({"y": [float(i % 3) for i in range(n)], "g": make_column(col)})
    formula, env = design_formula(case)
    try:
        build = make_builder(case.get("scope"), namespace(env), n)
        dm = _quiet(lambda: build(formula, df))
    except Exception as e:  # noqa
        return {"err": type(e).__name__}
    try:
        names = [k for k in dm.common.terms if k != "Intercept"]
        if len(names) != 1:
            return {"err": "UnexpectedTerms", "terms": list(dm.common.terms)}
        name = names[0]
        term = dm.common.terms[name]
        comp = term.components[0]
        cm = comp.contrast_matrix
        matrix = _int_matrix(cm.matrix)
        cols = np.asarray(dm.common.design_matrix)[:, dm.common.slices[name]]
        value = _int_matrix(cols)
        comp_value = _int_matrix(np.asarray(comp.value).reshape(len(df), -1))
        if matrix is None or value is None:
            return {"err": "NonIntegralMatrix"}
        labels = list(cm.labels)
        consistent = (value == comp_value
                      and list(term.labels) == ["%s[%s]" % (name, l) for l in labels]
                      and (not case["intercept"] or bool((np.asarray(dm.common.design_matrix)[:, 0] == 1).all())))
        out = {"levels": [str(_plain(l)) for l in comp.levels], "matrix": matrix, "labels": labels,
               "value": value, "spans": bool(comp.spans_intercept), "consistent": bool(consistent),
               "name": name}
    except Exception as e:  # noqa
        return {"err": "Observer:" + type(e).__name__}
    # prediction path: the same factor evaluated on new columns through evaluate_new_data
    out["new"] = []
    for nf in case.get("new", []):
        ncol = dict(col, values=nf["values"])
        ndf = pd.DataFrame({"g": make_column(ncol)})
        try:
            new = _quiet(lambda: dm.common.evaluate_new_data(ndf))
            full = np.asarray(new.design_matrix)
            v = _int_matrix(full[:, dm.common.slices[name]])
            if v is None or full.shape[0] != len(ndf):
                out["new"].append({"err": "NonIntegralMatrix"})
            else:
                out["new"].append({"value": v, "intercept_ok": bool(
                    not case["intercept"] or (full[:, 0] == 1).all())})
        except Exception as e:  # noqa
            out["new"].append({"err": type(e).__name__})
    return out


def add_new_columns(case, rng):
    """columns for the prediction stage of a design case (stored in the case, so that a replay
    needs nothing else): the training column itself, a longer rearrangement in which every level
    occurs (other row count, other first-seen order, repeated rows), and a column from which all
    rows of one level were removed"""
    vals = list(case["col"]["values"])
    if not vals:
        case["new"] = []
        return
    distinct = []
    for v in vals:
        if v not in distinct:
            distinct.append(v)
    allv = list(vals) + [rng.choice(vals) for _ in range(rng.randrange(0, 4))]
    rng.shuffle(allv)
    news = [{"frame": "same", "values": vals, "all_levels": True},
            {"frame": "rearranged", "values": allv, "all_levels": True}]
    if len(distinct) >= 2:
        gone = rng.choice(distinct)
        rest = [v for v in allv if v != gone]
        news.append({"frame": "level_missing", "values": rest, "all_levels": False})
    case["new"] = news


def req_design(case, impl):
    col = case["col"]
    send = impl if "err" in impl else {k: impl[k] for k in ("levels", "matrix", "labels", "value", "spans")}
    return {"op": "c13_design", "data": sl_(col["values"]),
            "ordered": sl_(col["categories"]) if col["type"] == "ocat" else None,
            "spelling": spelling_json(case["spelling"]), "spans": not case["intercept"],
            "impl": send}


STR_POOL = ["b", "a", "c", "B", "10", "2", "zed", "a b", "k_1", "Q"]


def gen_column(rng, n, typ, extra_rows=None, unused=False):
    """a column with exactly n observed levels"""
    if typ == "int":
        levels = rng.sample(range(0, 10), n)
    else:
        levels = rng.sample(STR_POOL, n)
    rows = list(levels) + [rng.choice(levels) for _ in range(rng.randrange(0, 4) if extra_rows is None else extra_rows)]
    rng.shuffle(rows)
    col = {"type": typ, "values": rows}
    if typ in ("cat", "ocat"):
        cats = list(levels)
        if unused:
            cats.append("unused")
        rng.shuffle(cats)
        col["categories"] = cats
    return col, levels


def gen_contrast_arg(rng, levels, allow_bad=True):
    r = rng.random()
    if r < 0.2:
        return None
    if r < 0.4:
        return {"cls": rng.choice(["Treatment", "Sum"])}
    arg = None
    r2 = rng.random()
    if r2 < 0.7:
        arg = rng.choice(levels)
    elif r2 < 0.8 and allow_bad:
        arg = "nope" if isinstance(levels[0], str) else 77
    return {"inst": rng.choice(["Treatment", "Sum"]), "arg": arg}


def gen_levels_arg(rng, levels, p=0.5, allow_bad=True):
    if rng.random() >= p:
        return None
    lv = list(levels)
    rng.shuffle(lv)
    r = rng.random()
    if allow_bad and r < 0.06:
        lv = lv + (["extra"] if isinstance(lv[0], str) else [88])       # D13: a level that does not occur
    elif allow_bad and r < 0.10 and len(lv) > 1:
        lv = lv[:-1]                                                    # a level is missing
    elif allow_bad and r < 0.13:
        lv = lv + [lv[0]]                                               # duplicated
    return lv


def gen_spelling(rng, levels, typ):
    kinds = ["c", "c", "t", "s", "cc", "tc", "sc"] + (["plain"] if typ != "int" else [])
    k = rng.choice(kinds) if rng.random() < 0.9 else rng.choice(["c", "t", "s"])
    if k in ("tc", "sc") and rng.random() < 0.75:
        k = "cc"
    arg = None
    r = rng.random()
    if r < 0.65:
        arg = rng.choice(levels)
    elif r < 0.75:
        arg = "nope" if isinstance(levels[0], str) else 77
    sp = {"kind": k, "kw": rng.random() < 0.4}
    if k == "c":
        sp["contrast"] = gen_contrast_arg(rng, levels)
        sp["levels"] = gen_levels_arg(rng, levels)
    elif k in ("t", "s"):
        sp["arg"] = arg
        sp["levels"] = gen_levels_arg(rng, levels)
    elif k == "cc":
        sp["c1"] = gen_contrast_arg(rng, levels)
        sp["l1"] = gen_levels_arg(rng, levels, 0.4)
        sp["c2"] = gen_contrast_arg(rng, levels)
        sp["l2"] = gen_levels_arg(rng, levels, 0.3)
    elif k in ("tc", "sc"):
        sp["c1"] = gen_contrast_arg(rng, levels, allow_bad=False)
        sp["l1"] = gen_levels_arg(rng, levels, 0.4, allow_bad=False)
        sp["arg"] = arg
    # the sequence type the explicit level orders are passed in
    cont = rng.choice(["list", "list", "tuple", "tuple", "tuple", "array", "index"])
    if cont != "list" and any(sp.get(k) is not None for k in ("levels", "l1", "l2")):
        sp["levels_as"] = cont
    return sp


def gen_design_cases(tier, seed):
    cases = []
    rng = rng_for(seed, "c13", "perm")
    # all arrangements of up to five levels as levels=
    nperm = 5 if tier == "quick" else 6
    for n in range(1, nperm + 1):
        base = STR_POOL[:n]
        col_rows = list(base) + [base[i % n] for i in range(2)]
        for j, perm in enumerate(itertools.permutations(base)):
            col = {"type": "str", "values": col_rows[j % len(col_rows):] + col_rows[:j % len(col_rows)]}
            for intercept in (True, False):
                cases.append({"kind": "design", "col": col, "intercept": intercept,
                              "spelling": {"kind": "c", "contrast": None, "levels": list(perm)}})
            # the same arrangement handed over as a tuple (every arrangement), and as a numpy array /
            # pandas Index (alternating)
            cases.append({"kind": "design", "col": col, "intercept": j % 2 == 1,
                          "spelling": {"kind": "c", "contrast": None, "levels": list(perm),
                                       "levels_as": "tuple", "kw": j % 4 < 2}})
            if n <= 4 or (j + seed) % 5 == 0 or tier != "quick":
                which = j % 3
                sp = [{"kind": "c", "contrast": {"cls": "Sum"}, "levels": list(perm), "kw": True},
                      {"kind": "s", "arg": None, "levels": list(perm)},
                      {"kind": "t", "arg": None, "levels": list(perm), "kw": True}][which]
                cases.append({"kind": "design", "col": col, "intercept": j % 2 == 0, "spelling": sp})
                cont = ("tuple", "array", "tuple", "index")[(j // 3) % 4]
                sp2 = [{"kind": "t", "arg": perm[-1], "levels": list(perm)},
                       {"kind": "c", "contrast": {"cls": "Sum"}, "levels": list(perm)},
                       {"kind": "s", "arg": None, "levels": list(perm), "kw": True}][which]
                cases.append({"kind": "design", "col": col, "intercept": (j // 2) % 2 == 0,
                              "spelling": dict(sp2, levels_as=cont)})
    # integer levels: all arrangements of up to four
    for n in range(1, 5):
        base = [3, 1, 7, 5][:n]
        for j, perm in enumerate(itertools.permutations(base)):
            col = {"type": "int", "values": list(base) + [base[0]]}
            cases.append({"kind": "design", "col": col, "intercept": j % 2 == 0,
                          "spelling": {"kind": "c", "contrast": None if j % 2 else {"cls": "Sum"},
                                       "levels": list(perm)}})
            for cont in ("tuple", ("array", "index")[j % 2]):
                sp = [{"kind": "c", "contrast": None, "levels": list(perm)},
                      {"kind": "s", "arg": None, "levels": list(perm), "kw": True},
                      {"kind": "t", "arg": None, "levels": list(perm)}][(j + len(cont)) % 3]
                cases.append({"kind": "design", "col": col, "intercept": (j // 2) % 2 == 0,
                              "spelling": dict(sp, levels_as=cont)})
    # random frames / spellings
    rng = rng_for(seed, "c13", "design")
    for _ in range(1500 if tier == "quick" else 12000):
        typ = rng.choice(["str", "str", "int", "cat", "ocat", "ocat"])
        n = rng.choice([1, 2, 2, 3, 3, 4, 5])
        col, levels = gen_column(rng, n, typ, unused=(typ in ("cat", "ocat") and rng.random() < 0.12))
        cases.append({"kind": "design", "col": col, "intercept": rng.random() < 0.6,
                      "spelling": gen_spelling(rng, levels, typ)})
    cases.extend(shadow_twins(cases, seed, 4))
    return cases


def shadow_twins(cases, seed, every):
    """every `every`-th case once more, called from a scope that binds names of the formula built-ins
    (the twin carries the scope; expectation, model and specification are those of the clean case)"""
    twins = []
    for i, c in enumerate(cases):
        if (i + seed) % every:
            continue
        formula = design_formula(c)[0] if c["kind"] == "design" else c["variant"]["formula"]
        twins.append(dict(c, scope=gen_scope(rng_for(seed, "c13", "shadow", c["kind"], i), formula)))
    return twins


def alias_groups(tier, seed):
    """spellings with the same meaning on the same column: their observations must be identical"""
    rng = rng_for(seed, "c13", "alias")
    groups = []
    for _ in range(250 if tier == "quick" else 2500):
        typ = rng.choice(["str", "int", "cat", "ocat"])
        n = rng.choice([2, 3, 3, 4, 5])
        col, levels = gen_column(rng, n, typ)
        ref = rng.choice(levels + [None])
        lv = gen_levels_arg(rng, levels, 0.4, allow_bad=False)
        intercept = rng.random() < 0.6
        which = rng.choice(["t", "s", "default"])
        if which == "t":
            sps = [{"kind": "t", "arg": ref, "levels": lv},
                   {"kind": "c", "contrast": {"inst": "Treatment", "arg": ref}, "levels": lv},
                   {"kind": "t", "arg": ref, "levels": lv, "kw": True},
                   {"kind": "cc", "c1": None, "l1": lv, "c2": {"inst": "Treatment", "arg": ref}, "l2": None}]
            if ref is None:
                sps.append({"kind": "c", "contrast": {"cls": "Treatment"}, "levels": lv})
                sps.append({"kind": "c", "contrast": None, "levels": lv})
        elif which == "s":
            sps = [{"kind": "s", "arg": ref, "levels": lv},
                   {"kind": "c", "contrast": {"inst": "Sum", "arg": ref}, "levels": lv, "kw": True},
                   {"kind": "cc", "c1": {"inst": "Sum", "arg": ref}, "l1": None, "c2": None, "l2": lv}]
            if ref is None:
                sps.append({"kind": "c", "contrast": {"cls": "Sum"}, "levels": lv})
        else:
            sps = [{"kind": "c", "contrast": None, "levels": lv}, {"kind": "t", "arg": None, "levels": lv},
                   {"kind": "c", "contrast": {"cls": "Treatment"}, "levels": lv, "kw": True}]
            if typ != "int" and lv is None:
                sps.append({"kind": "plain"})
        if lv is not None:
            # the same level order handed over as a tuple: the same factor
            twin = rng.choice([sp for sp in sps if sp.get("levels") is not None or sp.get("l1") is not None
                               or sp.get("l2") is not None])
            sps.append(dict(twin, levels_as="tuple"))
        groups.append([{"kind": "design", "col": col, "intercept": intercept, "spelling": sp,
                        "alias_group": len(groups)} for sp in sps])
    return groups


# ------------------------------------------------------------------------------------------------
# kind "interchange": exact comparison of column spaces
# ------------------------------------------------------------------------------------------------
def rank(rows):
    """rank of an integer matrix (list of rows) by Gaussian elimination over the rationals"""
    m = [[Fraction(v) for v in r] for r in rows]
    if not m:
        return 0
    nrow, ncol = len(m), len(m[0])
    rk = 0
    for c in range(ncol):
        piv = None
        for r in range(rk, nrow):
            if m[r][c] != 0:
                piv = r
                break
        if piv is None:
            continue
        m[rk], m[piv] = m[piv], m[rk]
        p = m[rk][c]
        prow = m[rk]
        for r in range(rk + 1, nrow):
            f = m[r][c]
            if f != 0:
                f = f / p
                row = m[r]
                for k in range(c, ncol):
                    if prow[k] != 0:
                        row[k] -= f * prow[k]
        rk += 1
        if rk == nrow:
            break
    return rk


def same_column_space(a, b):
    """exact: span(columns of a) == span(columns of b)"""
    ra, rb = rank(a), rank(b)
    if ra != rb:
        return False, (ra, rb, None)
    rab = rank([x + y for x, y in zip(a, b)])
    return rab == ra, (ra, rb, rab)


def single_interval(terms, intercept, factors):
    """every term needs exactly one coded subterm (the subsets of its factors that are new form an
    interval [L, T]); terms are analysed in the given order, numeric part as a separate bucket"""
    used = {}
    for t in terms:
        num = frozenset(v for v in t if v not in factors)
        cat = frozenset(v for v in t if v in factors)
        u = used.setdefault(num, set([frozenset()]) if (not num and intercept) else set())
        subsets = [frozenset(c) for r in range(len(cat) + 1) for c in itertools.combinations(sorted(cat), r)]
        new = [s for s in subsets if s not in u]
        if not new:
            return False
        low = frozenset.intersection(*new)
        want = [s for s in subsets if low <= s]
        if sorted(map(sorted, new)) != sorted(map(sorted, want)):
            return False
        u.update(subsets)
    return True


def gen_interchange(rng):
    nf = rng.choice([2, 2, 3])
    fnames = ["f", "h", "k"][:nf]
    factors = {}
    sizes = rng.sample([2, 3, 3, 4], nf) if nf == 2 else rng.sample([2, 2, 3, 3], nf)
    for name, n in zip(fnames, sizes):
        typ = rng.choice(["str", "str", "int", "cat", "ocat"])
        if typ == "int":
            levels = rng.sample(range(0, 10), n)
        else:
            levels = rng.sample(STR_POOL, n)
        cats = list(levels)
        rng.shuffle(cats)
        factors[name] = {"type": typ, "levels": levels, "categories": cats}
    variables = fnames + ["x"]
    # a family of terms: random maximal terms, closed downwards, then some margins removed
    for _ in range(50):
        maximal = []
        for _ in range(rng.choice([1, 2, 2, 3])):
            size = rng.choice([1, 2, 2, 3]) if nf == 3 else rng.choice([1, 2, 2])
            maximal.append(frozenset(rng.sample(variables, min(size, len(variables)))))
        fam = set()
        for t in maximal:
            for r in range(1, len(t) + 1):
                for c in itertools.combinations(sorted(t), r):
                    fam.add(frozenset(c))
        fam = list(fam)
        if rng.random() < 0.5 and len(fam) > 1:
            fam.remove(rng.choice(fam))                    # nesting: a margin is left out
        intercept = rng.random() < 0.7
        terms = sorted(fam, key=lambda t: (len(t), [variables.index(v) for v in sorted(t, key=variables.index)]))
        terms = [sorted(t, key=variables.index) for t in terms]
        if any(v in factors for t in terms for v in t) and single_interval(terms, intercept, factors):
            break
    else:
        terms, intercept = [[fnames[0]], [fnames[1]]], True
    # complete factorial x 2 replicates, shuffled
    combos = list(itertools.product(*[factors[n]["levels"] for n in fnames]))
    rows = combos * 2
    rng.shuffle(rows)
    frame = {name: [r[i] for r in rows] for i, name in enumerate(fnames)}
    frame["x"] = [rng.randrange(-4, 9) for _ in rows]
    frame["y"] = [i % 4 for i in range(len(rows))]
    return {"factors": factors, "frame": frame, "terms": terms, "intercept": intercept}


NUMERIC_NAMES = ["x", "z", "w"]


def _subsets(t):
    return [frozenset(c) for r in range(1, len(t) + 1) for c in itertools.combinations(sorted(t), r)]


def gen_interchange_numeric(rng):
    """numeric:factor interactions next to purely numeric terms (main effects, interactions, higher
    order products of x, z, w) that share some but not all numeric variables with them: the numeric
    part N of an interaction N:F is itself a term of the model (margin present: F is coded relative to
    it) or is not (margin absent: F spans the intercept inside N:F) while a numeric term that strictly
    contains N, is strictly contained in N or overlaps N is present; with and without the intercept,
    with and without the main effects of the factors"""
    nf = rng.choice([1, 1, 2])
    fnames = ["f", "h"][:nf]
    factors = {}
    for name, n in zip(fnames, rng.sample([2, 3, 3, 4], nf)):
        typ = rng.choice(["str", "str", "int", "cat", "ocat"])
        levels = rng.sample(range(0, 10), n) if typ == "int" else rng.sample(STR_POOL, n)
        cats = list(levels)
        rng.shuffle(cats)
        factors[name] = {"type": typ, "levels": levels, "categories": cats}
    numerics = NUMERIC_NAMES[:rng.choice([2, 3, 3])]
    variables = fnames + numerics
    for _ in range(50):
        fam = set()
        for _ in range(rng.choice([1, 1, 2])):
            num = frozenset(rng.sample(numerics, rng.choice([1, 1, 2])))        # N
            cat = frozenset(rng.sample(fnames, rng.choice([1, 1, 2]) if nf == 2 else 1))    # F
            fam.add(num | cat)
            # a purely numeric term sharing some but not all numeric variables with N
            others = [v for v in numerics if v not in num]
            kinds = ["margin"] + (["superset", "overlap"] if others else []) + (["subset"] if len(num) > 1 else [])
            for rel in rng.sample(kinds, rng.choice([1, 1, 2]) if len(kinds) > 1 else 1):
                if rel == "margin":
                    fam.add(num)
                elif rel == "superset":
                    fam.add(num | frozenset(rng.sample(others, rng.randrange(1, len(others) + 1))))
                elif rel == "subset":
                    fam.add(frozenset(rng.sample(sorted(num), 1)))
                else:
                    keep = rng.sample(sorted(num), rng.randrange(1, len(num) + 1))
                    if len(keep) == len(num) and len(num) > 1:
                        keep = keep[:-1]
                    fam.add(frozenset(keep) | frozenset(rng.sample(others, 1)))
            if len(cat) == 2 and rng.random() < 0.6:
                fam.update(num | frozenset([v]) for v in cat)               # lower-order interactions
        if rng.random() < 0.5:
            fam.update(frozenset([v]) for v in fnames if rng.random() < 0.7)   # main effects of factors
        if rng.random() < 0.3:
            fam.add(frozenset(rng.sample(numerics, 1)))
        intercept = rng.random() < 0.6
        terms = sorted(fam, key=lambda t: (len(t), [variables.index(v) for v in sorted(t, key=variables.index)]))
        terms = [sorted(t, key=variables.index) for t in terms]
        if single_interval(terms, intercept, factors):
            break
    else:
        terms, intercept = [["x", "z"], [fnames[0], "x"]], True
    combos = list(itertools.product(*[factors[n]["levels"] for n in fnames]))
    rows = combos * (3 if nf == 1 else 2)
    rng.shuffle(rows)
    frame = {name: [r[i] for r in rows] for i, name in enumerate(fnames)}
    for v in numerics:
        frame[v] = [rng.randrange(-4, 9) for _ in rows]
    frame["y"] = [i % 4 for i in range(len(rows))]
    return {"factors": factors, "frame": frame, "terms": terms, "intercept": intercept,
            "numeric_relations": numeric_relations(terms, factors)}


def numeric_relations(terms, factors):
    """how the purely numeric terms M of the model lie to the numeric parts N of its numeric:factor
    interactions (margin: M = N; superset / subset: strict; overlap: neither, but a shared variable),
    and "margin_absent" when some N is not a term"""
    pure = [frozenset(t) for t in terms if not any(v in factors for v in t)]
    rel = set()
    for t in terms:
        num = frozenset(v for v in t if v not in factors)
        if not num or len(num) == len(t):
            continue
        if num not in pure:
            rel.add("margin_absent")
        for m in pure:
            if m == num:
                rel.add("margin")
            elif num < m:
                rel.add("superset")
            elif m < num:
                rel.add("subset")
            elif m & num:
                rel.add("overlap")
    return sorted(rel)


def gen_coding(rng, name, fac, base):
    """a spelling for the factor; `base` = the reference coding (plain variable, C(k) for integers)"""
    levels = fac["levels"]
    if base:
        return {"kind": "plain"} if fac["type"] != "int" else {"kind": "c", "contrast": None, "levels": None}
    ref = rng.choice(levels)
    lv = list(levels)
    rng.shuffle(lv)
    options = [{"kind": "c", "contrast": None, "levels": None},
               {"kind": "t", "arg": ref, "levels": None},
               {"kind": "s", "arg": None, "levels": None},
               {"kind": "s", "arg": ref, "levels": None},
               {"kind": "c", "contrast": {"cls": "Sum"}, "levels": None},
               {"kind": "c", "contrast": {"inst": "Treatment", "arg": ref}, "levels": None},
               {"kind": "c", "contrast": {"inst": "Sum", "arg": ref}, "levels": lv},
               {"kind": "c", "contrast": None, "levels": lv},
               {"kind": "t", "arg": ref, "levels": lv, "kw": True},
               {"kind": "c", "contrast": None, "levels": lv, "levels_as": "tuple"},
               {"kind": "s", "arg": None, "levels": lv, "levels_as": "tuple"}]
    if fac["type"] != "int":
        options.append({"kind": "plain"})
    return rng.choice(options)


def interchange_formula(struct, codings):
    env = {}
    text = {name: spelling_text(codings[name], name, env) for name in struct["factors"]}
    terms = [":".join(text.get(v, v) for v in t) for t in struct["terms"]]
    return ("y ~ " if struct["intercept"] else "y ~ 0 + ") + " + ".join(terms), env


def build_frame(struct):
    import pandas as pd
    cols = {}
    for name, vals in struct["frame"].items():
        fac = struct["factors"].get(name)
        if fac is None:
            cols[name] = vals
        else:
            cols[name] = make_column({"type": fac["type"], "values": vals,
                                      "categories": fac["categories"]})
    return pd.DataFrame(cols)


def impl_interchange(case):
    import numpy as np
    df = build_frame(case)
    out = {}
    for key in ("base", "variant"):
        formula, env = case[key]["formula"], case[key]["env"]
        try:
            build = make_builder(case.get("scope"), namespace(env), len(df))
            dm = _quiet(lambda: build(formula, df))
            m = _int_matrix(np.asarray(dm.common.design_matrix))
            if m is None:
                out[key] = {"err": "NonIntegralMatrix"}
            else:
                out[key] = {"matrix": m, "ncol": len(m[0]) if m else 0,
                            "labels": [l for t in dm.common.terms.values() for l in t.labels]}
        except Exception as e:  # noqa
            out[key] = {"err": type(e).__name__}
    return out


def gen_interchange_cases(tier, seed):
    rng = rng_for(seed, "c13", "interchange")
    cases = []
    for _ in range(150 if tier == "quick" else 1500):
        struct = gen_interchange(rng)
        base_cod = {n: gen_coding(rng, n, f, True) for n, f in struct["factors"].items()}
        bf, benv = interchange_formula(struct, base_cod)
        for _ in range(3):
            cod = {n: gen_coding(rng, n, f, False) for n, f in struct["factors"].items()}
            vf, venv = interchange_formula(struct, cod)
            cases.append({"kind": "interchange", "factors": struct["factors"], "frame": struct["frame"],
                          "terms": struct["terms"], "intercept": struct["intercept"],
                          "base": {"formula": bf, "env": benv},
                          "variant": {"formula": vf, "env": venv}})
    # numeric:factor interactions next to purely numeric terms sharing some of their numeric variables
    rng = rng_for(seed, "c13", "interchange-numeric")
    for _ in range(60 if tier == "quick" else 600):
        struct = gen_interchange_numeric(rng)
        base_cod = {n: gen_coding(rng, n, f, True) for n, f in struct["factors"].items()}
        bf, benv = interchange_formula(struct, base_cod)
        for _ in range(3):
            cod = {n: gen_coding(rng, n, f, False) for n, f in struct["factors"].items()}
            vf, venv = interchange_formula(struct, cod)
            cases.append({"kind": "interchange", "factors": struct["factors"], "frame": struct["frame"],
                          "terms": struct["terms"], "intercept": struct["intercept"],
                          "numeric_relations": struct["numeric_relations"],
                          "base": {"formula": bf, "env": benv},
                          "variant": {"formula": vf, "env": venv}})
    cases.extend(shadow_twins(cases, seed, 6))
    return cases


# ------------------------------------------------------------------------------------------------
def _same_obs(a, b):
    if ("err" in a) != ("err" in b):
        return False
    if "err" in a:
        return True
    return all(a[k] == b[k] for k in ("levels", "matrix", "labels", "value", "spans"))


def explore(tier, seed, res=None, replay=None):
    res = res or Result()
    res.rule = ("code: Treatment/Sum(arg).code_with/without_intercept(levels) for every n and every "
                "arg; design: one factor in one spelling (g, C, T, S, nested C, T/S over C; contrast "
                "none/class/instance; levels none/arrangement/defective, passed as list / tuple / numpy array / "
                "pandas Index; string, integer, Categorical, "
                "ordered Categorical columns) through design_matrices, then the prediction path: "
                "common.evaluate_new_data on the training column, on a longer rearrangement containing "
                "every level and on a column lacking one level, each row judged to be the contrast row "
                "of its level; every fourth design case again from a calling scope (caller locals / "
                "caller globals / extra_namespace) that binds C, T, S, Sum, Treatment and other registry "
                "names to unrelated objects and look-alike functions (same expectation); interchange: a "
                "design with every factor recoded, on families of factor / numeric terms closed downwards "
                "with margins removed and on families with numeric:factor interactions next to purely "
                "numeric terms (x, z, w; margin, superset, subset, overlap of the numeric part; margin "
                "present or absent; with and without intercept), every sixth again from a shadowed "
                "calling scope. Non-trivial = at least two levels and the implementation "
                "evaluated; distinct by (kind, coding, levels, argument, mode)")
    if replay is not None:
        code_cases = [replay] if replay.get("kind") == "code" else []
        design_cases = [replay] if replay.get("kind") == "design" else []
        groups = []
        if replay.get("kind") == "alias":
            groups = [[dict(c, alias_group=0) for c in replay["group"]]]
        inter_cases = [replay] if replay.get("kind") == "interchange" else []
    else:
        code_cases = gen_code_cases(tier, seed)
        design_cases = gen_design_cases(tier, seed)
        groups = alias_groups(tier, seed)
        inter_cases = gen_interchange_cases(tier, seed)
        res.exhaustive = True
    for g in groups:
        design_cases.extend(g)
    for i, c in enumerate(design_cases):
        if "new" not in c:
            add_new_columns(c, rng_for(seed, "c13", "new", i))

    # ---------------- code ----------------
    impl = [impl_code(c) for c in code_cases]
    answers = ask([req_code(c, i) for c, i in zip(code_cases, impl)]) if code_cases else []
    for c, io_, an in zip(code_cases, impl, answers):
        res.evaluations += 1
        res.traces += 1
        res.count("kind:code")
        res.count("code:%s:%s" % (c["enc"], "with" if c["with"] else "without"))
        res.count("code:n=%d" % len(c["levels"]))
        model, spec = an["model"], an["spec"]
        m_ok = "ok" in model
        i_ok = "err" not in io_
        res.count("code:impl:" + ("ok" if i_ok else "error:" + io_["err"]))
        same = (m_ok == i_ok) and (not m_ok or (model["ok"]["matrix"] == io_["matrix"]
                                                and model["ok"]["labels"] == io_["labels"]))
        if i_ok and m_ok:
            # shape reported by numpy must be the list shape (n x 0 matrices included)
            n_rows = len(io_["matrix"])
            if io_["shape"][0] != n_rows or (n_rows and io_["shape"][1] != len(io_["matrix"][0])):
                same = False
        if not same:
            res.mismatches.append({"case": c, "impl": io_, "model": model})
        if spec["verdict"] == "fails":
            res.failures.append({"case": c, "impl": io_, "expected": spec,
                                 "why": "coding does not satisfy the specification: " + json.dumps(spec),
                                 "finding": None})
        if i_ok and len(c["levels"]) >= 2:
            res.nontrivial.add(("code", c["enc"], tuple(map(str, c["levels"])), s_(c["arg"]), c["with"]))
        if i_ok and len(res.samples) < 3 and len(c["levels"]) == 4 and c["arg"] is not None:
            res.samples.append({"case": c, "impl": {k: io_[k] for k in ("matrix", "labels")}})

    # ---------------- design ----------------
    impl = [impl_design(c) for c in design_cases]
    answers = ask([req_design(c, i) for c, i in zip(design_cases, impl)]) if design_cases else []
    by_group = {}
    for c, io_, an in zip(design_cases, impl, answers):
        res.evaluations += 1
        res.traces += 1
        res.count("kind:design")
        res.count("design:col:" + c["col"]["type"])
        res.count("design:spelling:" + c["spelling"]["kind"])
        res.count("design:" + ("reduced" if c["intercept"] else "full"))
        res.count("design:calling_scope:" + ("clean" if "scope" not in c else "shadowed:" + c["scope"]["where"]))
        for nm in c.get("scope", {}).get("bound", {}):
            if nm in CONTRAST_NAMES:
                res.count("design:shadowed_name:" + nm)
        model, spec = an["model"], an["spec"]
        m_ok = "ok" in model
        i_ok = "err" not in io_
        res.count("design:impl:" + ("ok" if i_ok else "error:" + io_["err"]))
        res.count("design:scope:" + ("in" if an["in_scope"] else "out"))
        if not an["in_scope"]:
            res.count("design:out_of_scope(D13 class, model only):" + ("ok" if i_ok else io_["err"]))
        cont = levels_container(c["spelling"])
        res.count("design:levels_as:" + cont)
        if cont not in DOCUMENTED_CONTAINERS and not i_ok:
            # levels handed over in a sequence type other than the documented "list or tuple": the
            # library may refuse it; only an evaluated factor is judged (it must honour the order)
            res.count("design:levels_as:%s:refused:%s" % (cont, io_["err"]))
            continue
        same = (m_ok == i_ok) and (not m_ok or all(model["ok"][k] == io_[k] for k in
                                                   ("levels", "matrix", "labels", "value", "spans")))
        if not same:
            res.mismatches.append({"case": c, "impl": io_, "model": model})
        if i_ok and not io_["consistent"]:
            res.failures.append({"case": c, "impl": io_, "expected": "labels name[label], columns = component value",
                                 "why": "design matrix columns / labels differ from the evaluated factor",
                                 "finding": None})
        if spec["verdict"] == "fails":
            finding = None
            if ("aliasOnBox" in an["classes"] and not i_ok and not m_ok
                    and io_["err"] == model.get("cls")):
                finding = FINDING_ALIAS
                res.known_hit[finding] = res.known_hit.get(finding, 0) + 1
            res.failures.append({"case": c, "impl": io_, "expected": spec,
                                 "why": "evaluated factor is not what the spelling asks for"
                                        + (" (%s, called from a scope binding %s in %s)" % (
                                            design_formula(c)[0], json.dumps(c["scope"]["bound"], sort_keys=True),
                                            c["scope"]["where"]) if "scope" in c else "")
                                        + ": " + json.dumps(spec),
                                 "finding": finding})
        if i_ok and len(io_["levels"]) >= 2:
            res.nontrivial.add(("design", json.dumps(spelling_json(c["spelling"]), sort_keys=True),
                                tuple(io_["levels"]), c["col"]["type"], c["intercept"])
                               + (("shadowed", json.dumps(c["scope"], sort_keys=True)) if "scope" in c else ()))
        if i_ok and len(res.samples) < 6 and c["spelling"].get("levels") and len(io_["levels"]) >= 3:
            res.samples.append({"formula": design_formula(c)[0], "levels_arg": c["spelling"]["levels"],
                                "impl": {k: io_[k] for k in ("levels", "matrix", "labels")}})
        if "alias_group" in c:
            by_group.setdefault(c["alias_group"], []).append((c, io_))
    # ---------------- design, prediction path ----------------
    # the codings built above, evaluated on new columns: row by row the contrast row of the row's
    # level (Spec.C13.rowsFollowLevels, the predicate used for the training rows), with the levels
    # and the contrast matrix the factor remembered
    reqs, owners = [], []
    for c, io_, an in zip(design_cases, impl, answers):
        if "err" in io_ or not an["in_scope"]:
            continue
        for nf, ob in zip(c.get("new", []), io_.get("new", [])):
            res.evaluations += 1
            tag = "all_levels" if nf["all_levels"] else "level_missing"
            small = dict({k: v for k, v in c.items() if k != "alias_group"}, new=[nf], stage="predict")
            if "err" in ob:
                res.count("predict:%s:refused:%s" % (tag, ob["err"]))
                if nf["all_levels"]:
                    res.failures.append({"case": small, "impl": ob,
                                         "expected": "evaluated (every level occurs; the same levels were accepted at training)",
                                         "why": "evaluate_new_data refuses a column in which every level occurs: "
                                                + design_formula(c)[0], "finding": None})
                continue
            res.count("predict:%s:evaluated" % tag)
            res.count("predict:col:" + c["col"]["type"])
            if not ob["intercept_ok"]:
                res.failures.append({"case": small, "impl": ob, "expected": "constant column of ones",
                                     "why": "intercept column of the new matrix is not 1", "finding": None})
            reqs.append({"op": "c13_rows", "levels": io_["levels"], "matrix": io_["matrix"],
                         "data": sl_([_plain(v) for v in nf["values"]]), "value": ob["value"]})
            owners.append((small, io_, ob))
    for (small, io_, ob), an in zip(owners, ask(reqs) if reqs else []):
        res.traces += 1
        if not an["rows"]:
            res.failures.append({
                "case": small,
                "impl": {"levels": io_["levels"], "contrast_matrix": io_["matrix"], "labels": io_["labels"],
                         "new_rows": ob["value"]},
                "expected": "row t of the evaluate_new_data matrix = contrast row of the level of row t",
                "why": "prediction: rows of %s on the new column %s are not the contrast rows of their "
                       "levels (levels %s)" % (design_formula(small)[0], small["new"][0]["values"],
                                               io_["levels"]),
                "finding": None})
        elif len(io_["levels"]) >= 2:
            res.nontrivial.add(("predict", json.dumps(spelling_json(small["spelling"]), sort_keys=True),
                                tuple(io_["levels"]), small["col"]["type"], small["intercept"],
                                small["new"][0]["frame"]))
    for gid, members in by_group.items():
        res.evaluations += 1
        res.count("kind:alias_group")
        c0, o0 = members[0]
        for c1, o1 in members[1:]:
            if not _same_obs(o0, o1):
                res.failures.append({"case": {"kind": "alias", "group": [c0, c1]},
                                     "impl": {"first": o0, "second": o1},
                                     "expected": "identical levels, contrast matrix, labels and columns",
                                     "why": "%s and %s give different factors" % (
                                         design_formula(c0)[0], design_formula(c1)[0]),
                                     "finding": None})

    # ---------------- interchange (test) ----------------
    for c in inter_cases:
        res.evaluations += 1
        res.count("kind:interchange")
        res.count("interchange:terms=%d" % len(c["terms"]))
        for rel in c.get("numeric_relations", []):
            res.count("interchange:numeric_term_next_to_numeric:factor:" + rel)
        if "scope" in c:
            res.count("interchange:calling_scope:shadowed:" + c["scope"]["where"])
        out = impl_interchange(c)
        b, v = out["base"], out["variant"]
        if "err" in b:
            # the reference design itself is refused: not a C13 observation (C03's territory)
            res.count("interchange:base_error:" + b["err"])
            continue
        if "err" in v:
            res.count("interchange:variant_error:" + v["err"])
            res.failures.append({"case": c, "impl": {"base": {"ncol": b["ncol"]}, "variant": v},
                                 "expected": "the recoded design evaluates",
                                 "why": "recoding the factors makes the design fail: %s vs %s" % (
                                     c["base"]["formula"], c["variant"]["formula"]),
                                 "finding": None})
            continue
        same, ranks = same_column_space(b["matrix"], v["matrix"])
        res.traces += 1
        res.count("interchange:rank=%d" % ranks[0])
        if not same or b["ncol"] != v["ncol"]:
            res.failures.append({"case": c, "impl": {"base_labels": b["labels"], "variant_labels": v["labels"],
                                                     "ranks(base, variant, joint)": ranks,
                                                     "ncol": [b["ncol"], v["ncol"]]},
                                 "expected": "equal column spaces",
                                 "why": "recoding changed the column space of the design: %s vs %s" % (
                                     c["base"]["formula"], c["variant"]["formula"]),
                                 "finding": None})
        res.nontrivial.add(("interchange", c["base"]["formula"], c["variant"]["formula"],
                            json.dumps(c["variant"]["env"], sort_keys=True),
                            json.dumps(c.get("scope"), sort_keys=True)))
        if len(res.samples) < 8:
            res.samples.append({"base": c["base"]["formula"], "variant": c["variant"]["formula"],
                                "ranks": ranks})
    return res
