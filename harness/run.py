"""Entry point of every check:  run.py <property> quick|thorough   |   run.py <property> --replay <path>"""
import importlib
import json
import os
import sys
import time

sys.path.insert(0, os.path.dirname(os.path.abspath(__file__)))
import common  # noqa: E402



def main():
    if len(sys.argv) < 3:
        print(__doc__)
        return 2
    prop = sys.argv[1]
    t0 = time.time()
    seed = int(os.environ.get("VERIF_SEED", "0"))
    mod = importlib.import_module(prop.lower())
    replay = None
    if sys.argv[2] == "--replay":
        with open(os.path.join(common.VERIF, sys.argv[3]) if not os.path.isabs(sys.argv[3])
                  else sys.argv[3]) as f:
            payload = json.load(f)
        replay = payload.get("case") or {}
        tier = payload.get("tier", "quick")
        seed = payload.get("seed", seed)
    else:
        tier = os.environ.get("VERIF_TIER", sys.argv[2])
    if tier not in ("quick", "thorough"):
        print("tier must be quick or thorough")
        return 2
    common.quiet_formulae()
    ob = common.obligations(prop)
    res = common.Result()
    if not ob["driver_ok"] and not common.driver_available():
        ob["broken"].append("no Lean driver binary available: correspondence not run")
    else:
        try:
            if replay is not None and not replay:
                print("replay file names a broken obligation, not an input; re-running the check")
                replay = None
            res = mod.explore(tier, seed, res, replay)
            if (ob["broken"] or res.mismatches) and not res.failures and tier == "quick" \
                    and replay is None:
                # an obligation or the correspondence broke: search harder for a failing input
                res.notes.append("obligation/correspondence broken: deep search (thorough bounds)")
                res = mod.explore("thorough", seed, res, None)
        except Exception as e:  # harness crash: not a verdict
            import traceback
            traceback.print_exc()
            print(f"{prop}: harness error {e!r}")
            return 2
    extra = getattr(mod, "TRUSTED", [])
    if tier == "thorough" and ob["ok"]:
        ok, log = common.leanchecker(prop)
        res.notes.append("leanchecker: " + ("ok" if ok else "FAILED " + log[-300:]))
        if not ok:
            ob["broken"].append("leanchecker rejected the compiled proofs")
            ob["ok"] = False
    return common.finish(prop, tier, seed, ob, res, t0, getattr(mod, 'ASSUMPTIONS', []), extra,
                         getattr(mod, 'LEVEL', 'proof'))


if __name__ == "__main__":
    sys.exit(main())
