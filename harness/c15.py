"""C15 — response handling."""
import re

import numpy as np
import pandas as pd

import designs
from common import Result, ask, rng_for, known_findings

ASSUMPTIONS = [
    "Spec.C15.expected (what the response matrix must be, from the response expression and the data) "
    "is evaluated by the Lean driver and compared there with the matrix / levels / kind the "
    "implementation returned; predictor independence and refusal of non-single-term responses are "
    "relations between real runs",
    "a prop response evaluated on a new frame (response.evaluate_new_data) is judged by "
    "Spec.C15.expectedTrials, evaluated by the Lean driver on the NEW frame (the trials column of that "
    "frame, a constant broadcast to ITS row count), for new frames shorter than, as long as and longer "
    "than the training frame; the driver is sent the columns of the new frame that the response "
    "expression names",
    "level spellings of y['...']: the empty string, Python keywords / literals as text, blanks inside "
    "and around, numeric-looking text, on str / unordered / ordered Categorical columns; levels that "
    "contain a quote character are outside the explored space (the scanner has no escape syntax)",
]
ASSUMPTIONS += [
    "degenerate sizes: every response form is also built on a one-row frame and on a frame in which "
    "missing values in used columns (float NaN, str None, Categorical NaN) leave exactly one complete "
    "row under na_action='drop'; a response with a single observed level (`one`, and every str "
    "response on one row) is part of the response forms",
    "the shape of response.design_matrix is judged by Spec.C15.shapeHolds ([n, #levels] for a "
    "categorical response, [n, 2] for prop, one column for numeric and y[level]; n = rows of the frame "
    "after the NA step); a 0-d array is sent as a 1 x 1 matrix and fails on its shape",
    "'a numeric response is returned unchanged' is judged exactly (Spec.C15.unchanged, no tolerance) "
    "for bare / back-quoted numeric columns: float64, int64 and uint64 columns and the pandas nullable "
    "Int64 / UInt64 (with and without pd.NA) holding integers beyond 2**53 that float64 cannot "
    "represent; values cross the protocol as Python integers",
]
ASSUMPTIONS += [
    "a categorical response written as a boxing call -- C(v), T(v), S(v), C(v, Treatment), C(v, Sum), "
    "T(v, ref), C(v, levels=...) -- over int64 columns whose values do not sort like their string forms "
    "(1, 2, 10; negatives and several digits drawn per frame), float columns (fractions such as 0.5, "
    "2.25, 10.0, -10.25 and integer-valued floats), str / unordered / ordered Categorical columns, with "
    "level lists for levels= that are not in sorted order: judged by Spec.C15.expected (one indicator "
    "column per level; order = levels= / declared order of an ordered Categorical / sorted, numbers "
    "numerically; `levels` = str of the levels, float levels as Python prints them -- modelled for "
    "dyadic fractions with at most four binary places, Spec.C15.floatLabel)",
    "responses that ask for sum-to-zero coding (Spec.C15.classD33: S(v ...), C(v, Sum ...)) that come "
    "back exactly as recorded (Spec.C15.d33Returned: the full-rank Sum coding of the levels in the "
    "prescribed order) are attributed to the finding KF-C15-D33 while it is open; any other deviation of "
    "such a response (e.g. a wrong level order) is a plain failure",
]
ASSUMPTIONS += [
    "name-collision stage (case key stage='extra_namespace binds names of data columns'): for a share of "
    "the (formula, frame) cases the design is built again with an extra_namespace that ALSO binds 1..all "
    "of the data columns the response expression names -- to an int / float / str scalar, an array, "
    "list or pandas Series of the frame's length, or a function (random stream (seed, 'c15', 'collide', "
    "frame, formula)); the response is judged by the same Spec.C15 predicates, evaluated on the CALLER's "
    "frame (complete rows of the columns model_description(formula).var_names names, taken by the "
    "harness, not read back from the design) with the int / str bindings in the spec's namespace: the "
    "data frame is looked up first (Model/Design.lean lookupName; property C11's order), so the "
    "response must be what the frame's columns give",
    "re-evaluation stage (case key stage='second evaluation of one model description'; the lower-level "
    "public entry point): for a share of the cases ONE model_description(formula) is evaluated twice, "
    "formulae.matrices.DesignMatrices(model, frame 1, env) and then DesignMatrices(model, frame 2, env), "
    "frame 2 being of the same length: a row permutation of frame 1, a permutation with the numeric "
    "columns edited (y -> 1 - y, other trials), or a resample with repetition (levels may be lost); both "
    "frames are cut to their complete rows in the used columns by the harness (what design_matrices "
    "does); the SECOND response is judged by the same Spec.C15 predicates on the SECOND frame; a second "
    "evaluation that raises is a failure unless design_matrices(formula, frame 2) raises as well",
]
TRUSTED = ["pandas dtype inference for the response column"]

RESPONSES = ["y", "yc", "cu", "co", "yc[yes]", "yc['yes']", "yc[\"maybe\"]", "cu[m3]", "co[lo]",
             "co[hi]", "co['mid']", "yc[absent]", "cu[m1]",
             "p(s, n)", "prop(s, n)", "proportion(s, 9)", "p(s, 12)", "p(s8, 300)",
             "prop(s8, nbig)", "I(y * 2)", "{y + 1}", "`y`",
             "center(y)",
             # a single observed level; integers beyond 2**53 in numpy and nullable integer columns
             "one", "bi", "bI", "bu", "bU", "bN", "`bI`"]
# a categorical response written as a boxing call, over numeric columns whose values do not sort the
# same way as their string forms (k: 1, 2, 10; kn: negatives and several digits; vf: floats with
# fractions; wf: integer-valued floats), over str / Categorical / ordered columns, with a contrast
# named and with the order declared by levels=
BOX_RESPONSES = ["C(k)", "T(k)", "S(k)", "C(k, Treatment)", "C(k, levels=lv_k)", "T(k, 2)",
                 "C(kn)", "T(kn)", "S(kn)", "C(kn, Treatment)", "C(kn, levels=lv_kn)", "C(kn, Sum)",
                 "C(vf)", "T(vf)", "S(vf)", "C(vf, Treatment)", "C(wf)", "T(wf)", "S(wf)",
                 "C(kz)", "T(kz, 0)", "C(yc)", "T(yc)", "S(yc)", "C(yc, Treatment)",
                 "C(yc, levels=lv_yc)", "T(yc, 'no')", "C(cu)", "T(cu)", "C(co)", "T(co)", "S(co)",
                 "C(cu, levels=lv_cu)", "T(h)"]
KN_POOL = [-12, -2, -1, 0, 3, 9, 10, 11, 100, -100, 25]
VF_POOL = [-3.0, -0.5, 0.5, 2.25, 9.0, 10.0, 10.5, 100.0, 0.0625, -10.25, 1.5]
WF_POOL = [2.0, 9.0, 10.0, -1.0, 100.0, 11.0, 0.0]
VARIANTS = ["one_row", "one_complete"]
# unusual but legitimate level spellings: the empty string, Python keywords / literals spelled as text,
# blanks inside and around, numeric-looking text.  (None of them contains a quote character.)
QLEVELS = ["", "None", "no answer", "1", "if", "True", "01", "1.0", " pad ", "not", "0"]
QCAT = ["no answer", "", "1", "None"]             # declared order of the Categorical twins: not sorted
LEVEL_RESPONSES = (["yq", "cq", "cqo"] + [f"yq['{l}']" for l in QLEVELS] +
                   ['yq[""]', 'yq["no answer"]', "yq[if]", "yq[not]", "yq['absent level']", "yq[' ']",
                    "cq['']", 'cq[""]', "cq['None']", "cqo['']", 'cqo["1"]', "cqo['no answer']",
                    "cq['absent']"])
BAD_RESPONSES = ["y + z", "y:z", "y*z", "(y | g)", "1", "0", "y / z",
                 # two terms over ONE variable that differ in the level only (eleventh seeded wave,
                 # C15_Q: term identity by name, which leaves out `[level]`, collapses them into one)
                 "yc[no] + yc[yes]", "yc[no]:yc[yes]", "yc[no]*yc[yes]", "yc[no] + yc",
                 "yc['maybe'] + yc[yes] + yc[no]", "yc[yes] / yc[no]", "yc + yc[maybe]"]
RHS = ["x", "f", "x + f", "f:x + g", "0 + f", "x + (1 | g)", "(x | g) + f", "C(k) + z",
       "center(x):f", "1", "0 + x + (0 + f | h)", "0", "-1", "0 + (1 | g)"]


def run(formula, df, names=None):
    import contextlib
    import io
    import formulae
    try:
        with contextlib.redirect_stdout(io.StringIO()):     # the library prints when a call raises
            dm = formulae.design_matrices(formula, df,
                                          extra_namespace=dict(designs.namespace(), **(names or {})))
    except Exception as e:  # noqa
        return {"err": type(e).__name__}, None
    return None, dm


def add_level_columns(r, df):
    """columns whose levels have unusual spellings (every level occurs)"""
    n = len(df)

    def draw(levels):
        xs = [r.choice(levels) for _ in range(n)]
        for i, l in enumerate(levels):
            xs[i % n] = l
        r.shuffle(xs)
        return xs
    df["yq"] = draw(QLEVELS)
    df["cq"] = pd.Categorical(draw(QCAT), categories=QCAT)
    df["cqo"] = pd.Categorical(draw(QCAT), categories=QCAT, ordered=True)
    return df


def add_factor_columns(r, df):
    """numeric factors whose sorted order is not the order of their string forms (every level
    occurs), and the level lists (not sorted) that `levels=` declares for them
    -> {name: list} for the formula namespace"""
    n = len(df)

    def draw(levels):
        xs = [r.choice(levels) for _ in range(n)]
        for i, l in enumerate(levels):
            xs[i % n] = l
        r.shuffle(xs)
        return xs

    def unsorted(levels):
        out = list(levels)
        while len(out) > 1 and out == sorted(levels):
            r.shuffle(out)
        return out
    kn = r.sample(KN_POOL, r.randrange(3, 6))
    df["kn"] = np.array(draw(kn), dtype="int64")
    df["vf"] = np.array(draw(r.sample(VF_POOL, r.randrange(3, 6))), dtype=float)
    df["wf"] = np.array(draw(r.sample(WF_POOL, r.randrange(3, 5))), dtype=float)
    return {"lv_k": unsorted([1, 2, 10]), "lv_kn": unsorted(kn),
            "lv_yc": unsorted(["no", "yes", "maybe"]), "lv_cu": unsorted(designs.LV["cu"])}


def add_int_columns(r, df):
    """numeric responses that float64 cannot hold: int64 / uint64 and the nullable Int64 / UInt64
    (one of them with missing values) with magnitudes beyond 2**53"""
    n = len(df)

    def big():
        m = r.choice([2 ** 53, 2 ** 53, 2 ** 55, 2 ** 60, 2 ** 62])
        return r.choice([1, -1]) * (m + r.randrange(1, 400))

    vals = [big() if r.random() < 0.8 else r.randrange(-50, 50) for _ in range(n)]
    uvals = [r.choice([2 ** 53, 2 ** 63, 2 ** 64 - 500]) + r.randrange(1, 400) if r.random() < 0.8
             else r.randrange(0, 50) for _ in range(n)]
    df["bi"] = np.array(vals, dtype="int64")
    df["bI"] = pd.array(vals, dtype="Int64")
    df["bu"] = np.array(uvals, dtype="uint64")
    df["bU"] = pd.array(uvals, dtype="UInt64")
    miss = [None if r.random() < 0.3 else v for v in vals]
    miss[r.randrange(n)] = vals[0]
    df["bN"] = pd.array(miss, dtype="Int64")
    return df


NA_COLUMNS = ("y", "x", "z", "yc", "f", "g", "h", "cu", "co", "yq", "cq", "cqo")


def variant_frame(r, df, variant):
    """one_row: a single row of the frame (its label kept); one_complete: the same frame with
    missing values in the float / str / Categorical columns of every row but one"""
    n = len(df)
    j = r.randrange(n)
    if variant == "one_row":
        return df.iloc[[j]]
    out = df.copy()
    for c in NA_COLUMNS:
        col = df[c]
        vals = col.tolist()
        if isinstance(col.dtype, pd.CategoricalDtype):
            vals = [v if i == j else None for i, v in enumerate(vals)]
            out[c] = pd.Categorical(vals, categories=col.dtype.categories, ordered=col.dtype.ordered)
        elif pd.api.types.is_numeric_dtype(col):
            out[c] = np.array([v if i == j else np.nan for i, v in enumerate(vals)], dtype=float)
        else:
            out[c] = np.array([v if i == j else None for i, v in enumerate(vals)], dtype=object)
    return out


def kept_rows(dm, df):
    """positions of the rows of `df` that are complete in the columns the design uses"""
    cols = [c for c in designs.dm_frame(dm, df).columns if c in df.columns]
    return tuple(np.flatnonzero(~df[cols].isna().any(axis=1).to_numpy()).tolist())


def resp_mat(a):
    """the array as rows (first axis = observations); a 0-d array has no row axis: sent as 1 x 1,
    its shape [] is what the shape predicate judges"""
    a = np.asarray(a)
    if a.ndim == 0:
        return [[designs.frac(a.item())]]
    if a.ndim == 1:
        a = a[:, None]
    elif a.ndim > 2:
        a = a.reshape(len(a), -1)
    return [[designs.frac(v) for v in row] for row in a.tolist()]


def new_frames(r, df):
    """prediction frames shorter than, as long as and longer than the training frame (rows drawn
    from it with repetition, fresh trials)"""
    n = len(df)
    out = []
    for m in (r.randrange(1, n), n, n + r.randrange(1, n + 1)):
        nd = df.iloc[[r.randrange(n) for _ in range(m)]].reset_index(drop=True)
        nd["n"] = [int(v) + r.randrange(0, 4) for v in nd["n"]]
        nd["nbig"] = nd["n"] + 250
        out.append(designs.scramble_index(r, nd))
    return out


def caller_frame(formula, df):
    """the rows of the caller's frame that are complete in the columns the formula names (the NA step
    of design_matrices, done here on the caller's frame)"""
    import formulae
    names = formulae.model_description(formula).var_names
    sub = df[[c for c in df.columns if c in names]]
    return sub[~sub.isna().any(axis=1).to_numpy()] if sub.shape[1] else sub


def spec_request(formula, frame, names, rm):
    """c15_spec request for the response matrix object `rm` against `frame`; -> (request, owner tail)"""
    shape = [int(v) for v in np.shape(rm.design_matrix)]
    levels = None if rm.levels is None else [str(x) for x in rm.levels]
    return ({"op": "c15_spec", "formula": formula, "frame": designs.frame_json(frame),
             "names": designs.names_json(names), "matrix": resp_mat(rm.design_matrix),
             "shape": shape, "kind": rm.kind, "levels": levels}, (rm.kind, shape, levels))


def colliding_namespace(r, df, cols):
    """extra_namespace entries whose names are ALSO columns of the frame: scalars, arrays / lists /
    Series of the frame's length, functions -> (bindings, description, the int / str ones)"""
    n = len(df)
    binds, told, plain = {}, {}, {}
    for c in r.sample(cols, r.randrange(1, len(cols) + 1)):
        k = r.randrange(8)
        if k == 0:
            v = r.choice([10, 1, 0, -3, 1000])
            plain[c] = v
        elif k == 1:
            v = r.choice([2.5, 0.0, -1.5])
        elif k == 2:
            v = np.ones(n) * r.randrange(1, 9)
        elif k == 3:
            v = np.arange(n, 0, -1)
        elif k == 4:
            v = (lambda x, *a, **kw: x)
        elif k == 5:
            v = r.choice(["text", "yes", "a", ""])
            plain[c] = v
        elif k == 6:
            v = [r.randrange(1, 30) for _ in range(n)]
        else:
            v = pd.Series([float(r.randrange(-5, 6)) for _ in range(n)])
        binds[c] = v
        told[c] = ("a function" if k == 4 else f"{type(v).__name__} {v!r}" if k in (0, 1, 5) else
                   f"{type(v).__name__} of length {n}: {list(v)[:4]}...")
    return binds, told, plain


SECOND_FRAMES = ["permuted", "permuted, numeric columns edited", "resampled with repetition"]


def second_frame(r, df, kind):
    """another frame of the same length for the second evaluation of one model description"""
    n = len(df)
    if kind == "resampled with repetition":
        idx = [r.randrange(n) for _ in range(n)]
    else:
        idx = list(range(n))
        while n > 1 and idx == list(range(n)):
            r.shuffle(idx)
    d2 = df.iloc[idx].reset_index(drop=True).copy()
    if kind == "permuted, numeric columns edited":
        d2["y"] = 1 - d2["y"]
        d2["n"] = [int(v) + r.randrange(1, 4) for v in d2["n"]]
        d2["nbig"] = d2["n"] + 250
        d2["x"] = d2["x"] + 1
    return designs.scramble_index(r, d2)


def reevaluate(formula, df1, df2, names):
    """ONE model description evaluated on df1, then on df2, through DesignMatrices(model, frame, env)
    -> (error class of the second evaluation or None, second design or None, frame 2 as passed)"""
    import contextlib
    import io
    from formulae import model_description
    from formulae.environment import Environment
    from formulae.matrices import DesignMatrices
    env = Environment.capture(0).with_outer_namespace(dict(designs.namespace(), **(names or {})))
    model = model_description(formula)

    def used(d):
        sub = d[[c for c in d.columns if c in model.var_names]]
        return sub[~sub.isna().any(axis=1).to_numpy()] if sub.shape[1] else sub
    u2 = used(df2)
    with contextlib.redirect_stdout(io.StringIO()):
        DesignMatrices(model, used(df1), env)
        try:
            return None, DesignMatrices(model, u2, env), u2
        except Exception as e:  # noqa
            return type(e).__name__, None, u2


def names_in(text):
    return set(re.findall(r"[A-Za-z_][A-Za-z_0-9]*", text))


def explore(tier, seed, res=None, replay=None):
    res = res or Result()
    res.rule = ("%d response forms (numeric, str, Categorical, ordered, y[ident], y['quoted'] incl. the "
                "empty level / keyword-like / blank-containing / numeric-looking levels, calls, prop "
                "with column or constant trials, a one-level factor, int64 / uint64 / nullable Int64 / "
                "UInt64 columns with integers beyond 2**53, boxing calls C / T / S over int, float, str and "
                "Categorical columns with and without a contrast / levels=) x right-hand sides x generated frames, "
                "each frame also cut down to one row and to one complete row; every prop "
                "response also evaluated on new frames shorter than, as long as and longer than the "
                "training frame; one case in six built again with an extra_namespace that also binds names "
                "of the data columns the response uses (the frame must win), one in six evaluated a "
                "second time from ONE model description on another frame of the same length (second "
                "response judged on the second frame); plus non-single-term responses and formulas "
                "without a response; "
                "non-trivial = a categorical, subset or prop response; distinct by (formula, frame "
                "seed)" % (len(RESPONSES) + len(LEVEL_RESPONSES) + len(BOX_RESPONSES)))
    n_frames = 3 if tier == "quick" else 10
    rhs_pool = list(RHS)
    rng0 = rng_for(seed, "c15", "rhs")
    extra = 30 if tier == "quick" else 190
    for _ in range(extra):
        rhs_pool.append(designs.gen_formula(rng0, response="y").split("~", 1)[1].strip())
    reqs, owners = [], []
    cases = []
    if replay is not None:
        cases = [(replay["formula"], replay.get("seed_path", 0), replay.get("variant"))]
    else:
        k = 0
        for fi in range(n_frames):
            for ri, rhs in enumerate(rhs_pool):
                # every response form with a rotating subset of right-hand sides per frame
                for resp in RESPONSES:
                    if (ri + RESPONSES.index(resp) + fi) % (1 if tier == "thorough" else 3) == 0:
                        cases.append((f"{resp} ~ {rhs}", fi, None))
                for li, resp in enumerate(LEVEL_RESPONSES):
                    if (ri + li + fi) % (3 if tier == "thorough" else 9) == 0:
                        cases.append((f"{resp} ~ {rhs}", fi, None))
                # categorical responses written as boxing calls
                for li, resp in enumerate(BOX_RESPONSES):
                    if (ri + li + fi) % (4 if tier == "thorough" else 6) == 0:
                        cases.append((f"{resp} ~ {rhs}", fi, None))
                # degenerate sizes: one row, one complete row
                for vi, variant in enumerate(VARIANTS):
                    for li, resp in enumerate(RESPONSES + LEVEL_RESPONSES[:3]):
                        if (ri + li + fi + vi) % (4 if tier == "thorough" else 7) == 0:
                            cases.append((f"{resp} ~ {rhs}", fi, variant))
                    for li, resp in enumerate(BOX_RESPONSES):
                        if (ri + li + fi + vi) % (16 if tier == "thorough" else 21) == 0:
                            cases.append((f"{resp} ~ {rhs}", fi, variant))
                k += 1
    frames = {}
    fnames = {}
    news = {}
    base_cache = {}
    pred_reqs, pred_owners = [], []
    judged = 0
    for formula, fi, variant in cases:
        if fi not in frames:
            frames[fi] = designs.gen_frame(rng_for(seed, "c15", "frame", fi))
            # successes stored with a compact dtype, trials beyond its range
            frames[fi]["s8"] = frames[fi]["s"].astype("int8")
            frames[fi]["nbig"] = frames[fi]["n"] + 250
            add_level_columns(rng_for(seed, "c15", "levels", fi), frames[fi])
            add_int_columns(rng_for(seed, "c15", "ints", fi), frames[fi])
            fnames[fi] = dict(designs.NAMES, **add_factor_columns(rng_for(seed, "c15", "factors", fi),
                                                                  frames[fi]))
            news[fi] = new_frames(rng_for(seed, "c15", "new", fi), frames[fi])
        if variant is not None and (fi, variant) not in frames:
            frames[(fi, variant)] = variant_frame(rng_for(seed, "c15", "variant", fi, variant),
                                                  frames[fi], variant)
        df = frames[fi] if variant is None else frames[(fi, variant)]
        res.evaluations += 1
        err, dm = run(formula, df, fnames[fi])
        case = {"formula": formula, "seed_path": fi}
        if variant is not None:
            case["variant"] = variant
        if err:
            res.count("impl_error:" + err["err"] + ("" if variant is None else ":" + variant))
            continue
        if dm.response is None:
            res.failures.append({"case": case, "impl": "no response", "expected": "a response",
                                 "finding": None, "why": "formula with ~ gives no response matrix"})
            continue
        rm = dm.response
        t = rm.term.term
        used = designs.dm_frame(dm, df)
        try:
            shape = [int(v) for v in np.shape(rm.design_matrix)]
            matrix = resp_mat(rm.design_matrix)
        except Exception as e:  # noqa: an object that is not an array of numbers
            res.failures.append({"case": case, "impl": repr(e)[:200], "finding": None,
                                 "expected": "a numeric array", "why": "response.design_matrix is "
                                 "not an array of numbers"})
            continue
        reqs.append({"op": "c15_spec", "formula": formula,
                     "frame": designs.frame_json(used),
                     "names": designs.names_json(fnames[fi]),
                     "matrix": matrix, "shape": shape, "kind": rm.kind,
                     "levels": None if rm.levels is None else [str(x) for x in rm.levels]})
        owners.append((case, rm.kind, shape, None if rm.levels is None else [str(x) for x in rm.levels]))
        stage = replay.get("stage", "") if replay is not None else ""
        judged += 1
        # name-collision stage: the same design with an extra_namespace that also binds names of data
        # columns the response uses; the frame must win (own random stream per (frame, formula))
        resp0 = formula.split(" ~ ", 1)[0]
        cols = sorted(c for c in names_in(resp0) if c in df.columns)
        if variant is None and cols and (stage.startswith("extra_namespace") if replay is not None
                                         else judged % 6 == 0):
            rc = rng_for(seed, "c15", "collide", fi, formula)
            binds, told, plain = colliding_namespace(rc, df, cols)
            ccase = dict(case, stage="extra_namespace binds names of data columns",
                         extra_namespace_also_binds=told)
            res.evaluations += 1
            res.count("name_collision_runs")
            err_c, dm_c = run(formula, df, dict(fnames[fi], **binds))
            if err_c or dm_c.response is None:
                res.failures.append({"case": ccase, "impl": err_c or "no response", "finding": None,
                                     "expected": "the design built without these bindings (the data "
                                                 "frame is looked up first)",
                                     "why": "the design is refused / has no response when "
                                            "extra_namespace also binds names of data columns"})
            else:
                try:
                    rq, tail = spec_request(formula, caller_frame(formula, df),
                                            dict(fnames[fi], **plain), dm_c.response)
                    reqs.append(rq)
                    owners.append((ccase,) + tail)
                except Exception as e:  # noqa
                    res.failures.append({"case": ccase, "impl": repr(e)[:200], "finding": None,
                                         "expected": "a numeric array",
                                         "why": "response.design_matrix is not an array of numbers"})
        # re-evaluation stage: one model description, DesignMatrices twice, the second time on another
        # frame of the same length; the second response is judged on the second frame
        stateful = any(t in resp0 for t in ("center(", "scale(", "standardize("))
        if variant is None and stateful and replay is None and judged % 6 == 3:
            # a stateful transform keeps the parameters of its FIRST evaluation (property C06: frozen
            # parameters); what its second evaluation on another frame must be is not part of C15
            res.count("re-evaluation:not-judged (stateful transform in the response)")
        elif variant is None and not stateful and (
                stage.startswith("second evaluation") if replay is not None else judged % 6 == 3):
            rv = rng_for(seed, "c15", "re-evaluation", fi, formula)
            kind2 = rv.choice(SECOND_FRAMES)
            df2 = second_frame(rv, df, kind2)
            rcase = dict(case, stage="second evaluation of one model description (model_description + "
                                     "DesignMatrices(model, frame, env) twice)", second_frame=kind2)
            res.evaluations += 1
            res.count("re-evaluations:" + kind2)
            try:
                err2, dm2, u2 = reevaluate(formula, df, df2, fnames[fi])
            except Exception as e:  # noqa  (the FIRST evaluation through this entry point is refused)
                err2, dm2, u2 = None, None, None
                res.count("reevaluation_first_refused:" + type(e).__name__)
            if err2 is not None:
                e_fresh, _ = run(formula, df2, fnames[fi])
                if e_fresh:
                    res.count("reevaluation_refused_like_a_fresh_design:" + err2)
                else:
                    res.failures.append({"case": rcase, "impl": {"error": err2}, "finding": None,
                                         "expected": "a design (design_matrices(formula, second frame) "
                                                     "gives one)",
                                         "why": "the second DesignMatrices(model, frame, env) on one "
                                                f"model description raises {err2}"})
            elif dm2 is not None and dm2.response is not None:
                try:
                    rq, tail = spec_request(formula, u2, fnames[fi], dm2.response)
                    reqs.append(rq)
                    owners.append((rcase,) + tail)
                except Exception as e:  # noqa
                    res.failures.append({"case": rcase, "impl": repr(e)[:200], "finding": None,
                                         "expected": "a numeric array",
                                         "why": "response.design_matrix is not an array of numbers"})
        res.count("retained_rows:" + ("1" if len(used) == 1 else "2+")
                  + ("" if variant is None else ":" + variant))
        resp, rhs = formula.split(" ~ ", 1)
        if rm.kind == "proportion":
            # the response on new frames of every length relation to the training frame
            for nd in news[fi]:
                res.evaluations += 1
                pcase = dict(case, when="prediction", train_rows=int(len(df)), new_rows=int(len(nd)))
                try:
                    got = np.asarray(rm.evaluate_new_data(nd), dtype=float)
                except Exception as e:  # noqa
                    res.failures.append({"case": pcase, "impl": type(e).__name__, "finding": None,
                                         "expected": "the trials of the new frame",
                                         "why": "response.evaluate_new_data raised"})
                    continue
                if got.ndim != 1:
                    got = got.reshape(len(got), -1)[:, -1] if got.size else got.ravel()
                cols = [c for c in nd.columns if c in names_in(resp)]
                pred_reqs.append({"op": "c15_predict", "formula": formula,
                                  "frame": designs.frame_json(nd[cols]),
                                  "names": designs.names_json(designs.NAMES),
                                  "column": [designs.frac(v) for v in got.tolist()]})
                pred_owners.append(pcase)
                res.count("prop_prediction:" + ("shorter" if len(nd) < len(df) else
                                                "equal" if len(nd) == len(df) else "longer"))
        if any(c in resp for c in "[(") or resp in ("yc", "cu", "co", "yq", "cq", "cqo", "one"):
            res.nontrivial.add((formula, fi, variant))
        # predictor independence: same right-hand side, response `y`
        key = (rhs, fi, variant)
        if key not in base_cache:
            e0, d0 = run("y ~ " + rhs, df, fnames[fi])
            base_cache[key] = None if e0 else {
                "kept": kept_rows(d0, df),
                "common": None if d0.common is None else designs.mat(d0.common.design_matrix),
                "group": None if d0.group is None else designs.mat(d0.group.design_matrix)}
        b = base_cache[key]
        if b is not None and b["kept"] != kept_rows(dm, df):
            # the two runs retain different observations (a missing value in one of the responses):
            # the statement compares runs on the same observations
            res.count("independence_skipped:different rows retained")
        elif b is not None:
            mine = {"common": None if dm.common is None else designs.mat(dm.common.design_matrix),
                    "group": None if dm.group is None else designs.mat(dm.group.design_matrix)}
            for part in ("common", "group"):
                if not designs.same(b[part], mine[part], True) and not (b[part] is None and mine[part] is None):
                    res.failures.append({"case": case, "impl": part, "expected": "same as with response y",
                                         "finding": None,
                                         "why": f"{part} matrix depends on which response is named"})
        if len(res.samples) < 6 and resp != "y":
            res.samples.append({"formula": formula, "kind": rm.kind,
                                "levels": None if rm.levels is None else list(map(str, rm.levels))})
        _ = t
    open_ids = {k["id"] for k in known_findings("C15")}
    for (case, kind, shape, levels), sp in zip(owners, ask(reqs)):
        if "err" in sp:
            res.count("spec_skip:" + sp["err"] + ":" + str(sp.get("what"))[:30])
            continue
        res.traces += 1
        # D33: a response that asks for sum-to-zero coding (class decided by Spec.C15.classD33) AND is
        # returned exactly as recorded (Spec.C15.d33Returned: the full-rank Sum coding of the levels
        # in the prescribed order); any other deviation of such a response is a plain failure
        fid = None
        if sp.get("class_d33") and sp.get("d33_as_recorded") and "KF-C15-D33" in open_ids:
            fid = "KF-C15-D33"
        fails = []
        if not sp.get("shape_holds"):
            fails.append({"case": case, "impl": {"kind": kind, "shape": shape, "levels": levels},
                          "expected": {"rows": sp.get("expected_rows"),
                                       "levels": sp.get("expected_levels"),
                                       "kind": sp.get("expected_kind")},
                          "finding": fid,
                          "why": "shape of response.design_matrix: not one row per retained "
                                 "observation with one indicator column per level / the two "
                                 "columns of prop / a single column"})
        if sp.get("bare_numeric"):
            res.count("numeric_response_exact")
            if not sp.get("unchanged"):
                fails.append({"case": case, "impl": {"kind": kind, "shape": shape},
                              "expected": "the column of the frame, entry by entry (exact)",
                              "finding": None,
                              "why": "a numeric response is not returned unchanged (exact "
                                     "comparison of every entry with the frame)"})
        if not sp.get("holds"):
            fails.append({"case": case, "impl": {"kind": kind, "levels": levels},
                          "expected": {"levels": sp.get("expected_levels"),
                                       "kind": sp.get("expected_kind")},
                          "finding": fid,
                          "why": "response matrix / levels / kind differ from what the response "
                                 "expression denotes (a categorical response: one indicator column "
                                 "per level, sorted -- numbers numerically -- or in declared order)"})
        if fails and fid:
            res.known_hit[fid] = res.known_hit.get(fid, 0) + 1
        res.failures.extend(fails)
    for pcase, sp in zip(pred_owners, ask(pred_reqs)):
        if "err" in sp or "holds" not in sp:
            res.count("spec_skip:predict:" + str(sp.get("err")) + ":" + str(sp.get("what"))[:30])
            continue
        res.traces += 1
        if not sp.get("holds"):
            res.failures.append({"case": pcase, "impl": {"values_returned": sp.get("returned_rows")},
                                 "expected": {"trials of the new frame, rows": sp.get("expected_rows")},
                                 "finding": None,
                                 "why": "response.evaluate_new_data(new frame) is not the trials the "
                                        "response expression denotes on the new frame"})
    bad_replay = replay is not None and replay.get("kind") == "bad-response"
    if replay is None or bad_replay:
        df = frames.get(0, designs.gen_frame(rng_for(seed, "c15", "frame", 0)))
        for bad in ([replay["formula"][:-len(" ~ x")]] if bad_replay else BAD_RESPONSES):
            res.evaluations += 1
            err, dm = run(f"{bad} ~ x", df)
            if not err:
                res.failures.append({"case": {"formula": f"{bad} ~ x", "kind": "bad-response"}, "impl": "accepted",
                                     "expected": "refused", "finding": None,
                                     "why": "a response that is not a single term is accepted"})
            else:
                res.count("bad_response_refused:" + err["err"])
        for rhs in RHS[:6]:
            res.evaluations += 1
            err, dm = run(rhs if rhs not in ("1",) else "x", df)
            if err or dm.response is not None:
                res.failures.append({"case": {"formula": rhs}, "impl": err or "response present",
                                     "expected": "design without response", "finding": None,
                                     "why": "formula without ~ does not give a response-less design"})
    return res
