"""C15 — response handling."""
import re

import numpy as np
import pandas as pd

import designs
from common import Result, ask, rng_for

ASSUMPTIONS = [
    "Spec.C15.expected (what the response matrix must be, from the response expression and the data) "
    "is evaluated by the Lean driver and compared there with the matrix / levels / kind the "
    "implementation returned; predictor independence and refusal of non-single-term responses are "
    "relations between real runs",
    "a prop response evaluated on a new frame (response.evaluate_new_data) is judged by "
    "Spec.C15.expectedTrials, evaluated by the Lean driver on the NEW frame (the trials column of that "
    "frame, a constant broadcast to ITS row count), for new frames shorter than, as long as and longer "
    "than the training frame; the driver is sent the columns of the new frame that the response "
    "expression names",
    "level spellings of y['...']: the empty string, Python keywords / literals as text, blanks inside "
    "and around, numeric-looking text, on str / unordered / ordered Categorical columns; levels that "
    "contain a quote character are outside the explored space (the scanner has no escape syntax)",
]
TRUSTED = ["pandas dtype inference for the response column"]

RESPONSES = ["y", "yc", "cu", "co", "yc[yes]", "yc['yes']", "yc[\"maybe\"]", "cu[m3]", "co[lo]",
             "co[hi]", "co['mid']", "yc[absent]", "cu[m1]",
             "p(s, n)", "prop(s, n)", "proportion(s, 9)", "p(s, 12)", "p(s8, 300)",
             "prop(s8, nbig)", "I(y * 2)", "{y + 1}", "`y`",
             "center(y)"]
# unusual but legitimate level spellings: the empty string, Python keywords / literals spelled as text,
# blanks inside and around, numeric-looking text.  (None of them contains a quote character.)
QLEVELS = ["", "None", "no answer", "1", "if", "True", "01", "1.0", " pad ", "not", "0"]
QCAT = ["no answer", "", "1", "None"]             # declared order of the Categorical twins: not sorted
LEVEL_RESPONSES = (["yq", "cq", "cqo"] + [f"yq['{l}']" for l in QLEVELS] +
                   ['yq[""]', 'yq["no answer"]', "yq[if]", "yq[not]", "yq['absent level']", "yq[' ']",
                    "cq['']", 'cq[""]', "cq['None']", "cqo['']", 'cqo["1"]', "cqo['no answer']",
                    "cq['absent']"])
BAD_RESPONSES = ["y + z", "y:z", "y*z", "(y | g)", "1", "0", "y / z"]
RHS = ["x", "f", "x + f", "f:x + g", "0 + f", "x + (1 | g)", "(x | g) + f", "C(k) + z",
       "center(x):f", "1", "0 + x + (0 + f | h)", "0", "-1", "0 + (1 | g)"]


def run(formula, df):
    import formulae
    try:
        dm = formulae.design_matrices(formula, df, extra_namespace=designs.namespace())
    except Exception as e:  # noqa
        return {"err": type(e).__name__}, None
    return None, dm


def add_level_columns(r, df):
    """columns whose levels have unusual spellings (every level occurs)"""
    n = len(df)

    def draw(levels):
        xs = [r.choice(levels) for _ in range(n)]
        for i, l in enumerate(levels):
            xs[i % n] = l
        r.shuffle(xs)
        return xs
    df["yq"] = draw(QLEVELS)
    df["cq"] = pd.Categorical(draw(QCAT), categories=QCAT)
    df["cqo"] = pd.Categorical(draw(QCAT), categories=QCAT, ordered=True)
    return df


def new_frames(r, df):
    """prediction frames shorter than, as long as and longer than the training frame (rows drawn
    from it with repetition, fresh trials)"""
    n = len(df)
    out = []
    for m in (r.randrange(1, n), n, n + r.randrange(1, n + 1)):
        nd = df.iloc[[r.randrange(n) for _ in range(m)]].reset_index(drop=True)
        nd["n"] = [int(v) + r.randrange(0, 4) for v in nd["n"]]
        nd["nbig"] = nd["n"] + 250
        out.append(designs.scramble_index(r, nd))
    return out


def names_in(text):
    return set(re.findall(r"[A-Za-z_][A-Za-z_0-9]*", text))


def explore(tier, seed, res=None, replay=None):
    res = res or Result()
    res.rule = ("%d response forms (numeric, str, Categorical, ordered, y[ident], y['quoted'] incl. the "
                "empty level / keyword-like / blank-containing / numeric-looking levels, calls, prop "
                "with column or constant trials) x right-hand sides x generated frames; every prop "
                "response also evaluated on new frames shorter than, as long as and longer than the "
                "training frame; plus non-single-term responses and formulas without a response; "
                "non-trivial = a categorical, subset or prop response; distinct by (formula, frame "
                "seed)" % (len(RESPONSES) + len(LEVEL_RESPONSES)))
    n_frames = 3 if tier == "quick" else 10
    rhs_pool = list(RHS)
    rng0 = rng_for(seed, "c15", "rhs")
    extra = 30 if tier == "quick" else 190
    for _ in range(extra):
        rhs_pool.append(designs.gen_formula(rng0, response="y").split("~", 1)[1].strip())
    reqs, owners = [], []
    cases = []
    if replay is not None:
        cases = [(replay["formula"], replay.get("seed_path", 0))]
    else:
        k = 0
        for fi in range(n_frames):
            for ri, rhs in enumerate(rhs_pool):
                # every response form with a rotating subset of right-hand sides per frame
                for resp in RESPONSES:
                    if (ri + RESPONSES.index(resp) + fi) % (1 if tier == "thorough" else 3) == 0:
                        cases.append((f"{resp} ~ {rhs}", fi))
                for li, resp in enumerate(LEVEL_RESPONSES):
                    if (ri + li + fi) % (3 if tier == "thorough" else 9) == 0:
                        cases.append((f"{resp} ~ {rhs}", fi))
                k += 1
    frames = {}
    news = {}
    base_cache = {}
    pred_reqs, pred_owners = [], []
    for formula, fi in cases:
        if fi not in frames:
            frames[fi] = designs.gen_frame(rng_for(seed, "c15", "frame", fi))
            # successes stored with a compact dtype, trials beyond its range
            frames[fi]["s8"] = frames[fi]["s"].astype("int8")
            frames[fi]["nbig"] = frames[fi]["n"] + 250
            add_level_columns(rng_for(seed, "c15", "levels", fi), frames[fi])
            news[fi] = new_frames(rng_for(seed, "c15", "new", fi), frames[fi])
        df = frames[fi]
        res.evaluations += 1
        err, dm = run(formula, df)
        case = {"formula": formula, "seed_path": fi}
        if err:
            res.count("impl_error:" + err["err"])
            continue
        if dm.response is None:
            res.failures.append({"case": case, "impl": "no response", "expected": "a response",
                                 "finding": None, "why": "formula with ~ gives no response matrix"})
            continue
        rm = dm.response
        t = rm.term.term
        reqs.append({"op": "c15_spec", "formula": formula,
                     "frame": designs.frame_json(designs.dm_frame(dm, df)),
                     "names": designs.names_json(designs.NAMES),
                     "matrix": designs.mat(rm.design_matrix), "kind": rm.kind,
                     "levels": None if rm.levels is None else [str(x) for x in rm.levels]})
        owners.append((case, rm.kind))
        resp, rhs = formula.split(" ~ ", 1)
        if rm.kind == "proportion":
            # the response on new frames of every length relation to the training frame
            for nd in news[fi]:
                res.evaluations += 1
                pcase = dict(case, when="prediction", train_rows=int(len(df)), new_rows=int(len(nd)))
                try:
                    got = np.asarray(rm.evaluate_new_data(nd), dtype=float)
                except Exception as e:  # noqa
                    res.failures.append({"case": pcase, "impl": type(e).__name__, "finding": None,
                                         "expected": "the trials of the new frame",
                                         "why": "response.evaluate_new_data raised"})
                    continue
                if got.ndim != 1:
                    got = got.reshape(len(got), -1)[:, -1] if got.size else got.ravel()
                cols = [c for c in nd.columns if c in names_in(resp)]
                pred_reqs.append({"op": "c15_predict", "formula": formula,
                                  "frame": designs.frame_json(nd[cols]),
                                  "names": designs.names_json(designs.NAMES),
                                  "column": [designs.frac(v) for v in got.tolist()]})
                pred_owners.append(pcase)
                res.count("prop_prediction:" + ("shorter" if len(nd) < len(df) else
                                                "equal" if len(nd) == len(df) else "longer"))
        if any(c in resp for c in "[(") or resp in ("yc", "cu", "co", "yq", "cq", "cqo"):
            res.nontrivial.add((formula, fi))
        # predictor independence: same right-hand side, response `y`
        key = (rhs, fi)
        if key not in base_cache:
            e0, d0 = run("y ~ " + rhs, df)
            base_cache[key] = None if e0 else {
                "common": None if d0.common is None else designs.mat(d0.common.design_matrix),
                "group": None if d0.group is None else designs.mat(d0.group.design_matrix)}
        b = base_cache[key]
        if b is not None:
            mine = {"common": None if dm.common is None else designs.mat(dm.common.design_matrix),
                    "group": None if dm.group is None else designs.mat(dm.group.design_matrix)}
            for part in ("common", "group"):
                if not designs.same(b[part], mine[part], True) and not (b[part] is None and mine[part] is None):
                    res.failures.append({"case": case, "impl": part, "expected": "same as with response y",
                                         "finding": None,
                                         "why": f"{part} matrix depends on which response is named"})
        if len(res.samples) < 6 and resp != "y":
            res.samples.append({"formula": formula, "kind": rm.kind,
                                "levels": None if rm.levels is None else list(map(str, rm.levels))})
        _ = t
    for (case, kind), sp in zip(owners, ask(reqs)):
        if "err" in sp:
            res.count("spec_skip:" + sp["err"] + ":" + str(sp.get("what"))[:30])
            continue
        res.traces += 1
        if not sp.get("holds"):
            res.failures.append({"case": case, "impl": {"kind": kind},
                                 "expected": {"levels": sp.get("expected_levels"),
                                              "kind": sp.get("expected_kind")},
                                 "finding": None,
                                 "why": "response matrix / levels / kind differ from what the response "
                                        "expression denotes"})
    for pcase, sp in zip(pred_owners, ask(pred_reqs)):
        if "err" in sp or "holds" not in sp:
            res.count("spec_skip:predict:" + str(sp.get("err")) + ":" + str(sp.get("what"))[:30])
            continue
        res.traces += 1
        if not sp.get("holds"):
            res.failures.append({"case": pcase, "impl": {"values_returned": sp.get("returned_rows")},
                                 "expected": {"trials of the new frame, rows": sp.get("expected_rows")},
                                 "finding": None,
                                 "why": "response.evaluate_new_data(new frame) is not the trials the "
                                        "response expression denotes on the new frame"})
    if replay is None:
        df = frames.get(0, designs.gen_frame(rng_for(seed, "c15", "frame", 0)))
        for bad in BAD_RESPONSES:
            res.evaluations += 1
            err, dm = run(f"{bad} ~ x", df)
            if not err:
                res.failures.append({"case": {"formula": f"{bad} ~ x"}, "impl": "accepted",
                                     "expected": "refused", "finding": None,
                                     "why": "a response that is not a single term is accepted"})
            else:
                res.count("bad_response_refused:" + err["err"])
        for rhs in RHS[:6]:
            res.evaluations += 1
            err, dm = run(rhs if rhs not in ("1",) else "x", df)
            if err or dm.response is not None:
                res.failures.append({"case": {"formula": rhs}, "impl": err or "response present",
                                     "expected": "design without response", "finding": None,
                                     "why": "formula without ~ does not give a response-less design"})
    return res
