"""C03 — common-effects matrix: full column rank, spans exactly the model space.

Three things are compared on every run:

1. `formulae.contrasts.pick_contrasts` (called directly on abstract families) against the Lean model
   `Model.Contrasts.pickContrasts`, and the interval-partition predicate (the statement of theorem
   `C03_pick_contrasts_partition`) evaluated by the Lean driver on the *implementation's* codings.
2. `design_matrices(formula, data)` against the Lean model `Model.Encoding.run` of the pipeline in
   `Model.eval`: the list of common terms after `add_extra_terms`, the per-component
   `spans_intercept` flags actually used, the terms of the matrix, exceptions.
3. The specification on the implementation's output: `Spec.C03.partition` (Lean driver) on the flags
   the implementation used, and — independent of any flags — exact integer Gaussian elimination on
   the matrix it produced: rank = number of columns = dimension formula, column space = column
   space of the full-indicator coding of the family (replicated complete-factorial data).

Cases that contain a numeric atom with several columns (poly(v, 2), bs(v, df=3)) cannot use the exact
integer machinery: their rank facts come from an SVD with thresholds far from both sides (see
ASSUMPTIONS), the reference space is built from the atoms' contracts, the dimension formula counts
the atom's columns (driver field "widths").

The same rank facts are evaluated on the matrices `common.evaluate_new_data` returns for the training
frame and a row-permuted copy (prediction stage), and families are also written with the distributive
operators (`a:(b + c)`, `(a + b):c`, `a*(b + c)`, `a/(b + c)`, ...).

Failures on the unchanged tree fall into the classes D6–D9 (+ D21); each is classified by a Lean guard
predicate and must equal the model's prediction to count as a known finding.
"""
import itertools
import math
import os

from common import Result, ask, rng_for

ASSUMPTIONS = [
    "bridge from the interval partition to rank / column space (tensor product of per-factor bases) "
    "is trusted mathematics; it is validated here by exact integer elimination on every explored "
    "case (reported as test)",
    "data: complete factorial over the categorical variables used by the formula, crossed with the "
    "2^k grid x in {0, 2}, z in {1, 3} of the numeric variables used (so 1, x, z, x*z are linearly "
    "independent on the replicates of every cell and scale(x) = x - 1 exactly), or the same grid "
    "moved by one half (float columns; the matrix times 4 is then integral); rows shuffled; level "
    "counts 2..4, and 1 in the one-level-factor cases",
    "columns the formula never mentions: seven of eight frames carry one to three extra columns u1..u3 "
    "(float / str / Categorical) -- without missing values, with values missing at random (p = 0.3), "
    "missing on EVERY replicate of one or two cells of the factorial (pattern 'cells'), or with one "
    "column holding no value at all; every row is complete in the variables of the formula, so the "
    "matrix must keep one row per row of the frame (checked first) and satisfy the same rank / "
    "column-space facts on those rows; the frames given to common.evaluate_new_data carry the same "
    "columns",
    "pandas Categorical factors (case key 'columns'): in three cases of ten, one or more of the factors "
    "the formula uses are pandas Categorical columns instead of plain strings -- unordered with the "
    "declared categories in unsorted order, unordered with three declared categories that no row uses "
    "(sorting first / in between / last), both, or ordered with an unsorted declared order and every "
    "category used.  The levels of a factor are the values that occur: the reference space is built "
    "from them and every combination of them occurs.  An ORDERED Categorical with a declared category "
    "that no row uses is not generated: the unchanged library keeps such a category as a level "
    "(an all-zero column), and the statement does not settle whether it is a level whose combinations "
    "do not occur (premise false) or no level",
    "re-evaluation stage (case key 'reeval'; the lower-level public entry point): for a share of the "
    "cases with a call atom (30 % quick, half thorough) and a few of the others, ONE description "
    "model_description(formula) is evaluated twice, formulae.matrices.DesignMatrices(model, frame 1, env) "
    "and then DesignMatrices(model, frame 2, env), on two different row permutations of the "
    "complete-factorial frame (same length); the second common-effects matrix is judged by the same "
    "rank / column-space facts against the reference built on frame 2; judged where the fresh design "
    "satisfies the facts",
    "numeric atoms with several columns (poly(v, 2), bs(v, df=3); case kind 'multi-column-atoms'): four "
    "distinct values per numeric variable ({0, 1, 2, 4} for x, {1, 2, 3, 6} for z, or moved by one half), "
    "complete factorial x full grid; rank of X, of the reference F and of [X | F] by SVD on unit-length "
    "columns, a relative singular value above 1e-7 counts as a direction, below 1e-11 as dependence, "
    "anything in between is reported as a failure (measured on the unchanged tree: kept >= 1.2e-2, "
    "dropped <= 3e-14); the reference F takes the numeric factor from the atom's contract, not from "
    "the library: scale(v) = centred v, poly(v, d) = centred polynomials of degree <= d without "
    "constant (C14: orthogonal to the constant, spanning with it the polynomials of degree <= d), "
    "bs(v, df=3) = cubic polynomials vanishing at min v (Bernstein basis without its first element); "
    "dimension formula with the atom's column count as a factor (Spec.C03.modelDimW / totalColumnsW, "
    "executable only: C03_columns_count is proved for one-column numeric atoms); each such case is "
    "observed in a freshly forked process, so a failing case does not depend on designs built before "
    "it (history dependence is C07)",
    "prediction stage: every common-effects matrix handed out for complete-factorial data falls under "
    "the statement, so the matrix common.evaluate_new_data returns for the training frame itself and "
    "for a row-permuted copy is judged by the same facts (rank = number of columns = rank of the "
    "full-indicator reference built on that frame = rank of [X | F]; exact integers, SVD for the "
    "multi-column atoms), for a sample of 12 % of the cases of every kind in the quick tier, all in the "
    "thorough tier, and for every case written with a distributive operator; judged where the training "
    "matrix itself satisfies the facts (a design defective at training is reported once, there)",
    "families written with the distributive operators (case kinds distributive/...): T:(S), (S):T, "
    "T*(S), T/(S), (S)*T, (S):(S) with T a term of one or two atoms and S a parenthesised sum of two or "
    "three terms, optionally among other terms; the intended family is the expansion by the term algebra "
    "(':' distributes over '+', a*b = a + b + a:b, a/b = a + a:b; first of two identical terms kept) and is "
    "compared with what the resolver produced (a case whose family differs is skipped and counted)",
    "component kinds (numeric / categoric) and Call-ness are taken from the generator's atom table "
    "and cross-checked against the implementation's component objects",
    "create_extra_term's deepcopy of a typed Call raises for every ordinary caller (the captured "
    "environment holds module objects): model flag env_copyable=false; the branch env_copyable=true "
    "is compared through a caller whose namespace holds only the data frame and design_matrices",
]
TRUSTED = ["exact rank by integer (gcd-normalised) Gaussian elimination in harness/c03.py",
           "numpy.linalg.svd / qr for the floating-point rank facts of the multi-column-atom cases",
           "pandas/numpy construction of the test frames and of the full-indicator reference matrix"]

FINDING_OF_CLASS = [
    ("extraTermNeedsCallCopy", "KF-C03-D9"),
    ("emptyCodingSecondPass", "KF-C03-D6"),
    ("multipleSubtermsSecondPass", "KF-C03-D7"),
    ("numericPartOrderMismatch", "KF-C03-D8"),
    ("duplicateTermUpToOrder", "KF-C03-D26"),
]
ERR_CLASS = {"index_error": "IndexError", "deepcopy": "TypeError", "empty_extra_term": "IndexError",
             "value_error": "ValueError", "attribute_error": "AttributeError",
             "contrasts:assert_diff": "AssertionError", "contrasts:assert_full": "AssertionError"}

# ------------------------------------------------------------------------------------------------
# atoms: name -> (kind, is_call, underlying variable)
# ------------------------------------------------------------------------------------------------
CAT_VARS = ["f", "g", "h", "k"]
NUM_VARS = ["x", "z"]
NUM_VALUES = {"x": (0, 2), "z": (1, 3)}
# the same grid moved by one half (float columns): every entry of the design times GRID_SCALE is an
# integer, scale(x) = x - 1.5 is still exact, and a loss of the fractional part anywhere shows
NUM_VALUES_HALF = {"x": (0.5, 2.5), "z": (1.5, 3.5)}
GRID_SCALE = 4
# cases with multi-column numeric atoms (poly(v, 2), bs(v, df=3)): four distinct values per numeric
# variable (1, v, v^2, v^3 independent on the replicates of every cell; different location and spread
# for x and z), as integers or moved by one half; judged in floating point
NUM_VALUES_WIDE = {"x": (0, 1, 2, 4), "z": (1, 2, 3, 6)}
NUM_VALUES_WIDE_HALF = {"x": (0.5, 1.5, 2.5, 4.5), "z": (1.5, 2.5, 3.5, 6.5)}
GRIDS = {"int": NUM_VALUES, "half": NUM_VALUES_HALF, "wide": NUM_VALUES_WIDE,
         "wide-half": NUM_VALUES_WIDE_HALF}
# relative singular-value thresholds of the floating-point rank (columns scaled to unit length):
# above RANK_TOL = independent direction, below RANK_ZERO = exact dependence up to rounding; a
# singular value in between is reported, never silently assigned to either side
RANK_TOL = 1e-7
RANK_ZERO = 1e-11


def atom_info(a):
    if a in CAT_VARS:
        return ("c", False, a)
    if a in NUM_VARS:
        return ("n", False, a)
    if a.startswith(("C(", "T(", "S(")) and a.endswith(")"):
        return ("c", True, a[2:-1].split(",")[0].strip())   # T(f, 'f1'), C(f, Sum('f0')): the variable
    if a.startswith("scale(") and a.endswith(")"):
        return ("n", True, a[6:-1])
    if a.startswith(("poly(", "bs(")) and a.endswith(")"):
        return ("n", True, a[a.index("(") + 1:-1].split(",")[0].strip())
    raise ValueError(a)


def atom_width(a):
    """number of columns of a numeric atom: poly(v, d) has d, bs(v, df=k) has k, the others one"""
    if a.startswith("poly("):
        return int(a[:-1].split(",")[1])
    if a.startswith("bs("):
        return int(a[:-1].split("df=")[1])
    return 1


def is_wide(case):
    return str(case.get("grid", "int")).startswith("wide")


# ------------------------------------------------------------------------------------------------
# exact linear algebra on integer matrices
# ------------------------------------------------------------------------------------------------
def rank_profile(rows, ncols_first):
    """Exact Gaussian elimination (integers, rows divided by their gcd).  Returns
    (number of pivots among the first `ncols_first` columns, total rank)."""
    A = [list(r) for r in rows]
    if not A:
        return 0, 0
    n, m = len(A), len(A[0])
    r = 0
    first = 0
    for c in range(m):
        piv = None
        for i in range(r, n):
            if A[i][c] != 0:
                piv = i
                break
        if piv is None:
            continue
        A[r], A[piv] = A[piv], A[r]
        pr = A[r]
        p = pr[c]
        for i in range(r + 1, n):
            ri = A[i]
            q = ri[c]
            if q != 0:
                new = [a * p - q * b for a, b in zip(ri, pr)]
                g = math.gcd(*new)
                if g > 1:
                    new = [v // g for v in new]
                A[i] = new
        r += 1
        if c < ncols_first:
            first += 1
        if r == n:
            break
    return first, r


# ------------------------------------------------------------------------------------------------
# frames (cached per process)
# ------------------------------------------------------------------------------------------------
_FRAMES = {}


def get_frame(cats, nums, levels, shuffle_seed, grid="int"):
    """complete factorial over `cats` (level counts from `levels`) x grid of `nums`"""
    import pandas as pd
    key = (tuple(cats), tuple(nums), tuple(levels[c] for c in cats), shuffle_seed, grid)
    if key in _FRAMES:
        return _FRAMES[key]
    rows = []
    values = GRIDS[grid]
    for cell in itertools.product(*[range(levels[c]) for c in cats]):
        for nv in itertools.product(*[values[v] for v in nums]):
            row = {c: f"{c}{i}" for c, i in zip(cats, cell)}
            row.update(dict(zip(nums, nv)))
            row["y"] = 0
            rows.append(row)
    rng = rng_for(shuffle_seed, "c03", "rows", key[:3])
    rng.shuffle(rows)
    df = pd.DataFrame(rows)
    _FRAMES[key] = df
    return df


# ------------------------------------------------------------------------------------------------
# columns the formula never mentions (they must not matter: the matrix keeps one row per row of the
# frame, whatever is missing in them)
# ------------------------------------------------------------------------------------------------
UNUSED_PATTERNS = ["none", "complete", "scattered", "scattered", "cells", "cells", "cells", "all-missing"]


def add_unused(df, cats, nums, case):
    """a copy of the complete-factorial frame `df` with one to three columns the formula does not
    mention (u1, u2, u3: float / str / Categorical), per case["unused"]: 'complete' = no missing
    value; 'scattered' = each entry missing with probability 0.3 (at least one); 'cells' = missing on
    EVERY row of one or two cells of the factorial (all the replicates of a combination of the used
    categorical levels; grid points of the numeric variables when the formula has no factor);
    'all-missing' = one column without any value.  Deterministic in (shuffle, formula, pattern)."""
    import numpy as np
    import pandas as pd
    pattern = case.get("unused")
    if not pattern or pattern == "none":
        return df
    rng = rng_for(case.get("shuffle", 0), "c03", "unused", case["formula"], pattern)
    n = len(df)
    out = df.copy()
    by = list(cats) or list(nums)
    keys = list(zip(*[df[c].tolist() for c in by])) if by else [()] * n
    cells = sorted(set(keys))
    ncols = rng.randrange(1, 4)
    for j in range(ncols):
        if pattern == "complete":
            miss = set()
        elif pattern == "scattered":
            miss = {i for i in range(n) if rng.random() < 0.3} or {rng.randrange(n)}
        elif pattern == "cells":
            gone = set(rng.sample(cells, min(len(cells), rng.choice([1, 1, 2]))))
            miss = {i for i in range(n) if keys[i] in gone}
        else:                                   # all-missing: the first column has no value at all
            miss = set(range(n)) if j == 0 else {i for i in range(n) if rng.random() < 0.3}
        kind = rng.choice(["float", "str", "cat"])
        if kind == "float":
            col = [np.nan if i in miss else rng.randrange(-20, 21) / 4 for i in range(n)]
        else:
            col = [None if i in miss else rng.choice(["p", "q", "r"]) for i in range(n)]
            if kind == "cat":
                col = pd.Categorical(col, categories=["r", "p", "q"])
        out[f"u{j + 1}"] = col
    return out


# ------------------------------------------------------------------------------------------------
# pandas Categorical columns for some factors (case key "columns": {variable: kind}); the levels a
# factor has in the data are the values that occur, whatever the dtype declares besides
# ------------------------------------------------------------------------------------------------
COLUMN_KINDS = ["cat-unsorted", "cat-unused", "cat-unused", "cat-both", "ordered"]


def categorical_columns(df, case):
    """a copy of `df` in which the factors named by case["columns"] are pandas Categorical columns:
    'cat-unsorted' = unordered, declared categories not in sorted order; 'cat-unused' = unordered,
    declared categories sorted, three of them (sorting first / in between / last) used by no row;
    'cat-both' = unordered, unsorted and with unused categories; 'ordered' = ordered, every declared
    category used, declared order not the sorted one.  (An ORDERED Categorical with a declared
    category no row uses is not generated: whether such a category is a 'level used by the formula'
    -- a combination that does not occur, outside the statement's premise -- or no level at all is
    not settled by the statement.)"""
    import pandas as pd
    spec = case.get("columns")
    if not spec:
        return df
    out = df.copy()
    for v, kind in spec.items():
        if v not in out.columns:
            continue
        vals = out[v].tolist()
        obs = sorted(set(vals))
        rot = obs[1:] + obs[:1]
        if kind == "cat-unsorted":
            cats = rot
        elif kind == "cat-unused":
            cats = sorted(obs + ["0" + v, v + "0x", v + "9"])
        elif kind == "cat-both":
            cats = [v + "9"] + rot + ["0" + v, v + "0x"]
        elif kind == "ordered":
            cats = rot
        else:
            raise ValueError(kind)
        out[v] = pd.Categorical(vals, categories=cats, ordered=(kind == "ordered"))
    return out


def full_indicator(df, terms, intercept, grid="int"):
    """reference coding: every term coded with a complete set of level indicators (times its numeric
    factors), plus the constant when the model has an intercept; integer columns (on the half grid
    every numeric factor is doubled, which rescales columns and leaves the column space alone)"""
    n = len(df)
    cols = []
    if intercept:
        cols.append([1] * n)
    for t in terms:
        cat = [atom_info(a)[2] for a in t if atom_info(a)[0] == "c"]
        num = [a for a in t if atom_info(a)[0] == "n"]
        numcol = [1] * n
        for a in num:
            v = atom_info(a)[2]
            vals = df[v].tolist()
            if a.startswith("scale("):
                # mean 1 (1.5 on the half grid), population sd 1 on the grid {0, 2}
                vals = [x - (1.5 if grid == "half" else 1) for x in vals]
            if grid == "half":
                vals = [2 * x for x in vals]
                assert all(float(x).is_integer() for x in vals)
            numcol = [p * int(q) for p, q in zip(numcol, vals)]
        lvls = [sorted(set(df[c])) for c in cat]
        data = [df[c].tolist() for c in cat]
        for combo in itertools.product(*lvls):
            cols.append([numcol[i] if all(d[i] == l for d, l in zip(data, combo)) else 0
                         for i in range(n)])
    return cols


_RANKF = {}


def numeric_reference(a, df):
    """columns spanning the space of the numeric atom `a` on the rows of `df`, computed from the
    atom's contract and not from the library: v itself; scale(v): v minus its mean; poly(v, d): the
    polynomials of degree <= d in v without constant term, centred (poly's columns are orthogonal to
    the constant and span, with it, the polynomials of degree <= d: C14); bs(v, df=3) (cubic, no
    inner knot, no intercept column = the Bernstein basis on [min v, max v] without its first
    element): the cubic polynomials that vanish at min v"""
    import numpy as np
    v = np.asarray(df[atom_info(a)[2]], dtype=float)
    if a.startswith("scale("):
        return [v - v.mean()]
    if a.startswith("poly("):
        cols = [v ** k - (v ** k).mean() for k in range(1, atom_width(a) + 1)]
    elif a.startswith("bs("):
        assert atom_width(a) == 3
        cols = [(v - v.min()) ** k for k in (1, 2, 3)]
    else:
        return [v]
    # an orthonormal basis of the same space (better conditioned than the powers themselves)
    q, r = np.linalg.qr(np.column_stack(cols))
    assert abs(np.diag(r)).min() > 1e-6 * abs(np.diag(r)).max(), "numeric grid too small for " + a
    return [q[:, j] for j in range(q.shape[1])]


def full_indicator_float(df, terms, intercept):
    """the reference coding of `full_indicator` in floating point, numeric factors with several
    columns included (every combination of one column per numeric atom)"""
    import numpy as np
    n = len(df)
    cols = []
    if intercept:
        cols.append(np.ones(n))
    for t in terms:
        cat = [atom_info(a)[2] for a in t if atom_info(a)[0] == "c"]
        num = [numeric_reference(a, df) for a in t if atom_info(a)[0] == "n"]
        lvls = [sorted(set(df[c])) for c in cat]
        data = [np.asarray(df[c]) for c in cat]
        for combo in itertools.product(*lvls):
            ind = np.ones(n)
            for d, l in zip(data, combo):
                ind = ind * (d == l)
            for ncombo in itertools.product(*num):
                col = ind.copy()
                for q in ncombo:
                    col = col * q
                cols.append(col)
    return np.column_stack(cols) if cols else np.zeros((n, 0))


def float_rank(A):
    """(rank, ambiguous?, smallest kept / largest dropped relative singular value) of a float matrix
    whose columns are first scaled to unit length (scaling columns changes neither rank nor span)"""
    import numpy as np
    A = np.asarray(A, dtype=float)
    if A.shape[1] == 0 or A.shape[0] == 0:
        return 0, False, [None, None]
    norms = np.linalg.norm(A, axis=0)
    norms[norms == 0] = 1.0
    sv = np.linalg.svd(A / norms, compute_uv=False)
    rel = sv / sv[0] if sv[0] > 0 else sv
    kept = rel[rel > RANK_TOL]
    dropped = rel[rel <= RANK_TOL]
    ambiguous = bool(((rel <= RANK_TOL) & (rel >= RANK_ZERO)).any())
    return (int(len(kept)), ambiguous,
            [float(kept.min()) if len(kept) else None, float(dropped.max()) if len(dropped) else None])


# ------------------------------------------------------------------------------------------------
# implementation observer
# ------------------------------------------------------------------------------------------------
def family_terms(case):
    """the family in the model's vocabulary"""
    out = []
    for t in case["terms"]:
        if t == "1":
            out.append({"i": True})
        else:
            out.append({"c": [[a, atom_info(a)[0], atom_info(a)[1]] for a in t]})
    return out


def observe(case):
    """Runs the real implementation on one case.  Everything returned is JSON-able."""
    import numpy as np
    from formulae import design_matrices, model_description
    from formulae.terms.call import Call
    from formulae.terms.terms import Intercept
    terms = [t for t in case["terms"] if t != "1"]
    intercept = any(t == "1" for t in case["terms"])
    atoms = sorted({a for t in terms for a in t})
    cats = sorted({atom_info(a)[2] for a in atoms if atom_info(a)[0] == "c"})
    nums = sorted({atom_info(a)[2] for a in atoms if atom_info(a)[0] == "n"})
    grid = case.get("grid", "int")
    df = get_frame(cats, nums, case["levels"], case.get("shuffle", 0), grid)
    # columns the formula does not mention, some with missing values (never touches the cached frame)
    df = add_unused(df, cats, nums, case)
    # some factors as pandas Categorical columns (unsorted / unused declared categories, ordered)
    df = categorical_columns(df, case)
    out = {"rows": len(df)}
    # the family as the resolver built it (before evaluation)
    try:
        md = model_description(case["formula"])
        out["md"] = ["1" if isinstance(t, Intercept) else [c.name for c in t.components]
                     for t in md.common_terms]
    except Exception as e:  # noqa
        out["md_err"] = type(e).__name__
        return out
    import contextlib
    import io
    try:
        with contextlib.redirect_stdout(io.StringIO()):
            if case.get("clean_env"):
                dm = _clean_caller()(case["formula"], df)
            else:
                dm = design_matrices(case["formula"], df)
    except Exception as e:  # noqa
        out["err"] = type(e).__name__
        return out

    def ser(t):
        comps = [] if isinstance(t, Intercept) else t.components
        res = []
        for c in comps:
            kind = {"numeric": "n", "categoric": "c"}.get(c.kind, str(c.kind))
            flag = c.spans_intercept
            res.append([c.name, kind, None if flag is None else bool(flag), isinstance(c, Call)])
        return [t.name, res]

    out["terms"] = [ser(t) for t in dm.model.common_terms]
    out["design"] = [ser(t) for t in dm.common.terms.values()]
    out["design_keys"] = list(dm.common.terms.keys())
    M = np.asarray(dm.common.design_matrix)
    if M.ndim != 2:
        out["err"] = "matrix-not-2d"
        return out
    try:
        labels = list(dm.common.as_dataframe().columns)
    except Exception as e:  # noqa
        labels = ["!" + type(e).__name__]
    out["labels"] = labels
    out["widths"] = [[name, int(sl.stop - sl.start)] for name, sl in dm.common.slices.items()]
    out.update(rank_facts(M, df, terms, intercept, case, cats, nums))
    # prediction stage: every common-effects matrix handed out for complete-factorial data falls
    # under the statement -- the matrix common.evaluate_new_data returns for the training frame
    # itself and for a row-permuted copy of it, judged by the same rank / column-space facts
    if case.get("predict"):
        out["new"] = []
        perm = list(range(len(df)))
        rng_for(case.get("shuffle", 0), "c03", "new-rows", case["formula"]).shuffle(perm)
        for frame in ("same", "permuted"):
            nd = df if frame == "same" else df.iloc[perm].reset_index(drop=True)
            try:
                with contextlib.redirect_stdout(io.StringIO()):
                    new = dm.common.evaluate_new_data(nd)
                Mn = np.asarray(new.design_matrix)
                if Mn.ndim != 2:
                    raise ValueError("matrix-not-2d")
            except Exception as e:  # noqa
                out["new"].append({"frame": frame, "err": type(e).__name__})
                continue
            out["new"].append(dict(rank_facts(Mn, nd, terms, intercept, case, cats, nums), frame=frame))
    # re-evaluation stage (the lower-level public entry point): ONE model description evaluated twice,
    # DesignMatrices(model, first frame, env) and then DesignMatrices(model, second frame, env), on two
    # different row permutations of the complete-factorial frame; the SECOND common-effects matrix is
    # judged by the same rank / column-space facts on the rows of the second frame
    if case.get("reeval"):
        from formulae.environment import Environment
        from formulae.matrices import DesignMatrices
        rr = rng_for(case.get("shuffle", 0), "c03", "re-evaluation", case["formula"])
        p1, p2 = list(range(len(df))), list(range(len(df)))
        rr.shuffle(p1)
        for _ in range(20):                      # (a frame of one or two rows has no other order)
            rr.shuffle(p2)
            if p2 != p1 and p2 != list(range(len(df))):
                break
        try:
            with contextlib.redirect_stdout(io.StringIO()):
                model = model_description(case["formula"])
                keep = [c for c in df.columns if c in model.var_names]
                env = Environment.capture(0)
                d1 = df.iloc[p1].reset_index(drop=True)[keep]
                d2 = df.iloc[p2].reset_index(drop=True)[keep]
                DesignMatrices(model, d1, env)
                dm2 = DesignMatrices(model, d2, env)
            M2 = np.asarray(dm2.common.design_matrix)
            if M2.ndim != 2:
                raise ValueError("matrix-not-2d")
            out["reeval"] = rank_facts(M2, d2, terms, intercept, case, cats, nums)
        except Exception as e:  # noqa
            out["reeval"] = {"err": type(e).__name__}
    return out


def rank_facts(M, df, terms, intercept, case, cats, nums):
    """the rank facts of one matrix `M` whose rows belong to the rows of `df`: number of columns,
    rank of M, rank of the full-indicator reference F built on `df`, rank of [M | F] (exact integer
    elimination; SVD for the cases with multi-column numeric atoms)"""
    import numpy as np
    grid = case.get("grid", "int")
    out = {}
    if is_wide(case):
        # multi-column numeric atoms: floating-point rank facts of X, F and [X | F]
        out["float_path"] = True
        out["integral"] = True
        out["ncols"] = int(M.shape[1])
        out["nrows"] = int(M.shape[0])
        if M.shape[0] != len(df) or not np.isfinite(M).all():
            # rows lost (or entries that are no numbers): no column space on the rows of the frame
            out["rank"], out["rank_full"], out["rank_joint"] = -1, -1, -1
            out["rank_ambiguous"] = False
            out["sv_gaps"] = {}
            return out
        F = full_indicator_float(df, terms, intercept)
        rx, ax, gx = float_rank(M)
        rf, af, gf = float_rank(F)
        rj, aj, gj = float_rank(np.column_stack([M, F])) if M.shape[0] == F.shape[0] else (-1, False, [None, None])
        out["rank"], out["rank_full"], out["rank_joint"] = rx, rf, rj
        out["rank_ambiguous"] = bool(ax or af or aj)
        out["sv_gaps"] = {"X": gx, "F": gf, "XF": gj}
        return out
    if grid == "half":
        M = M * GRID_SCALE
    R = np.rint(M)
    out["integral"] = bool(np.all(np.abs(M - R) < 1e-9))
    X = R.astype(np.int64)
    out["ncols"] = int(X.shape[1])
    out["nrows"] = int(X.shape[0])
    # exact rank facts: [X | F]
    Fcols = full_indicator(df, terms, intercept, grid)
    # (the rank of F does not depend on the order of the rows: one computation per family and frame)
    fkey = (tuple(cats), tuple(nums), tuple(case["levels"][c] for c in cats), case.get("shuffle", 0),
            grid, intercept, frozenset((frozenset(t)) for t in terms))
    if fkey not in _RANKF:
        Frows = [list(r) for r in zip(*Fcols)] if Fcols else [[] for _ in range(len(df))]
        _RANKF[fkey] = rank_profile(Frows, len(Fcols))[1] if Fcols else 0
    out["rank_full"] = _RANKF[fkey]
    Xrows = X.tolist()
    if len(Xrows) != len(df):
        out["rank"], out["rank_joint"] = -1, -1
        return out
    joint = [xr + [fc[i] for fc in Fcols] for i, xr in enumerate(Xrows)]
    rx, rj = rank_profile(joint, out["ncols"])
    out["rank"] = rx
    out["rank_joint"] = rj
    return out


_CLEAN = []


def _clean_caller():
    """a caller whose namespace holds no module objects (only the data and design_matrices), so that
    create_extra_term's deepcopy of a typed Call succeeds: the `env_copyable = true` branch of the
    model"""
    if not _CLEAN:
        from formulae import design_matrices
        glb = {"design_matrices": design_matrices}
        exec("def run(formula, data):\n    return design_matrices(formula, data)\n", glb)
        _CLEAN.append(glb["run"])
    return _CLEAN[0]


def _observe_many(cases):
    return [observe(c) for c in cases]


def run_impl(cases, procs):
    """cases with stateful multi-column transforms (poly / bs) are each observed in a freshly forked
    process, so that what is observed is a function of the case alone (a replay reproduces it);
    whether one design disturbs a later one is the subject of C07"""
    wide = [i for i, c in enumerate(cases) if is_wide(c)]
    if wide and len(cases) > 1:
        import multiprocessing as mp
        out = [None] * len(cases)
        with mp.get_context("fork").Pool(max(1, procs), maxtasksperchild=1) as pool:
            for i, o in zip(wide, pool.map(observe, [cases[i] for i in wide], chunksize=1)):
                out[i] = o
        rest = [i for i in range(len(cases)) if out[i] is None]
        for i, o in zip(rest, _run_impl_shared([cases[i] for i in rest], procs)):
            out[i] = o
        return out
    return _run_impl_shared(cases, procs)


def _run_impl_shared(cases, procs):
    if procs <= 1 or len(cases) < 400:
        return _observe_many(cases)
    import multiprocessing as mp
    chunk = max(50, len(cases) // (procs * 8))
    chunks = [cases[i:i + chunk] for i in range(0, len(cases), chunk)]
    with mp.get_context("fork").Pool(procs) as pool:
        parts = pool.map(_observe_many, chunks)
    return [o for p in parts for o in p]


# ------------------------------------------------------------------------------------------------
# case generation
# ------------------------------------------------------------------------------------------------
def nonempty_subsets(vs):
    return [list(c) for n in range(1, len(vs) + 1) for c in itertools.combinations(vs, n)]


def make_case(terms, intercept, levels, shuffle, kind, intercept_pos=0):
    """terms: list of atom lists; the intercept (if any) is written at `intercept_pos`"""
    body = [":".join(t) for t in terms]
    if intercept and intercept_pos == 0:
        formula = "y ~ " + (" + ".join(body) if body else "1")
        fam = ["1"] + terms
    elif intercept:
        parts = body[:intercept_pos] + ["1"] + body[intercept_pos:]
        formula = "y ~ 0 + " + " + ".join(parts)
        fam = terms[:intercept_pos] + ["1"] + terms[intercept_pos:]
    else:
        formula = "y ~ 0 + " + " + ".join(body)
        fam = list(terms)
    return {"formula": formula, "terms": fam, "levels": levels, "shuffle": shuffle, "kind": kind}


def level_counts(rng, two_level=False):
    if two_level:
        return {c: 2 for c in CAT_VARS}
    counts = [2, 3, 4]
    rng.shuffle(counts)
    lv = dict(zip(["f", "g", "h"], counts))
    lv["k"] = rng.choice([2, 3])
    return lv


def ordered_families(terms, max_terms):
    for n in range(1, max_terms + 1):
        for fam in itertools.permutations(terms, n):
            yield list(fam)


def permute_factors(rng, terms):
    out = []
    for t in terms:
        t = list(t)
        rng.shuffle(t)
        out.append(t)
    return out


def swap_atoms(rng, terms, levels=None):
    """replace variables by call atoms, consistently inside one formula; with `levels` (level counts)
    also codings with an EXPLICIT option that is not the default one: a reference that is not the
    first level, an omitted level that is not the last (tenth seeded wave, C03_P: the complete
    coding of a Treatment with an explicit reference lost that level's column)"""
    mapping = {}
    for v in CAT_VARS:
        options = [v, v, f"C({v})", f"T({v})", f"S({v})"]
        if levels is not None and levels.get(v, 0) >= 2:
            last = levels[v] - 1
            options += [f"T({v}, '{v}{last}')", f"T({v}, ref='{v}1')", f"C({v}, Treatment('{v}1'))",
                        f"S({v}, '{v}0')", f"C({v}, Sum('{v}{max(last - 1, 0)}'))"]
        mapping[v] = rng.choice(options)
    mapping["x"] = rng.choice(["x", "scale(x)"])
    mapping["z"] = "z"
    return [[mapping[a] for a in t] for t in terms]


# ------------------------------------------------------------------------------------------------
# families written with the distributive operators: a:(b + c), (a + b):c, a*(b + c), a/(b + c), ...
# ------------------------------------------------------------------------------------------------
def term_product(a, b):
    """the interaction of two terms: the atoms of `a`, then the atoms of `b` not yet present"""
    return list(a) + [x for x in b if x not in a]


def dedup_terms(terms):
    """a model keeps the first of two identical terms (identity = the ordered atom list)"""
    out = []
    for t in terms:
        if t not in out:
            out.append(t)
    return out


DISTRIBUTIVE_FORMS = ["T:(S)", "T:(S)", "(S):T", "T*(S)", "T/(S)", "(S)*T", "(S):(S)"]


def expand_distributive(form, left, right):
    """(text, terms) of one distributive expression; `left` / `right` are a term (atom list) where
    the form says T and a sum (list of terms) where it says S.  Expansion by the term algebra of the
    statement of C02 (':' distributes over '+', a*b = a + b + a:b, a/b = a + a:b), in the order the
    products are written: left operand outermost"""
    def tt(t):
        return ":".join(t)

    def st(sm):
        return "(" + " + ".join(tt(t) for t in sm) + ")"

    if form == "T:(S)":
        return tt(left) + ":" + st(right), [term_product(left, r) for r in right]
    if form == "(S):T":
        return st(left) + ":" + tt(right), [term_product(l, right) for l in left]
    if form == "T*(S)":
        return tt(left) + "*" + st(right), [left] + right + [term_product(left, r) for r in right]
    if form == "T/(S)":
        return tt(left) + "/" + st(right), [left] + [term_product(left, r) for r in right]
    if form == "(S)*T":
        return st(left) + "*" + tt(right), left + [right] + [term_product(l, right) for l in left]
    if form == "(S):(S)":
        return st(left) + ":" + st(right), [term_product(l, r) for l in left for r in right]
    raise ValueError(form)


def gen_distributive(rng, levels, shuffle):
    """one case whose formula is written with a distributive operator over a parenthesised sum,
    possibly among other terms; every product term must own its components"""
    variables = CAT_VARS + NUM_VARS
    while True:
        form = rng.choice(DISTRIBUTIVE_FORMS)
        vs = list(variables)
        rng.shuffle(vs)

        def take_term(pool, sizes):
            k = min(rng.choice(sizes), len(pool))
            return [pool.pop() for _ in range(k)]

        def take_sum(pool):
            out = []
            own = [pool.pop() for _ in range(min(rng.choice([2, 2, 3]), len(pool)))]
            for v in own:
                t = [v]
                if rng.random() < 0.2 and len(own) > 1:
                    t.append(rng.choice([w for w in own if w != v]))
                out.append(t)
            return dedup_terms(out)

        left = take_sum(vs) if form.startswith("(S)") else take_term(vs, [1, 1, 1, 2])
        right = take_sum(vs) if form.endswith("(S)") else take_term(vs, [1, 1, 1, 2])
        text, terms = expand_distributive(form, left, right)
        used = {a for t in terms for a in t}
        if not used & set(CAT_VARS):
            continue
        if sum(1 for v in used if v in CAT_VARS) > 3:
            continue                                          # keep the complete factorial small
        break
    # other terms written before / after the distributive expression
    pool = nonempty_subsets(sorted(used) + [v for v in ("f", "x") if v not in used])
    pool = [t for t in pool if len(t) <= 2]
    before = permute_factors(rng, rng.sample(pool, rng.choice([0, 0, 1])))
    after = permute_factors(rng, rng.sample(pool, rng.choice([0, 0, 1])))
    mapping = {}
    for v in CAT_VARS:
        mapping[v] = rng.choice([v, v, v, f"C({v})", f"T({v})", f"S({v})"])
    mapping["x"] = rng.choice(["x", "x", "scale(x)"])
    mapping["z"] = "z"

    def ren(ts):
        return [[mapping[a] for a in t] for t in ts]

    if form.startswith("(S)"):
        left = ren(left)
    else:
        left = ren([left])[0]
    if form.endswith("(S)"):
        right = ren(right)
    else:
        right = ren([right])[0]
    text, terms = expand_distributive(form, left, right)
    before, after = ren(before), ren(after)
    intercept = rng.random() < 0.6
    parts = [":".join(t) for t in before] + [text] + [":".join(t) for t in after]
    fam = dedup_terms(before + terms + after)
    formula = ("y ~ " if intercept else "y ~ 0 + ") + " + ".join(parts)
    return {"formula": formula, "terms": (["1"] if intercept else []) + fam, "levels": levels,
            "shuffle": shuffle, "kind": "distributive/" + form, "predict": True}


def gen_cases(tier, seed):
    rng = rng_for(seed, "c03", "cases")
    levels = level_counts(rng)
    shuffle = seed
    cases = []
    # (a) every ordered family of <= 3 distinct terms over {f, g, h, x}, with and without intercept
    subs4 = nonempty_subsets(["f", "g", "h", "x"])
    for fam in ordered_families(subs4, 3):
        variant = rng.randrange(3)
        if variant == 1:
            fam = [list(reversed(t)) for t in fam]
        elif variant == 2:
            fam = permute_factors(rng, fam)
        for ic in (True, False):
            cases.append(make_case(fam, ic, levels, shuffle, "fam3/fghx"))
    # (b) term pairs over {f, x, z} in every factor order (numeric part written in both orders,
    #     the same set written twice)
    ordered_terms = [list(p) for n in (1, 2, 3) for p in itertools.permutations(["f", "x", "z"], n)]
    for a, b in itertools.permutations(ordered_terms, 2):
        for ic in (True, False):
            cases.append(make_case([a, b], ic, levels, shuffle, "pairs/fxz"))
    # (c) families of <= 3 terms over {f, g, h, x, z}, random factor order
    subs5 = nonempty_subsets(["f", "g", "h", "x", "z"])
    n_c = 500 if tier == "quick" else 0
    for _ in range(n_c):
        n = rng.choice([1, 2, 2, 3, 3, 3])
        fam = permute_factors(rng, rng.sample(subs5, n))
        cases.append(make_case(fam, rng.random() < 0.5, levels, shuffle, "fam3/fghxz-sample"))
    # (d) atoms swapped among plain / C() / T() / S() / scale()
    n_d = 250 if tier == "quick" else 6000
    for _ in range(n_d):
        n = rng.choice([1, 2, 2, 3, 3])
        fam = swap_atoms(rng, permute_factors(rng, rng.sample(subs5, n)), levels)
        ic = rng.random() < 0.5
        cases.append(make_case(fam, ic, levels, shuffle, "atoms"))
        if any(atom_info(a)[1] for t in fam for a in t):
            twin = make_case(fam, ic, levels, shuffle, "atoms/clean-caller-namespace")
            twin["clean_env"] = True
            cases.append(twin)
    # (e) intercept written after other terms (moved first by _get_encoding_groups)
    n_e = 120 if tier == "quick" else 1500
    for _ in range(n_e):
        n = rng.choice([1, 2, 3])
        fam = permute_factors(rng, rng.sample(subs4, n))
        cases.append(make_case(fam, True, levels, shuffle, "intercept-later", rng.randrange(1, n + 1)))
    # (h) factors with a single level in the data (complete coding = one column of ones, reduced
    #     coding = no column at all)
    n_h = 150 if tier == "quick" else 3000
    for _ in range(n_h):
        lv1 = dict(levels)
        for v in rng.sample(["f", "g", "h"], rng.choice([1, 1, 2])):
            lv1[v] = 1
        n = rng.choice([1, 2, 2, 3])
        fam = permute_factors(rng, rng.sample(subs4, n))
        if rng.random() < 0.3:
            fam = swap_atoms(rng, fam)
        cases.append(make_case(fam, rng.random() < 0.6, lv1, shuffle, "one-level-factor"))
    # (i) numeric atoms with several columns: x, z swapped among plain / scale / poly(v, 2) / bs(v, df=3)
    #     (at least one of the latter two), categorical atoms among plain / C / T / S; families over
    #     {f, g, x, z} so that two such atoms on different variables meet in one formula, alone, in
    #     interactions with factors and with each other, with and without the constant
    wide_cases = []
    subs_w = nonempty_subsets(["f", "g", "x", "z"])
    n_i = 260 if tier == "quick" else 4000
    for _ in range(n_i):
        n = rng.choice([1, 2, 2, 3, 3])
        fam = permute_factors(rng, rng.sample(subs_w, n))
        used = {a for t in fam for a in t}
        if not used & {"x", "z"}:
            fam.append([rng.choice(["x", "z"])])
            used = {a for t in fam for a in t}
        mapping = {v: rng.choice([v, v, f"C({v})", f"T({v})", f"S({v})"]) for v in CAT_VARS}
        while True:
            for v in NUM_VARS:
                mapping[v] = rng.choice([v, f"scale({v})", f"poly({v}, 2)", f"poly({v}, 2)",
                                         f"bs({v}, df=3)", f"bs({v}, df=3)"])
            if any(atom_width(mapping[v]) > 1 for v in NUM_VARS if v in used):
                break
        fam = [[mapping[a] for a in t] for t in fam]
        c = make_case(fam, rng.random() < 0.5, levels, shuffle, "multi-column-atoms")
        c["grid"] = "wide" if rng.random() < 0.5 else "wide-half"
        wide_cases.append(c)
    if tier == "thorough":
        # (f) every ordered family over {f, g, h, x, z} in a random factor order
        for fam in ordered_families(subs5, 3):
            fam = permute_factors(rng, fam)
            cases.append(make_case(fam, rng.random() < 0.5, levels, shuffle, "fam3/fghxz"))
        # (g) all 2^15 families over four two-level factors: margins-first order and a random order
        subs_k = nonempty_subsets(CAT_VARS)
        lv2 = level_counts(rng, two_level=True)
        for mask in range(1, 1 << 15):
            fam = [subs_k[i] for i in range(15) if mask >> i & 1]
            ic = bool(mask & 1) ^ bool(rng.randrange(2))
            cases.append(make_case(fam, ic, lv2, shuffle, "all-families/4x2"))
            fam2 = permute_factors(rng, fam)
            rng.shuffle(fam2)
            cases.append(make_case(fam2, not ic, lv2, shuffle, "all-families/4x2-shuffled"))
    # numeric columns: integers on one half of the cases, halves (float dtype) on the other
    for c in cases:
        if rng.random() < 0.5 and any(t != "1" and any(atom_info(a)[0] == "n" for a in t)
                                      for t in c["terms"]):
            c["grid"] = "half"
    # (j) families written with the distributive operators (own PRNG stream: the cases above do not
    #     depend on how many of these there are)
    rng_j = rng_for(seed, "c03", "distributive")
    dist_cases = []
    for _ in range(200 if tier == "quick" else 4000):
        c = gen_distributive(rng_j, levels, shuffle)
        if rng_j.random() < 0.5 and any(t != "1" and any(atom_info(a)[0] == "n" for a in t)
                                        for t in c["terms"]):
            c["grid"] = "half"
        dist_cases.append(c)
    # prediction stage (common.evaluate_new_data on the training frame and on a row-permuted copy):
    # every case in the thorough tier, a sample of the cases of every kind in the quick tier
    rng_p = rng_for(seed, "c03", "predict-sample")
    share = {"quick": 0.12}.get(tier, 1.0)
    for c in cases + wide_cases:
        if rng_p.random() < share:
            c["predict"] = True
    # columns the formula never mentions (own PRNG stream): none / complete / with missing values
    # scattered, on whole cells of the factorial, or everywhere
    rng_u = rng_for(seed, "c03", "unused-columns")
    for c in cases + dist_cases + wide_cases:
        c["unused"] = rng_u.choice(UNUSED_PATTERNS)
    # pandas Categorical columns for some factors (own PRNG stream): unordered with unsorted declared
    # categories, with declared-but-unused categories, both; ordered with every category used
    rng_c = rng_for(seed, "c03", "categorical-columns")
    for c in cases + dist_cases + wide_cases:
        if rng_c.random() < 0.3:
            vs = sorted({atom_info(a)[2] for t in c["terms"] if t != "1" for a in t
                         if atom_info(a)[0] == "c"})
            if vs:
                c["columns"] = {v: rng_c.choice(COLUMN_KINDS)
                                for v in rng_c.sample(vs, rng_c.randrange(1, len(vs) + 1))}
    # re-evaluation stage (one model description, DesignMatrices twice on two row permutations of the
    # frame; own PRNG stream): a share of the cases with a call atom, a few of the others
    rng_r = rng_for(seed, "c03", "re-evaluation-sample")
    share_call, share_plain = {"quick": (0.3, 0.01)}.get(tier, (0.5, 0.02))
    for c in cases + dist_cases + wide_cases:
        has_call = any(atom_info(a)[1] for t in c["terms"] if t != "1" for a in t)
        if not c.get("clean_env") and rng_r.random() < (share_call if has_call else share_plain):
            c["reeval"] = True
    return cases + dist_cases + wide_cases


def pick_groups(tier, seed):
    """abstract families for the direct comparison with contrasts.pick_contrasts"""
    rng = rng_for(seed, "c03", "pick")
    facs = ["a", "b", "c", "d"]
    subs = nonempty_subsets(facs)
    groups = []
    for fam in ordered_families(subs, 3):
        for ic in (True, False):
            for perm in (False, True):
                f = permute_factors(rng, fam) if perm else fam
                g = ([["Intercept", []]] if ic else []) + [[":".join(t), t] for t in f]
                groups.append(g)
    n_rand = 3000 if tier == "quick" else 60000
    facs5 = ["a", "b", "c", "d", "e"]
    subs5 = nonempty_subsets(facs5)
    for _ in range(n_rand):
        n = rng.choice([2, 3, 4, 4, 5, 6])
        fam = permute_factors(rng, [rng.choice(subs5) for _ in range(n)])
        g, seen = [], set()
        if rng.random() < 0.5:
            g.append(["Intercept", []])
        pos = rng.randrange(len(fam) + 1)
        for i, t in enumerate(fam):
            name = ":".join(t)
            if name in seen:
                continue
            seen.add(name)
            g.append([name, t])
        if rng.random() < 0.1 and g and g[0][0] == "Intercept":    # intercept not first
            g.insert(min(pos, len(g) - 1), g.pop(0))
        groups.append(g)
    if tier == "thorough":
        for fam in itertools.permutations(subs, 4):
            groups.append([[":".join(t), t] for t in fam])
    return groups


def impl_pick(group):
    from formulae.contrasts import pick_contrasts
    try:
        out = pick_contrasts({name: list(fs) for name, fs in group})
    except Exception as e:  # noqa
        return {"err": type(e).__name__}
    return {"ok": [[name, [sorted([k, bool(v)] for k, v in d.items()) for d in codings]]
                   for name, codings in out.items()]}


# ------------------------------------------------------------------------------------------------
def explore(tier, seed, res=None, replay=None):
    res = res or Result()
    res.rule = ("non-trivial = the family has at least one term with a categorical factor and at "
                "least two terms (counting the intercept), so that the redundancy analysis has a "
                "choice to make; distinct by formula string / by group.  Atoms: plain variables, C / T / "
                "S / scale calls (exact integer path) and poly(v, 2) / bs(v, df=3) as numeric atoms with "
                "2 / 3 columns (floating-point rank path, numeric grids of four values).  Families are "
                "written term by term and (kind distributive/...) with ':' '*' '/' over a parenthesised "
                "sum.  Prediction stage: common.evaluate_new_data on the training frame and on a "
                "row-permuted copy, same rank / column-space facts (sample of the cases in quick, all "
                "in thorough, every distributive case).  Frames carry columns the formula does not "
                "mention, with missing values scattered / on whole cells / everywhere (case key 'unused'): "
                "one matrix row per frame row, same rank facts.  Some factors are pandas Categorical "
                "columns (unsorted / unused declared categories, ordered; case key 'columns').  "
                "Re-evaluation stage (case key 'reeval'): one model description evaluated by "
                "DesignMatrices on two row permutations of the frame, the second matrix judged by the "
                "same facts")
    procs = int(os.environ.get("VERIF_PROCS", "6" if tier == "quick" else "12"))
    procs = max(1, min(procs, os.cpu_count() or 1))

    # ---------------------------------------------------------------- 1. pick_contrasts, directly
    if replay is not None and "group" in replay:
        groups = [replay["group"]]
    elif replay is not None:
        groups = []
    else:
        groups = pick_groups(tier, seed)
    impl_out = [impl_pick(g) for g in groups]
    model_out = ask([{"op": "c03_pick", "group": g, "impl": io.get("ok")}
                     for g, io in zip(groups, impl_out)]) if groups else []
    for g, io, mo in zip(groups, impl_out, model_out):
        res.evaluations += 1
        res.traces += 1
        res.count("pick:" + ("ok" if "ok" in io else "error"))
        case = {"group": g}
        m = mo["model"]
        m_view = {"ok": [[n, [sorted(c) for c in cs]] for n, cs in m["ok"]]} if "ok" in m else \
            {"err": ERR_CLASS.get("contrasts:" + m["err"], m["err"])}
        if m_view != io:
            res.mismatches.append({"case": case, "impl": io, "model": m_view})
        if "err" in io:
            res.failures.append({"case": case, "impl": io, "expected": "codings",
                                 "why": "pick_contrasts raised " + io["err"], "finding": None})
        elif not mo.get("spec", False):
            res.failures.append({"case": case, "impl": io, "expected": "interval partition",
                                 "why": "codings returned by pick_contrasts do not partition the "
                                        "down-closure of the group's terms", "finding": None})
        if "ok" in io:
            if any(len(cs) > 1 for _, cs in io["ok"]):
                res.count("pick:several-codings-for-a-term")
            if any(len(cs) == 0 for _, cs in io["ok"]):
                res.count("pick:empty-coding-for-a-term")
        if len(g) >= 2:
            res.nontrivial.add("pick:" + repr(g))
    if replay is None:
        res.exhaustive = True
        res.notes.append(f"pick_contrasts compared directly on {len(groups)} abstract families "
                         "(every ordered family of <= 3 terms over four factors, with/without "
                         "intercept, canonical and random factor order, plus random larger ones)")

    # ---------------------------------------------------------------- 2./3. the pipeline
    if replay is not None and "formula" in replay:
        cases = [replay]
    elif replay is not None:
        cases = []
    else:
        cases = gen_cases(tier, seed)
    # distinct formulas only
    seen, uniq = set(), []
    for c in cases:
        key = (c["formula"], tuple(sorted(c["levels"].items())), bool(c.get("clean_env")),
               c.get("grid", "int"))
        if key not in seen:
            seen.add(key)
            uniq.append(c)
    cases = uniq
    impl = run_impl(cases, procs)
    reqs = []
    for c, io in zip(cases, impl):
        lv = {}
        for t in c["terms"]:
            if t != "1":
                for a in t:
                    k, _, v = atom_info(a)
                    if k == "c":
                        lv[a] = c["levels"][v]
        design = None
        if "design" in io:
            design = [[n, [[cn, k, bool(fl)] for cn, k, fl, _ in comps]] for n, comps in io["design"]]
        widths = {a: atom_width(a) for t in c["terms"] if t != "1" for a in t
                  if atom_info(a)[0] == "n" and atom_width(a) > 1}
        reqs.append({"op": "c03_pipe", "terms": family_terms(c), "widths": widths,
                     # D9 is repaired in /repo (Call.__deepcopy__): the copy always succeeds
                     "env_copyable": True,
                     "levels": lv, "impl": design})
    model = ask(reqs) if reqs else []
    bridge_checked = 0
    for c, io, mo in zip(cases, impl, model):
        res.evaluations += 1
        res.count("kind:" + c["kind"])
        case = {k: c[k] for k in ("formula", "terms", "levels", "shuffle", "kind")}
        if c.get("clean_env"):
            case["clean_env"] = True
        if c.get("grid"):
            case["grid"] = c["grid"]
            res.count("grid:" + c["grid"])
        if c.get("predict"):
            case["predict"] = True
        if c.get("unused"):
            case["unused"] = c["unused"]
            res.count("unused-columns:" + c["unused"])
        if c.get("columns"):
            case["columns"] = c["columns"]
            for kind in sorted(set(c["columns"].values())):
                res.count("categorical-column:" + kind)
        if c.get("reeval"):
            case["reeval"] = True
        if "md_err" in io or io.get("md") != c["terms"]:
            # the resolver did not produce the intended family: not a C03 case (term algebra, C02)
            res.count("skipped:resolver-family-differs")
            continue
        res.traces += 1
        m = mo["model"]
        # ---- correspondence
        if "err" in io:
            i_view = {"err": io["err"]}
        else:
            i_view = {"terms": [[n, [[cn, k, fl if k == "c" else None, call]
                                     for cn, k, fl, call in comps]] for n, comps in io["terms"]],
                      "design": io["design_keys"]}
        if "err" in m:
            m_view = {"err": ERR_CLASS.get(m["err"], m["err"])}
        else:
            calls = {a: atom_info(a)[1] for t in c["terms"] if t != "1" for a in t}
            m_view = {"terms": [[n, [[cn, k, fl if k == "c" else None, calls.get(cn)]
                                     for cn, k, fl in comps]] for n, comps in m["ok"]],
                      "design": [n for n, _ in m["design"]]}
        if i_view != m_view:
            res.mismatches.append({"case": case, "impl": i_view, "model": m_view})
        # ---- specification on the implementation's output
        why = None
        facts = {}
        degenerate = any(c["levels"][atom_info(a)[2]] == 1 for t in c["terms"] if t != "1"
                         for a in t if atom_info(a)[0] == "c")
        if "err" in io:
            why = "design_matrices raised " + io["err"]
        else:
            facts = {k: io[k] for k in ("ncols", "rank", "rank_full", "rank_joint", "nrows")}
            facts["dim"] = mo["dim"]
            facts["partition"] = mo.get("spec")
            # a factor with one level makes some interval pieces zero-dimensional: the partition is
            # then sufficient but no longer necessary, and the matrix alone decides
            matrix_ok = (io["rank"] == io["ncols"] == io["rank_full"] == io["rank_joint"])
            if io.get("float_path"):
                facts["sv_gaps"] = io["sv_gaps"]
                res.count("float-path (multi-column numeric atoms)")
            if io["nrows"] != io["rows"]:
                why = (f"the matrix has {io['nrows']} rows, the frame {io['rows']}: every row is complete in "
                       "the variables of the formula (missing values only in columns it does not mention), "
                       "so the model space lives on all the rows of the data")
            elif not io["integral"]:
                why = "harness assumption broken: matrix entries are not integers"
            elif io.get("rank_ambiguous"):
                why = ("floating-point rank not clear-cut: a singular value of X, F or [X | F] lies "
                       f"between {RANK_ZERO} and {RANK_TOL} of the largest (nearly dependent columns)")
            elif len(io["labels"]) != io["ncols"] or sum(w for _, w in io["widths"]) != io["ncols"]:
                why = "labels / slices do not match the number of columns"
            elif not mo.get("spec") and degenerate and matrix_ok:
                res.count("one-level:non-partition-but-matrix-fine")
            elif not mo.get("spec"):
                why = ("the coding used by the implementation does not partition the down-closure "
                       "of the family (redundant or missing directions)")
            elif io["ncols"] != mo["impl_cols"]:
                why = "number of columns differs from what the flags used imply (full n, reduced n-1)"
            elif not (io["rank"] == io["ncols"] == mo["dim"]):
                why = "partitioning coding, but rank / column count differ from the dimension formula"
            elif not (io["rank_joint"] == io["rank_full"] == io["rank"]):
                why = "partitioning coding, but the column space differs from the full-indicator space"
            if mo.get("spec"):
                bridge_checked += 1
            elif not degenerate:
                # converse of the bridge: a non-partitioning coding must show in the matrix
                ok_matrix = (io["rank"] == io["ncols"] == io["rank_full"] == io["rank_joint"])
                res.count("non-partition:matrix-" + ("still-fine" if ok_matrix else "defective"))
                if ok_matrix and io["integral"]:
                    why = ("bridge anomaly: flags do not partition the down-closure but the matrix "
                           "has full rank and the right column space")
        classes = mo["classes"]
        if why:
            finding = None
            if i_view == m_view and not why.startswith(("bridge", "harness", "partitioning", "number", "floating",
                                                        "labels", "the matrix has")):
                for cls, fid in FINDING_OF_CLASS:
                    if cls in classes:
                        finding = fid
                        break
            res.failures.append({"case": case, "impl": dict(i_view, **facts), "expected":
                                 {"partition": True, "rank": mo["dim"], "classes": classes},
                                 "why": why, "finding": finding})
            if finding:
                res.known_hit[finding] = res.known_hit.get(finding, 0) + 1
            res.count("fail:" + (finding or "UNCLASSIFIED"))
        else:
            res.count("holds")
            if classes and classes != ["duplicateTermUpToOrder"]:
                res.count("holds-inside-class:" + ",".join(classes))
        # ---- prediction stage: the matrices common.evaluate_new_data hands out for the training
        # frame and for a row-permuted copy (complete-factorial data as well) satisfy the same rank /
        # column-space facts.  Judged where the training matrix satisfies them (a matrix that is
        # defective already at training is reported above, once)
        train_matrix_ok = ("err" not in io and io.get("integral") and not io.get("rank_ambiguous")
                           and io["rank"] == io["ncols"] == io["rank_full"] == io["rank_joint"])
        for nw in (io.get("new") or []):
            if not train_matrix_ok:
                res.count("predict:not-judged (training matrix fails)")
                continue
            res.evaluations += 1
            res.count("predict:" + nw["frame"])
            res.count("predict:kind:" + c["kind"].split("/")[0])
            where = f"common.evaluate_new_data on the {nw['frame']} training frame"
            why_new = None
            if "err" in nw:
                why_new = f"{where} raised {nw['err']}"
            elif not nw["integral"]:
                why_new = f"harness assumption broken: {where}: matrix entries are not integers"
            elif nw.get("rank_ambiguous"):
                why_new = (f"{where}: floating-point rank not clear-cut (a singular value between "
                           f"{RANK_ZERO} and {RANK_TOL} of the largest)")
            elif nw["nrows"] != io["nrows"]:
                why_new = f"{where}: number of rows differs from the frame's"
            elif not (nw["rank"] == nw["ncols"]):
                why_new = (f"{where}: columns are linearly dependent ({nw['ncols']} columns, rank "
                           f"{nw['rank']}; dimension of the model space {nw['rank_full']})")
            elif not (nw["rank_joint"] == nw["rank_full"] == nw["rank"]):
                why_new = (f"{where}: the column space differs from the full-indicator space (rank "
                           f"{nw['rank']}, model space {nw['rank_full']}, joint {nw['rank_joint']})")
            elif nw["ncols"] != io["ncols"]:
                why_new = f"{where}: number of columns differs from the training matrix"
            if why_new:
                nfacts = {k: nw.get(k) for k in ("ncols", "rank", "rank_full", "rank_joint", "nrows")}
                res.failures.append({"case": dict(case, stage="predict", new_frame=nw["frame"]),
                                     "impl": dict(i_view, training=facts, new=nfacts),
                                     "expected": {"rank": facts.get("ncols"), "rank_full": facts.get("rank_full"),
                                                  "rank_joint": facts.get("rank_full")},
                                     "why": why_new, "finding": None})
                res.count("fail:predict:UNCLASSIFIED")
            else:
                res.count("predict:holds")
        # ---- re-evaluation stage: the second DesignMatrices(model, frame, env) of one model
        # description, on another row permutation of the frame, satisfies the same facts.  Judged
        # where the fresh design satisfies them (a defective design is reported above, once)
        rv = io.get("reeval")
        if rv is not None and not train_matrix_ok:
            res.count("re-evaluation:not-judged (fresh design fails)")
        elif rv is not None:
            res.evaluations += 1
            res.count("re-evaluation:kind:" + c["kind"].split("/")[0])
            where = ("the second DesignMatrices(model, frame, env) on one model_description(formula), "
                     "on another row permutation of the frame")
            why_re = None
            if "err" in rv:
                why_re = f"{where}, raised {rv['err']}"
            elif not rv["integral"]:
                why_re = f"harness assumption broken: {where}: matrix entries are not integers"
            elif rv.get("rank_ambiguous"):
                why_re = (f"{where}: floating-point rank not clear-cut (a singular value between "
                          f"{RANK_ZERO} and {RANK_TOL} of the largest)")
            elif rv["nrows"] != io["nrows"]:
                why_re = f"{where}: number of rows differs from the frame's"
            elif not (rv["rank"] == rv["ncols"]):
                why_re = (f"{where}: columns are linearly dependent ({rv['ncols']} columns, rank "
                          f"{rv['rank']}; dimension of the model space {rv['rank_full']})")
            elif not (rv["rank_joint"] == rv["rank_full"] == rv["rank"]):
                why_re = (f"{where}: the column space differs from the full-indicator space of that frame "
                          f"(rank {rv['rank']}, model space {rv['rank_full']}, joint {rv['rank_joint']})")
            elif rv["ncols"] != io["ncols"]:
                why_re = f"{where}: number of columns differs from the fresh design's"
            if why_re:
                rfacts = {k: rv.get(k) for k in ("ncols", "rank", "rank_full", "rank_joint", "nrows")}
                res.failures.append({"case": dict(case, stage="re-evaluation"),
                                     "impl": dict(i_view, fresh=facts, second=rfacts),
                                     "expected": {"rank": facts.get("ncols"), "rank_full": facts.get("rank_full"),
                                                  "rank_joint": facts.get("rank_full")},
                                     "why": why_re, "finding": None})
                res.count("fail:re-evaluation:UNCLASSIFIED")
            else:
                res.count("re-evaluation:holds")
        # instances of the theorems, re-checked on the implementation's output
        if mo["pipeline_guard"]:
            res.count("inside-guard-of-C03_pipeline_partial")
            if why and i_view == m_view:
                res.mismatches.append({"case": case, "impl": {"holds": False, "why": why},
                                       "model": "pipelineGuard holds: C03_pipeline_partial says the "
                                                "model's design partitions"})
        elif not classes:
            res.count("outside-guard-but-no-defect-class")
        if mo["hier_family"]:
            res.count("margins-first (C03_hierarchical)")
            if not mo["pipeline_guard"] and not classes:
                res.count("margins-first-but-outside-guard")
        if (not why) != bool(mo["model_holds"]) and i_view == m_view and not (degenerate and not why):
            # the model's own verdict must agree with the verdict on the implementation's output
            res.mismatches.append({"case": case, "impl": {"holds": not why, "why": why},
                                   "model": {"model_holds": mo["model_holds"]}})
        n_terms = len(c["terms"])
        has_cat = any(t != "1" and any(atom_info(a)[0] == "c" for a in t) for t in c["terms"])
        if n_terms >= 2 and has_cat:
            res.nontrivial.add(c["formula"])
        if len(res.samples) < 8 and res.evaluations % 997 == 0:
            res.samples.append({"formula": c["formula"], "impl": i_view, "facts": facts,
                                "classes": classes})
    res.notes.append(f"bridge (partition => rank = columns = dimension formula, column space = "
                     f"full-indicator space) validated by exact elimination on {bridge_checked} "
                     f"designs (test)")
    return res
