"""C09 — missing-value policy: drop / error / pass."""
import re

import numpy as np
import pandas as pd

import designs
from common import Result, ask, rng_for

ASSUMPTIONS = [
    "which variables a formula uses (Spec.C09.freeVars) and which rows are complete are computed by "
    "the Lean driver from the formula's AST and the frame; the relations drop = filtered run, error "
    "<=> incomplete row, pass rule are evaluated by the driver on matrices of real runs",
    "pass is judged only where the statement defines it: missing values in numeric variables used as "
    "plain variables or in pointwise calls (a missing categorical value under pass raises TypeError "
    "in sorted(): outside the statement, D19 of DESIGN.md)",
]
ASSUMPTIONS.append(
    "history stage: one DataFrame object is passed to design_matrices, then edited IN PLACE (missing "
    "values written into / filled in / moved between rows of used and unused columns; row count "
    "unchanged), then passed again under each policy; the second call is judged by the same relations "
    "(drop = run on the filtered frame, error <=> an incomplete row exists, pass rule, var_names) on "
    "the frame as it is at the time of that call: the references are computed from a deep copy that "
    "never went through the first call; every judged call runs on its own copy of the history, with "
    "no other call in between")
ASSUMPTIONS.append(
    "levels that vanish with the removed rows: the frames also hold an ORDERED pandas categorical `ro` "
    "and an unordered one `ru` (declared categories not in sorted order; a rare level in one or two "
    "rows; now and then a declared category that is never observed), used as plain variable, inside "
    "an interaction, as C() / T() argument and as grouping factor; and for a share of the cases one "
    "level of a categorical column the formula uses (any of f, g, h, cu, co, ro, ru) is made to occur "
    "ONLY in incomplete rows: another used numeric variable (or the response) is missing in every row "
    "that carries the level.  The judge is the same relation as everywhere (drop = the run on the frame "
    "from which the incomplete rows were removed by boolean selection, where pandas keeps the declared "
    "categories); a drop that succeeds where the filtered run is refused is a failure as well")
ASSUMPTIONS.append(
    "infinite is not missing: for a share of the cases a twin frame is judged in which +inf / -inf and "
    "huge finite values (+-1e300, +-1.5e308) are written into float columns the formula uses (plain, "
    "inside calls, as slopes of group terms, the response; now and then an unused column), in rows "
    "with and without missing values; missing means NaN / None / NA only.  The judge is unchanged: "
    "which rows are complete is computed by the Lean spec (Spec.C09.completeRows) from the cells, drop "
    "= the run on the frame without those rows, error <=> such a row exists, pass rule.  The rational "
    "protocol cannot carry an infinity: on these frames and on the matrices of all runs +inf / -inf "
    "cross as the rationals +-2^2000 (no float equals them; a cell that is present, never a missing "
    "one), so 'equal' holds for an infinite entry only against an infinite entry of the same sign and "
    "NaN only against NaN; the exact-rational pipeline model is not asked about the twin frames (float "
    "overflow / rounding at 1e300 is outside it) "
    "(counted as pipeline_skip:infinite values)")
ASSUMPTIONS.append(
    "names of called functions are not variables: for a share of the cases the frame also holds columns "
    "the formula does NOT use whose names equal the (root) names of functions the formula calls (scale, "
    "center, I, C, T, S, bs, fun, np of np.exp(...), ...) and now and then of functions it does not call, "
    "float or string columns with missing values written preferably into rows that are complete in the "
    "used variables.  The judge is unchanged: Spec.C09.usedColumns reads the variables off the AST "
    "(callees, keyword names and subset levels are not variables), so these columns must neither appear "
    "in var_names nor remove a row under 'drop' nor raise under 'error' nor turn an entry into NaN under "
    "'pass'; the callee itself is resolved in the namespace, never in the data")
ASSUMPTIONS.append(
    "the pass rule is judged for the RESPONSE matrix as well as for the common / group matrices: under "
    "'pass' a row whose (numeric) response variable is missing must carry NaN in the response column(s) "
    "and every other row the entry of the reference run (missing values filled in), by the same "
    "Spec.C09.passRule with the response term's variables as column variables; for a share of the cases "
    "(own PRNG stream) the numeric response column `y` holds whole numbers only (a count-like response: "
    "float64, or int64 until a missing value is written into it), otherwise halves")
TRUSTED = ["pandas isna / boolean row selection (modelled by incompleteRows / keepRows)"]

TERMS = ["x", "z", "f", "g", "f:x", "np.exp(z / 4)", "I(x + z)", "{z * 2}", "C(f)", "center(x)",
         "T(g, ref='w')", "`w z`", "scale(x)", "I(`w z` + 1)", "fun(x, k=z)", "fun(fun(x), z)",
         "h:g", "bs(x, df=4)", "fun(z, k=fun(x, k=`w z`))", "cu", "co:x", "ni", "bl", "bl:x", "ni:f",
         "I(ni + 1)"]
POINTWISE = ["x", "z", "f", "g", "f:x", "I(x + z)", "{z * 2}", "`w z`", "I(`w z` + 1)", "fun(x, k=z)",
             "fun(fun(x), z)", "h:g", "x:z", "C(f):z", "fun(z, k=fun(x, k=`w z`))", "ni", "ni:z"]
GROUPS = ["(1 | g)", "(x | h)", "(z | g)", "(f | h)", "(`w z` | g)", "(fun(x, k=z) | h)"]
NUM = ["y", "x", "z", "w z", "unused", "ni", "bl"]
# columns of pandas' nullable extension dtypes (missing value = pd.NA, integer / boolean dtype kept)
NULLABLE = {"ni": "Int64", "bl": "boolean"}
FILL = {c: (False if c == "bl" else 0 if c == "ni" else 0.0) for c in NUM}
CAT = ["f", "g", "h"]
# categorical columns with DECLARED categories in which a level may vanish with the removed rows
RO_LEVELS = ["q2", "q0", "q3", "q1"]      # ordered categorical, declared order (not sorted)
RU_LEVELS = ["s1", "s3", "s0", "s2"]      # unordered categorical, declared order (not sorted)
RARE_TERMS = ["ro", "ru", "C(ro)", "C(ru)", "ro:x", "ru:z", "T(ru, 's1')", "C(ro):z", "x:ro", "S(ro)"]
RARE_POINTWISE = ["ro", "ru", "ro:x", "ru:z", "C(ru):z", "x:ro"]
RARE_GROUPS = ["(1 | ro)", "(x | ru)", "(z | C(ro))", "(0 + x | ro)", "(1 | ru:h)", "(f | ro)",
               "(1 | C(ru))", "(ro | h)", "(0 + ru | g)"]
LEVELLED = ["f", "g", "h", "cu", "co", "ro", "ru"]
CORPUS = ["y ~ x + (z | g)", "y ~ fun(x, k=z)", "y ~ `w z` + f", "yc ~ x", "y ~ f:x + (x | h)",
          "y ~ I(x + z) + C(f)"]


CALLEE_EXTRA = ["scale", "center", "I", "C", "T", "S", "fun", "np", "bs", "p", "standardize", "exp"]


def callee_roots(formula):
    """root names of the functions a formula calls: 'scale' of scale(x), 'np' of np.exp(z / 4)"""
    text = re.sub(r"`[^`]*`", " ", formula)
    out = []
    for m in re.finditer(r"([A-Za-z_][A-Za-z_0-9]*(?:\.[A-Za-z_][A-Za-z_0-9]*)*)\s*\(", text):
        root = m.group(1).split(".")[0]
        if root not in out:
            out.append(root)
    return out


def add_callee_columns(rc, data, formula):
    """-> (frame, {column: missing positions}): unused columns named like called functions, with
    missing values (preferably in rows that are complete in the variables the formula uses)"""
    names = [c for c in callee_roots(formula) if c not in data.columns]
    if names and rc.random() < 0.5:
        names = rc.sample(names, rc.randrange(1, len(names) + 1))
    if rc.random() < 0.3 or not names:
        more = rc.choice(CALLEE_EXTRA)
        if more not in names and more not in data.columns:
            names.append(more)
    used = formula_columns(formula, data)
    n = len(data)
    complete = [i for i in range(n) if not data[used].iloc[i].isna().any()] if used else list(range(n))
    out = data.copy()
    written = {}
    for c in names:
        rows = set(rc.sample(range(n), rc.randrange(1, max(2, n // 3))))
        if complete:
            rows |= set(rc.sample(complete, min(len(complete), rc.randrange(1, 3))))
        rows = sorted(rows)
        if rc.random() < 0.7:
            vals = [rc.randrange(-6, 7) / 2 for _ in range(n)]
            for i in rows:
                vals[i] = np.nan
            out[c] = pd.Series(vals, index=out.index, dtype=float)
        else:
            vals = [rc.choice(["r", "s", "t"]) for _ in range(n)]
            for i in rows:
                vals[i] = None if rc.random() < 0.5 else np.nan
            out[c] = pd.Series(vals, index=out.index, dtype=object)
        written[c] = rows
    return out, written


INF_COLS = ["y", "x", "z", "w z"]                  # float columns (nullable Int64 / boolean cannot hold inf)
INF_VALUES = [np.inf, -np.inf, np.inf, -np.inf, 1e300, -1e300, 1.5e308, -1.5e308]
BIG = 2 ** 2000                                     # stands for an infinity on the rational protocol


def frac(x):
    if isinstance(x, (float, np.floating)) and np.isinf(x):
        return [BIG if x > 0 else -BIG, 1]
    return designs.frac(x)


def mat(a):
    a = np.asarray(a)
    if a.ndim == 1:
        a = a[:, None]
    return [[frac(v) for v in row] for row in a.tolist()]


def frame_json(df):
    """designs.frame_json; infinite cells of float columns cross as +-BIG (present values)"""
    num = [c for c in df.columns if pd.api.types.is_float_dtype(df[c])
           and not isinstance(df[c].dtype, pd.CategoricalDtype)]
    inf_at = {c: [(i, v) for i, v in enumerate(df[c].tolist()) if isinstance(v, float) and np.isinf(v)]
              for c in num}
    inf_at = {c: v for c, v in inf_at.items() if v}
    if not inf_at:
        return designs.frame_json(df)
    safe = df.copy()
    for c, cells in inf_at.items():
        vals = safe[c].tolist()
        for i, _ in cells:
            vals[i] = 0.0
        safe[c] = pd.Series(vals, index=safe.index, dtype=float)
    out = designs.frame_json(safe)
    for col in out["cols"]:
        for i, v in inf_at.get(col["name"], []):
            col["cells"][i] = frac(v)
    return out


def write_infinite(ri, data, formula):
    """-> (frame, columns, {column: [[row, value], ...]}): infinite / huge finite values written into
    float columns the formula uses (now and then an unused one), NaN cells left as they are half of
    the time"""
    used = [c for c in formula_columns(formula, data) if c in INF_COLS]
    pool = used or ["x"]
    out = data.copy()
    n = len(out)
    written = {}
    for c in ri.sample(pool, ri.randrange(1, min(2, len(pool)) + 1)) + (["unused"] if ri.random() < 0.15 else []):
        j = out.columns.get_loc(c)
        if not pd.api.types.is_float_dtype(out[c]):
            out[c] = out[c].astype(float)
        rows = sorted(ri.sample(range(n), ri.randrange(1, max(2, n // 4))))
        if ri.random() < 0.5:            # keep the missing cells missing
            rows = [i for i in rows if not pd.isna(out.iloc[i, j])] or rows
        vals = [ri.choice(INF_VALUES) for _ in rows]
        for i, v in zip(rows, vals):
            out.iloc[i, j] = v
        written[c] = [[i, repr(v)] for i, v in zip(rows, vals)]
    return out, list(written), written


def fun(a, k=0):
    return a + k


def make_frame(r):
    df = designs.gen_frame(r)
    df["w z"] = [r.randrange(-4, 5) / 2 for _ in range(len(df))]
    df["unused2"] = ["u"] * len(df)
    df["ni"] = pd.array([r.randrange(-3, 8) for _ in range(len(df))], dtype="Int64")
    df["bl"] = pd.array([r.random() < 0.5 for _ in range(len(df))], dtype="boolean")
    return df


def add_rare_columns(rr, df):
    """`ro` (ordered) / `ru` (unordered) pandas categoricals with declared categories: two or three
    common levels, one rare level in one or two rows, now and then a declared level never observed.
    Own PRNG stream: the other columns are what they were."""
    n = len(df)
    for name, levels, ordered in (("ro", RO_LEVELS, True), ("ru", RU_LEVELS, False)):
        lv = list(levels)
        rr.shuffle(lv)
        never = lv.pop() if rr.random() < 0.2 else None          # declared, never observed
        rare, common = lv[0], lv[1:]
        xs = [rr.choice(common) for _ in range(n)]
        for i, l in enumerate(common):
            xs[i % n] = l
        rr.shuffle(xs)
        for i in rr.sample(range(n), rr.randrange(1, 3)):
            xs[i] = rare
        df[name] = pd.Categorical(xs, categories=levels, ordered=ordered)
    return df


def set_missing(out, c, rows):
    """writes missing values into column `c` of `out` at the positions `rows` (in place)"""
    j = out.columns.get_loc(c)
    if c in NULLABLE:
        vals = out[c].tolist()
        for i in rows:
            vals[i] = pd.NA
        out[c] = pd.array(vals, dtype=NULLABLE[c])
    else:
        if not pd.api.types.is_float_dtype(out[c]):
            out[c] = out[c].astype(float)
        out.iloc[list(rows), j] = np.nan
    return out


def tie_level(rr, data, formula):
    """-> (frame, [numeric column] or [], description): one level of a categorical column the formula
    uses is made to occur only in incomplete rows, by making another used numeric variable missing in
    every row that carries it (and, half of the time, in one more row)"""
    used = formula_columns(formula, data)
    cats = [c for c in used if c in LEVELLED]
    nums = [c for c in used if c in NUM and c != "unused"]
    if not cats or not nums:
        return data, [], None
    c = rr.choice(cats)
    v = rr.choice(nums)
    counts = {}
    for x in data[c].tolist():
        if not pd.isna(x):
            counts[x] = counts.get(x, 0) + 1
    if len(counts) < 2:
        return data, [], None
    # the rarest level most of the time (few rows lost), any level otherwise
    levels = sorted(counts, key=lambda l: (counts[l], str(l)))
    level = levels[0] if rr.random() < 0.7 else rr.choice(levels)
    rows = [i for i, x in enumerate(data[c].tolist()) if x == level]
    if len(rows) >= len(data) - 1:
        return data, [], None
    if rr.random() < 0.5:
        rows = sorted(set(rows + [rr.randrange(len(data))]))
    out = set_missing(data.copy(), v, rows)
    return out, [v], {"level": str(level), "of": c, "only_in_rows_where_missing": v}


def punch(r, df, cols, frac=0.2):
    out = df.copy()
    n = len(out)
    for c in cols:
        k = min(n - 1, max(1, int(n * frac * r.random())))
        rows = r.sample(range(n), k)
        if c in NULLABLE:
            vals = out[c].tolist()
            for i in rows:
                vals[i] = pd.NA
            out[c] = pd.array(vals, dtype=NULLABLE[c])
        elif c in CAT or c in ("cu", "co", "yc", "unused2"):
            out[c] = out[c].astype(object)
            for i in rows:
                out.loc[i, c] = None if r.random() < 0.5 else np.nan
        else:
            out[c] = out[c].astype(float)
            for i in rows:
                out.loc[i, c] = np.nan
    return out


def formula_columns(formula, df):
    toks = set(re.findall(r"`([^`]*)`", formula)) | set(re.findall(r"[A-Za-z_][A-Za-z_0-9]*", formula))
    return [c for c in df.columns if c in toks]


def gen_edits(r, df, formula):
    """in-place edits of a frame (concrete, replayable): ("set", column, positions) writes missing
    values, ("fill", column) fills them in, ("roll", column, k) moves the values (and the missing
    ones) to other rows.  Mostly on columns the formula uses, now and then on one it does not."""
    n = len(df)
    used = [c for c in formula_columns(formula, df) if c in NUM or c in CAT] or ["x"]
    edits = []
    for _ in range(r.randrange(1, 4)):
        c = r.choice(used) if r.random() < 0.85 else r.choice(["unused", "unused2"])
        has_na = bool(df[c].isna().any()) or any(e[0] == "set" and e[1] == c for e in edits)
        u = r.random()
        if has_na and u < 0.45:
            edits.append(("fill", c))
        elif has_na and u < 0.6:
            edits.append(("roll", c, r.randrange(1, n)))
        else:
            edits.append(("set", c, sorted(r.sample(range(n), r.randrange(1, max(2, n // 3))))))
    if r.random() < 0.15:               # everything repaired: no incomplete row is left
        edits = [("fill", c) for c in df.columns if c in NUM or c in CAT or c == "yc"]
    return edits


def apply_edits(d, edits):
    """modifies the frame object `d` itself"""
    for e in edits:
        c = e[1]
        j = d.columns.get_loc(c)
        if e[0] == "set":
            if c in NULLABLE:
                vals = d[c].tolist()
                for i in e[2]:
                    vals[i] = pd.NA
                d[c] = pd.array(vals, dtype=NULLABLE[c])
            elif c in NUM or c == "unused":
                if not pd.api.types.is_float_dtype(d[c]):
                    d[c] = d[c].astype(float)
                d.iloc[e[2], j] = np.nan
            else:
                if d[c].dtype != object:
                    d[c] = d[c].astype(object)
                d.iloc[e[2], j] = None
        elif e[0] == "fill":
            if c in FILL:
                d[c] = d[c].fillna(FILL[c])
            else:
                present = [v for v in d[c].tolist() if not pd.isna(v)]
                d[c] = d[c].fillna(present[0] if present else "a")
        else:
            vals = d[c].tolist()
            k = e[2] % len(vals)
            d[c] = pd.Series(vals[k:] + vals[:k], index=d.index, dtype=d[c].dtype)
    return d


def run_history(hist, action):
    """one frame object: first call, in-place edits, the judged call"""
    d = hist["prior"].copy(deep=True)
    run(hist["first"][0], d, hist["first"][1])
    apply_edits(d, hist["edits"])
    return run(hist["formula"], d, action)


def run(formula, df, action):
    import formulae
    try:
        dm = formulae.design_matrices(formula, df, na_action=action,
                                      extra_namespace={"fun": fun, "np": np})
    except Exception as e:  # noqa
        return {"err": type(e).__name__}
    out = {"used": sorted(set(dm.model.var_names) & set(df.columns))}
    for part in ("response", "common", "group"):
        o = getattr(dm, part)
        out[part] = None if o is None else mat(o.design_matrix)
    if dm.response is not None:
        a = np.asarray(dm.response.design_matrix)
        out["col_vars_response"] = [sorted(dm.response.term.term.var_names)] * (1 if a.ndim == 1 else a.shape[1])
    if dm.common is not None:
        cv = []
        for t in dm.common.terms.values():
            w = dm.common.slices[t.name].stop - dm.common.slices[t.name].start
            cv += [sorted(t.var_names)] * w
        out["col_vars_common"] = cv
    if dm.group is not None:
        cv = []
        for t in dm.group.terms.values():
            w = dm.group.slices[t.name].stop - dm.group.slices[t.name].start
            cv += [sorted(t.var_names)] * w
        out["col_vars_group"] = cv
    return out


def explore(tier, seed, res=None, replay=None):
    res = res or Result()
    res.rule = ("generated formulas (variables inside calls incl. keyword and nested arguments, "
                "backquoted names, interactions, group terms, response) x missingness patterns over "
                "used and unused columns x the three policies + invalid policies; for a share of the "
                "cases also as a history: the frame object evaluated once, edited in place (missing "
                "values written / filled in / moved, row count unchanged), evaluated again; "
                "frames hold ordered / unordered categoricals with declared categories and a rare "
                "level (plain, in interactions, in C()/T()/S(), as grouping factor), and in a share of "
                "the cases one level of a used categorical occurs only in rows that are incomplete "
                "because of another used variable; for a share of the cases a twin frame with +-inf / "
                "huge finite values in used float columns (infinite is not missing); "
                "for half of the cases unused columns named like the functions the formula calls, with "
                "missing values in rows complete in the used variables (callees are not variables); "
                "the pass rule is judged on the response matrix too, the numeric response holding whole "
                "numbers only (float64 / int64) in a share of the cases; "
                "non-trivial = a case with at least one incomplete used row; distinct by (formula, "
                "pattern, plain / history / infinite twin)")
    n_cases = 300 if tier == "quick" else 8000
    cases = []
    if replay is not None:
        cases = [(replay["formula"], replay.get("seed_path", 0))]
    else:
        for f in CORPUS:
            cases.append((f, len(cases)))
        for _ in range(n_cases):
            cases.append((None, len(cases)))
    jobs = []
    whole_by_path = {}
    removed_by_path = {}
    for f, path in cases:
        r = rng_for(seed, "c09", path)
        df = make_frame(r)
        # count-like response: whole numbers only (own PRNG stream; the other draws are unchanged)
        rw = rng_for(seed, "c09", path, "whole-response")
        u_whole = rw.random()
        whole = None
        if (u_whole < 0.45 if replay is None else "whole_number_response" in replay):
            as_int = rw.random() < 0.3
            shift = rw.choice([0, 0, 8])                 # counts >= 0 now and then
            df["y"] = (df["y"] * 2 + shift).astype("int64" if as_int else "float64")
            whole = {"dtype": "int64" if as_int else "float64", "values": "2*y + %d" % shift}
        whole_by_path[path] = whole
        pointwise = r.random() < 0.45
        pool = POINTWISE if pointwise else TERMS
        formula = f
        if formula is None:
            ts = r.sample(pool, r.randrange(1, 4))
            if r.random() < 0.35:
                ts.append(r.choice(GROUPS))
            formula = r.choice(["y", "y", "yc", "fun(y)"]) + " ~ " + " + ".join(ts)
        # levels that vanish with the removed rows (own PRNG stream; the draws above are unchanged)
        rr = rng_for(seed, "c09", path, "rare")
        df = add_rare_columns(rr, df)
        rf = rng_for(seed, "c09", path, "rare-formula")
        if f is None and rf.random() < 0.4:
            extra = [rf.choice(RARE_POINTWISE if pointwise else RARE_TERMS)]
            if rf.random() < 0.4:
                extra = [rf.choice(RARE_GROUPS)] if rf.random() < 0.6 else extra + [rf.choice(RARE_GROUPS)]
            lhs, rhs = formula.split(" ~ ")
            formula = lhs + " ~ " + " + ".join(rhs.split(" + ") + extra)
        # a variable all of whose terms are removed again with `-` is NOT used by the formula: its
        # missing values are ignored (own PRNG stream; eleventh seeded wave, C09_Q: the set of used
        # names was kept up to date on `+` only)
        rm = rng_for(seed, "c09", path, "removed-terms")
        removed = None
        if replay is not None:
            removed = replay.get("variable_whose_terms_are_removed")   # (the formula has the suffix)
        elif f is None and rm.random() < 0.3:
            import re as _re
            free = [(v, c) for v, c in (("z", "z"), ("x", "x"), ("ni", "ni"), ("`w z`", "w z"))
                    if not _re.search(r"(?<![A-Za-z_`])" + _re.escape(v.strip("`")) + r"(?![A-Za-z_])",
                                      formula)]
            if free:
                v, c = rm.choice(free)
                formula += rm.choice([" + {v} - {v}", " + f*{v} - {v} - f:{v}",
                                      " + {v} + g:{v} - {v} - g:{v}"]).format(v=v)
                removed = c
        removed_by_path[path] = removed
        # missingness: numeric columns (any policy); categorical ones only when not testing pass
        cols = r.sample(NUM, r.randrange(0, 4))
        if removed and removed not in cols:
            cols.append(removed)
        if not pointwise and r.random() < 0.5:
            cols += r.sample(CAT + ["unused2"], r.randrange(1, 3))
        # now and then most rows are incomplete (more rows dropped than kept)
        heavy = r.random() < 0.15
        data = punch(r, df.reset_index(drop=True), cols, 1.6 if heavy else 0.2) if cols else df
        tied = None
        if rr.random() < 0.5:
            data, more, tied = tie_level(rr, data, formula)
            cols = cols + [c for c in more if c not in cols]
        # unused columns named like the functions the formula calls (own PRNG stream)
        rc = rng_for(seed, "c09", path, "callee-columns")
        callee = None
        u_callee = rc.random()
        if (u_callee < 0.5 if replay is None else "unused_columns_named_like_called_functions" in replay):
            data, callee = add_callee_columns(rc, data, formula)
        data = designs.scramble_index(r, data)       # incl. non-unique row labels
        if tied:
            res.count("a level of a used categorical occurs only in incomplete rows")
            res.count("... of an " + ("ordered" if tied["of"] in ("co", "ro") else "unordered / string")
                      + " column")
        jobs.append((formula, path, data, pointwise, cols, None, tied, None, callee))
        # infinite twin: the same frame with +-inf / huge finite values in used float columns
        ri = rng_for(seed, "c09", path, "infinite")
        u_inf = ri.random()
        if replay is not None or u_inf < 0.35:
            data_inf, _, written = write_infinite(ri, data, formula)
            # (the columns that still hold missing values are the ones of `cols`)
            jobs.append((formula, path, data_inf, pointwise, cols, None, None, written, callee))
        # history twin: the same frame object evaluated, edited in place, evaluated again
        rh = rng_for(seed, "c09", path, "history")
        u_hist = rh.random()
        if replay is not None or u_hist < (0.4 if tier == "quick" else 0.6):
            first_formula = formula
            if rh.random() < 0.25:           # the first call may be about other columns
                first_formula = rh.choice(["y", "yc"]) + " ~ " + " + ".join(rh.sample(TERMS, 2))
            edits = gen_edits(rh, data, formula)
            hist = {"prior": data, "formula": formula, "edits": edits,
                    "first": (first_formula, rh.choice(["drop", "drop", "error", "pass"]))}
            now = apply_edits(data.copy(deep=True), edits)      # the frame at the time of the 2nd call
            jobs.append((formula, path, now, pointwise,
                         cols + [e[1] for e in edits if e[0] != "fill" and e[1] not in cols], hist, None,
                         None, callee))
    rows_req = [{"op": "c09_rows", "formula": f, "frame": frame_json(d), "action": "drop"}
                for f, _, d, _, _, _, _, _, _ in jobs]
    rows_out = ask(rows_req)
    spec_reqs, owners = [], []
    pipe_reqs, pipe_owners = [], []
    for (formula, path, data, pointwise, cols, hist, tied, infw, callee), ro in zip(jobs, rows_out):
        res.evaluations += 1
        case = {"formula": formula, "seed_path": path, "missing_in": cols}
        if whole_by_path.get(path):
            case["whole_number_response"] = whole_by_path[path]
        if removed_by_path.get(path):
            case["variable_whose_terms_are_removed"] = removed_by_path[path]
            res.count("formulas with a variable whose terms are all removed again (not used)")
        if callee:
            case["unused_columns_named_like_called_functions"] = {
                c: {"missing_at_positions": rows} for c, rows in callee.items()}
            res.count("frames with unused columns named like called functions (with missing values)")
        if infw:
            case["infinite_or_huge_values_written"] = infw
            res.count("twin frames with +-inf / huge finite values in used float columns")
        if tied:
            case["level_only_in_incomplete_rows"] = tied
        if hist is None:
            def first(action, formula=formula, data=data):
                return run(formula, data, action)
        else:
            case["history"] = {"first_call": list(hist["first"]),
                               "then_edited_in_place": [list(e) for e in hist["edits"]]}
            res.count("history cases (evaluate, edit in place, evaluate again)")

            def first(action, hist=hist):
                return run_history(hist, action)
        if "err" in ro:
            res.count("unparsed")
            continue
        complete = ro["complete"]
        any_incomplete = not all(complete)
        # var_names straight from the model description (no evaluation involved)
        try:
            import formulae
            vn = sorted(set(formulae.model_description(formula).var_names) & set(data.columns))
        except Exception as e:  # noqa
            vn = None
        if vn is not None and vn != ro["spec_used"]:
            res.failures.append({"case": case, "impl": {"var_names": vn}, "expected": ro["spec_used"],
                                 "finding": None,
                                 "why": "var_names differs from the variables the formula uses"})
        if vn is not None and vn != ro["model_used"]:
            res.mismatches.append({"case": case, "impl": {"var_names": vn},
                                   "model": {"used": ro["model_used"]}})
        drop = first("drop")
        # no complete row: refused by the implementation and by the model alike (repair D29)
        model_refuses = "err" in ro["model_step"]
        if model_refuses != (not any(complete)) or (model_refuses and drop.get("err") != "ValueError"):
            res.mismatches.append({"case": case, "impl": {"drop": drop.get("err", "a design")},
                                   "model": {"step": ro["model_step"], "complete_rows": sum(complete)}})
        if model_refuses and drop.get("err") == "ValueError":
            res.count("refused:no-complete-row")
            res.traces += 1
            if first("error").get("err") != "ValueError":
                res.failures.append({"case": case, "impl": "accepted", "expected": "ValueError",
                                     "finding": None, "why": "na_action='error' accepted incomplete rows"})
            continue
        if "err" in drop:
            # refused although a complete row exists: legitimate only if the filtered run is
            # refused in the same way (an error of the formula or of the data that is left)
            filt = run(formula, data.loc[[bool(c) for c in complete]].reset_index(drop=True), "drop")
            if filt.get("err") != drop["err"]:
                res.failures.append({"case": case, "impl": {"drop": drop["err"]},
                                     "expected": {"filtered run": filt.get("err", "a design")},
                                     "finding": None,
                                     "why": f"na_action='drop' raises {drop['err']} but the run on the "
                                            "frame without the incomplete rows does not"})
            res.count("impl_error:" + drop["err"])
            continue
        res.traces += 1
        # model: var_names and the NA step
        if drop["used"] != ro["model_used"] or ro["model_step"].get("rows") != len(
                drop["common"] or drop["group"] or drop["response"]):
            res.mismatches.append({"case": case, "impl": {"used": drop["used"]},
                                   "model": {"used": ro["model_used"], "step": ro["model_step"]}})
        if any_incomplete:
            res.nontrivial.add((formula, path, hist is not None, infw is not None))
        problems = []
        if drop["used"] != ro["spec_used"]:
            problems.append(f"used variables {drop['used']} differ from the variables of the "
                            f"formula {ro['spec_used']}")
        filtered = run(formula, data.loc[[bool(c) for c in complete]].reset_index(drop=True), "drop")
        parts = []
        if "err" in filtered:
            problems.append("the filtered frame cannot be evaluated: " + filtered["err"])
        else:
            for p in ("response", "common", "group"):
                if (drop[p] is None) != (filtered[p] is None):
                    problems.append(f"{p} present in one run only")
                elif drop[p] is not None:
                    parts.append({"rule": "equal", "a": filtered[p], "b": drop[p], "what": p})
        err = first("error")
        if any_incomplete != (err.get("err") == "ValueError") or (not any_incomplete and "err" in err):
            problems.append(f"na_action='error': incomplete rows={any_incomplete}, outcome={err.get('err')}")
        for bad in ("ignore", "Drop", ""):
            if run(formula, data, bad).get("err") != "ValueError":
                problems.append(f"na_action={bad!r} not refused")
        if pointwise and not any(c in CAT for c in cols):
            ps = first("pass")
            ref = run(formula, data.fillna(FILL), "drop")
            if "err" in ps or "err" in ref:
                problems.append(f"pass: {ps.get('err')} / reference {ref.get('err')}")
            else:
                miss = [[c for c in NUM if c in data.columns and pd.isna(data[c].iloc[i])]
                        for i in range(len(data))]
                for p, cvk in (("response", "col_vars_response"), ("common", "col_vars_common"),
                               ("group", "col_vars_group")):
                    if ps[p] is not None:
                        parts.append({"rule": "pass", "a": ref[p], "b": ps[p], "col_vars": ps[cvk],
                                      "row_missing": miss, "what": "pass:" + p})
                if ps["response"] is not None:
                    res.count("pass rule judged on the response matrix")
                    if any("y" in m for m in miss) and "y" in ps["col_vars_response"][0]:
                        res.count("... with a missing numeric response"
                                  + (" (whole-number response)" if whole_by_path.get(path) else ""))
                res.count("pass_cases")
        spec_reqs.append({"op": "c09_spec", "parts": parts})
        owners.append((case, problems, parts))
        # the whole pipeline in Lean with the NA policy, on formula + data alone
        if infw:
            res.count("pipeline_skip:infinite values")
        for action in () if infw else ("drop", "pass") if (
                pointwise and not any(c in CAT for c in cols)) else ("drop",):
            ns = dict(designs.NAMES)
            ns["fun"] = fun
            obs_p, _ = designs.observe(formula, data, ns, na_action=action)
            if "err" not in obs_p:
                pipe_reqs.append({"op": "pipeline", "formula": formula, "frame": designs.frame_json(data),
                                  "names": designs.names_json(designs.NAMES), "na_action": action})
                pipe_owners.append((dict(case, na_action=action), obs_p))
        if len(res.samples) < 5:
            res.samples.append({"formula": formula, "missing_in": cols, "used": drop["used"],
                                "rows_kept": sum(bool(c) for c in complete), "rows": len(complete)})
    # 'pass' with a transform that FITS parameters to its column (center / scale / standardize): when
    # the missing values of the used variables all sit in that one column, the rows the transform
    # sees under 'pass' (pandas skips the missing ones) are the rows 'drop' keeps, so the complete
    # rows are encoded exactly as under 'drop' (eleventh seeded wave, C09_R: a standard deviation
    # whose sum skipped the missing rows while its divisor counted them)
    fit_cases = []
    if replay is None or replay.get("kind") == "pass-fitted-transform":
        ks = [replay["seed_path"]] if replay is not None else range(24 if tier == "quick" else 300)
        for k in ks:
            rp = rng_for(seed, "c09", "pass-fitted", k)
            v = rp.choice(["x", "z"])
            formula = rp.choice(["y ~ scale({v})", "y ~ center({v}) + f", "y ~ scale({v}):f + g",
                                 "y ~ standardize({v}) + (scale({v}) | g)", "y ~ f + scale({v}) + center({v})",
                                 "y ~ 0 + scale({v}, center=False)", "y ~ scale({v}) + (1 | h)"]).format(v=v)
            data = designs.scramble_index(rp, punch(rp, make_frame(rp).reset_index(drop=True), [v], 0.6))
            fit_cases.append(({"formula": formula, "seed_path": k, "kind": "pass-fitted-transform",
                               "missing_in": [v]}, formula, data, v))
    for case, formula, data, v in fit_cases:
        res.evaluations += 1
        ps, dr = run(formula, data, "pass"), run(formula, data, "drop")
        if "err" in ps or "err" in dr:
            res.count("pass-fitted-transform: refused (%s / %s)" % (ps.get("err"), dr.get("err")))
            continue
        res.count("pass-fitted-transform cases (complete rows compared with drop)")
        res.nontrivial.add((formula, "pass-fitted", case["seed_path"]))
        keep = [not pd.isna(x) for x in data[v].tolist()]
        parts, problems = [], []
        for p in ("response", "common", "group"):
            if ps[p] is not None and dr[p] is not None:
                rows = [row for row, kp in zip(ps[p], keep) if kp]
                if rows and dr[p] and len(rows[0]) != len(dr[p][0]):
                    # a level of a factor occurs in removed rows only: 'drop' has fewer columns
                    res.count("pass-fitted-transform: a level vanishes with the dropped rows (not compared)")
                    continue
                parts.append({"rule": "equal", "a": dr[p], "b": rows, "what": "pass-complete-rows:" + p})
        spec_reqs.append({"op": "c09_spec", "parts": parts})
        owners.append((case, problems, parts))
    for (case, obs_p), po in zip(pipe_owners, ask(pipe_reqs)):
        if "err" in po:
            res.count("pipeline_skip:" + po["err"])
            continue
        res.count("pipeline_compared")
        d = designs.compare(obs_p, po)
        if d:
            res.mismatches.append({"case": case, "diff": ["pipeline:" + x for x in d[:5]]})
    for (case, problems, parts), sp in zip(owners, ask(spec_reqs)):
        for p, ok in zip(parts, sp["parts"]):
            if not ok:
                problems.append(f"{p['what']}: relation '{p['rule']}' violated")
        if problems:
            res.failures.append({"case": case, "impl": problems[:3], "expected": "C09 relations",
                                 "why": problems[0], "finding": None})
    return res
